//! C11 demo 4: compressed container-file block whose compressed stream is corrupt
//! *after* some valid data (default `deflate` feature).
//!
//! Blocks of the streaming codecs (deflate, bzip2, xz, zstandard) are decompressed
//! lazily through `BufReader<Decoder<Take<input>>>`, and objects are handed to the caller
//! as soon as enough decompressed bytes are available, before the decompressor has
//! reached the end of the block. Whether the decompressor reaches the corrupt part
//! (and fails, discarding what it had produced in that call) before or after the first
//! objects have been yielded depends on how much compressed input each `fill_buf`
//! provides:
//! - slice input (whole block visible at once): the very first `deserialize_next` is `Err`
//! - reader input delivered in small chunks: `Ok(1)`, `Ok(2)`, `Ok(3)`, then `Err`
//!
//! Put this file in serde_avro_fast/tests/ and run
//! `cargo test -p serde_avro_fast --test demo` (default features).

use {serde_avro_fast::object_container_file_encoding::Reader, std::io::BufRead};

/// A `BufRead` that hands out `data` in fixed-size `fill_buf` chunks
struct Chunked<'a> {
	data: &'a [u8],
	pos: usize,
	chunk: usize,
}
impl Chunked<'_> {
	fn chunk_end(&self) -> usize {
		((self.pos / self.chunk + 1) * self.chunk).min(self.data.len())
	}
}
impl std::io::Read for Chunked<'_> {
	fn read(&mut self, buf: &mut [u8]) -> std::io::Result<usize> {
		let available = self.fill_buf()?;
		let n = available.len().min(buf.len());
		buf[..n].copy_from_slice(&available[..n]);
		self.consume(n);
		Ok(n)
	}
}
impl BufRead for Chunked<'_> {
	fn fill_buf(&mut self) -> std::io::Result<&[u8]> {
		Ok(&self.data[self.pos..self.chunk_end()])
	}
	fn consume(&mut self, amt: usize) {
		assert!(self.pos + amt <= self.chunk_end());
		self.pos += amt;
	}
}

/// Outcome of each successive `deserialize_next` call (error text dropped: only
/// "value or error" matters), up to and including the first `Ok(None)`
fn outcomes<'de, R>(mut reader: Reader<R>) -> Vec<Result<Option<i64>, ()>>
where
	R: serde_avro_fast::de::read::take::Take
		+ serde_avro_fast::de::read::Read
		+ std::io::BufRead
		+ serde_avro_fast::de::read::ReadSlice<'de>,
	<R as serde_avro_fast::de::read::take::Take>::Take:
		std::io::BufRead + serde_avro_fast::de::read::ReadSlice<'de>,
{
	let mut out = Vec::new();
	for _ in 0..10 {
		let res = reader.deserialize_next::<i64>().map_err(|e| {
			println!("   error: {e:?}");
		});
		let done = matches!(res, Ok(None));
		out.push(res);
		if done {
			break;
		}
	}
	out
}

fn avro_bytes(out: &mut Vec<u8>, bytes: &[u8]) {
	assert!(bytes.len() < 64);
	out.push((bytes.len() as u8) << 1); // zigzag varint, fits in one byte
	out.extend_from_slice(bytes);
}

#[test]
fn corrupt_deflate_block_slice_vs_chunked_reader() {
	let sync_marker = [0x42u8; 16];

	// Raw deflate stream:
	// - a non-final *stored* block holding the three longs 1, 2, 3 (zigzag: 02 04 06)
	// - then a block header with the reserved block type 0b11: invalid
	let compressed_block: &[u8] = &[
		0x00, // BFINAL=0, BTYPE=00 (stored)
		0x03, 0x00, // LEN = 3
		0xFC, 0xFF, // NLEN = !LEN
		0x02, 0x04, 0x06, // the data
		0x07, // BFINAL=1, BTYPE=11 (reserved => corrupt stream)
	];

	let mut file = Vec::new();
	file.extend_from_slice(b"Obj\x01");
	file.push(2 << 1); // metadata map: one block of 2 entries
	avro_bytes(&mut file, b"avro.schema");
	avro_bytes(&mut file, br#""long""#);
	avro_bytes(&mut file, b"avro.codec");
	avro_bytes(&mut file, b"deflate");
	file.push(0); // end of metadata map
	file.extend_from_slice(&sync_marker);
	file.push(3 << 1); // 3 objects in block
	file.push((compressed_block.len() as u8) << 1); // block size in bytes
	file.extend_from_slice(compressed_block);
	file.extend_from_slice(&sync_marker);

	println!("slice:");
	let from_slice = outcomes(Reader::from_slice(&file).unwrap());
	println!(" => {from_slice:?}");

	let mut violations = Vec::new();
	for chunk in 1..=file.len() {
		println!("reader, {chunk}-byte chunks:");
		let from_reader = outcomes(
			Reader::from_reader(Chunked {
				data: &file,
				pos: 0,
				chunk,
			})
			.unwrap(),
		);
		println!(" => {from_reader:?}");
		if from_reader != from_slice {
			violations.push((chunk, from_reader));
		}
	}
	assert!(
		violations.is_empty(),
		"slice input gave {from_slice:?} but reader input gave, for (chunk size, outcomes): {violations:?}"
	);
}
