//! C11 demo 1: an `int` whose varint uses more than 5 bytes (over-long, zero-padded
//! encoding) decodes fine from a slice, and from a reader as long as the whole varint
//! is inside one `fill_buf` chunk, but is rejected ("Unterminated varint") as soon as a
//! buffer refill boundary falls inside the varint.
//!
//! Put this file in serde_avro_fast/tests/ and run
//! `cargo test -p serde_avro_fast --test demo`.

use std::io::{BufRead, Read};

/// A `BufRead` that hands out `data` in fixed-size `fill_buf` chunks
struct Chunked<'a> {
	data: &'a [u8],
	pos: usize,
	chunk: usize,
}
impl Chunked<'_> {
	fn chunk_end(&self) -> usize {
		((self.pos / self.chunk + 1) * self.chunk).min(self.data.len())
	}
}
impl Read for Chunked<'_> {
	fn read(&mut self, buf: &mut [u8]) -> std::io::Result<usize> {
		let available = self.fill_buf()?;
		let n = available.len().min(buf.len());
		buf[..n].copy_from_slice(&available[..n]);
		self.consume(n);
		Ok(n)
	}
}
impl BufRead for Chunked<'_> {
	fn fill_buf(&mut self) -> std::io::Result<&[u8]> {
		Ok(&self.data[self.pos..self.chunk_end()])
	}
	fn consume(&mut self, amt: usize) {
		assert!(self.pos + amt <= self.chunk_end());
		self.pos += amt;
	}
}

#[test]
fn overlong_int_varint_slice_vs_chunked_reader() {
	let schema: serde_avro_fast::Schema = r#""int""#.parse().unwrap();
	// zigzag(3) = 6, encoded on 6 bytes instead of 1, followed by unrelated data (0x2A)
	let bytes: &[u8] = &[0x86, 0x80, 0x80, 0x80, 0x80, 0x00, 0x2A];

	let from_slice: Result<i32, String> =
		serde_avro_fast::from_datum_slice(bytes, &schema).map_err(|e| format!("{e:?}"));
	println!("slice: {from_slice:?}");

	let mut violations = Vec::new();
	for chunk in 1..=bytes.len() {
		let mut reader = Chunked {
			data: bytes,
			pos: 0,
			chunk,
		};
		let from_reader: Result<i32, String> =
			serde_avro_fast::from_datum_reader(&mut reader, &schema).map_err(|e| format!("{e:?}"));
		println!(
			"reader, {chunk}-byte chunks: {from_reader:?} (consumed {})",
			reader.pos
		);
		let same = match (&from_slice, &from_reader) {
			// same value, and the following byte is left untouched
			(Ok(a), Ok(b)) => a == b && reader.pos == 6,
			(Err(_), Err(_)) => true,
			_ => false,
		};
		if !same {
			violations.push(format!("{chunk}-byte chunks: {from_reader:?}"));
		}
	}
	assert!(
		violations.is_empty(),
		"slice gave {from_slice:?} but the reader gave a different outcome for: {violations:#?}"
	);
}

/// Same thing with nothing but std: a `BufReader` whose capacity is smaller than the
/// varint
#[test]
fn overlong_int_varint_slice_vs_std_bufreader() {
	let schema: serde_avro_fast::Schema = r#""int""#.parse().unwrap();
	let bytes: &[u8] = &[0x86, 0x80, 0x80, 0x80, 0x80, 0x00, 0x2A];
	let from_slice: Result<i32, String> =
		serde_avro_fast::from_datum_slice(bytes, &schema).map_err(|e| format!("{e:?}"));
	let from_reader: Result<i32, String> =
		serde_avro_fast::from_datum_reader(std::io::BufReader::with_capacity(4, bytes), &schema)
			.map_err(|e| format!("{e:?}"));
	assert_eq!(from_slice, from_reader);
}
