//! C11 demo 3: where the input is positioned after a *value* error (here: a string that
//! is not valid UTF-8) depends on the kind of input and on how the reader is chunked.
//!
//! - `SliceRead::read_slice` advances past the `n` bytes, then calls the visitor.
//! - `ReaderRead::read_slice`, when the `n` bytes are already in the `BufRead`'s buffer,
//!   calls the visitor first and only `consume(n)`s if it succeeded;
//! - ... but when they are not all in the buffer (chunk boundary inside the field), it
//!   `read_exact`s them (advancing) before calling the visitor.
//!
//! The object container file `Reader` explicitly supports carrying on after such a
//! (non IO) error, so the next `deserialize_next` calls observe the difference: after the
//! bad string the slice-backed reader (and the 1-byte-chunked one) resume on the next
//! object, the buffered reader resumes in the middle of the bad one and derails.
//!
//! Put this file in serde_avro_fast/tests/ and run
//! `cargo test -p serde_avro_fast --test demo`.

use serde_avro_fast::{
	object_container_file_encoding::{Compression, Reader, WriterBuilder},
	ser::SerializerConfig,
	Schema,
};

/// Outcome of each successive `deserialize_next` call (error text dropped: only
/// "value or error" matters), up to and including the first `Ok(None)`
fn outcomes<'de, R>(mut reader: Reader<R>) -> Vec<Result<Option<String>, ()>>
where
	R: serde_avro_fast::de::read::take::Take
		+ serde_avro_fast::de::read::Read
		+ std::io::BufRead
		+ serde_avro_fast::de::read::ReadSlice<'de>,
	<R as serde_avro_fast::de::read::take::Take>::Take:
		std::io::BufRead + serde_avro_fast::de::read::ReadSlice<'de>,
{
	let mut out = Vec::new();
	for _ in 0..10 {
		let res = reader.deserialize_next::<String>().map_err(|e| {
			println!("   error: {e:?}");
		});
		let done = matches!(res, Ok(None));
		out.push(res);
		if done {
			break;
		}
	}
	out
}

#[test]
fn position_after_invalid_utf8_slice_vs_reader() {
	let schema: Schema = r#""string""#.parse().unwrap();
	let mut config = SerializerConfig::new(&schema);
	let mut writer = WriterBuilder::new(&mut config)
		.compression(Compression::Null)
		.build(Vec::new())
		.unwrap();
	// One block of 3 strings: "a", <the two bytes 0xFF 0xFE: not UTF-8>, "b"
	writer
		.push_serialized(&[0x02, b'a', 0x04, 0xFF, 0xFE, 0x02, b'b'], 3)
		.unwrap();
	let file: Vec<u8> = writer.into_inner().unwrap();

	println!("slice:");
	let from_slice = outcomes(Reader::from_slice(&file).unwrap());
	println!(" => {from_slice:?}");

	println!("reader, 1-byte buffer:");
	let from_reader_1 = outcomes(
		Reader::from_reader(std::io::BufReader::with_capacity(1, &*file)).unwrap(),
	);
	println!(" => {from_reader_1:?}");

	println!("reader, 8k buffer:");
	let from_reader_8k = outcomes(
		Reader::from_reader(std::io::BufReader::with_capacity(8192, &*file)).unwrap(),
	);
	println!(" => {from_reader_8k:?}");

	// (this one holds: a refill boundary falls inside the bad string, so it is consumed)
	assert_eq!(
		from_slice, from_reader_1,
		"slice (left) vs reader with 1-byte buffer (right)"
	);
	// (this one does not: the bad string is entirely in the buffer, so it is not consumed)
	assert_eq!(
		from_slice, from_reader_8k,
		"slice (left) vs reader with 8k buffer (right)"
	);
}
