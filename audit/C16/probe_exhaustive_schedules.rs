use serde_avro_fast::{
	object_container_file_encoding::{Compression, WriterBuilder},
	ser::SerializerConfig,
	Schema,
};
use std::io::{self, IoSlice, Write};

const SYNC: [u8; 16] = [7; 16];

#[derive(Default)]
struct Sched {
	out: Vec<u8>,
	k: usize,
	vectored: bool,
	call: usize,
	interrupt_at: Option<usize>,
	error_at: Option<usize>,
	error_from: Option<usize>,
	zero_at: Option<usize>,
	log: Vec<String>,
}

impl Sched {
	fn gate(&mut self) -> Option<io::Result<usize>> {
		let c = self.call;
		self.call += 1;
		if self.interrupt_at == Some(c) {
			return Some(Err(io::Error::new(io::ErrorKind::Interrupted, "intr")));
		}
		if self.error_at == Some(c) || self.error_from.map_or(false, |f| c >= f) {
			return Some(Err(io::Error::new(io::ErrorKind::Other, "hard")));
		}
		if self.zero_at == Some(c) {
			return Some(Ok(0));
		}
		None
	}
}

impl Write for Sched {
	fn write(&mut self, buf: &[u8]) -> io::Result<usize> {
		if let Some(r) = self.gate() {
			return r;
		}
		let n = buf.len().min(self.k);
		self.out.extend_from_slice(&buf[..n]);
		Ok(n)
	}
	fn write_vectored(&mut self, bufs: &[IoSlice<'_>]) -> io::Result<usize> {
		if !self.vectored {
			let buf = bufs
				.iter()
				.find(|b| !b.is_empty())
				.map_or(&[][..], |b| &**b);
			return self.write(buf);
		}
		if let Some(r) = self.gate() {
			return r;
		}
		let mut left = self.k;
		let mut n = 0;
		for b in bufs {
			let t = b.len().min(left);
			self.out.extend_from_slice(&b[..t]);
			left -= t;
			n += t;
			if left == 0 {
				break;
			}
		}
		Ok(n)
	}
	fn flush(&mut self) -> io::Result<()> {
		Ok(())
	}
}

fn run(schema: &Schema, comp: Compression, bs: u32, sink: Sched, vals: &[&str]) -> (Result<(), String>, Vec<u8>) {
	let mut cfg = SerializerConfig::new(schema);
	let w = WriterBuilder::new(&mut cfg)
		.compression(comp)
		.approx_block_size(bs)
		.sync_marker(SYNC)
		.build(sink);
	let mut w = match w {
		Ok(w) => w,
		Err(e) => return (Err(e.to_string()), vec![]),
	};
	for v in vals {
		if let Err(e) = w.serialize(v) {
			let out = w.inner().out.clone();
			std::mem::forget(w);
			return (Err(e.to_string()), out);
		}
	}
	if let Err(e) = w.finish_block() {
		let out = w.inner().out.clone();
		std::mem::forget(w);
		return (Err(e.to_string()), out);
	}
	let s = w.into_inner().unwrap();
	(Ok(()), s.out)
}

#[test]
fn exhaustive_schedules() {
	let schema: Schema = r#""string""#.parse().unwrap();
	let vals = ["a", "bcd", "", "efghijkl", "m"];
	for comp in [Compression::Null, Compression::Snappy] {
		for bs in [0u32, 1, 4, 6, 1000] {
			let (r, reference) = run(
				&schema,
				comp,
				bs,
				Sched {
					k: usize::MAX,
					vectored: true,
					..Default::default()
				},
				&vals,
			);
			r.unwrap();
			for vectored in [false, true] {
				for k in [1usize, 2, 3, 5, 7, 16, 17, 19, 1000] {
					// count calls
					let mut total_calls = 0;
					{
						let mut cfg = SerializerConfig::new(&schema);
						let mut w = WriterBuilder::new(&mut cfg)
							.compression(comp)
							.approx_block_size(bs)
							.sync_marker(SYNC)
							.build(Sched {
								k,
								vectored,
								..Default::default()
							})
							.unwrap();
						w.serialize_all(vals.iter()).unwrap();
						let s = w.into_inner().unwrap();
						assert_eq!(s.out, reference);
						total_calls = total_calls.max(s.call);
					}
					for i in 0..total_calls + 1 {
						let (r, out) = run(
							&schema,
							comp,
							bs,
							Sched {
								k,
								vectored,
								interrupt_at: Some(i),
								..Default::default()
							},
							&vals,
						);
						r.unwrap();
						assert_eq!(out, reference, "interrupt at {i} k={k} vec={vectored}");
						if i < total_calls {
							let (r, out) = run(
								&schema,
								comp,
								bs,
								Sched {
									k,
									vectored,
									error_at: Some(i),
									..Default::default()
								},
								&vals,
							);
							assert!(r.is_err(), "hard error at {i} k={k} not surfaced");
							assert!(reference.starts_with(&out));
							let (r, out) = run(
								&schema,
								comp,
								bs,
								Sched {
									k,
									vectored,
									zero_at: Some(i),
									..Default::default()
								},
								&vals,
							);
							assert!(r.is_err(), "zero at {i} k={k} not surfaced");
							assert!(reference.starts_with(&out));
						}
					}
				}
			}
		}
	}
}
