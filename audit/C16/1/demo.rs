//! C16 finding 1: when the sink reports a hard error while the last block is being flushed,
//! `Writer::into_inner` (and therefore `object_container_file_encoding::write_all`, and any
//! `writer.serialize(..)?` early return) PANICS instead of returning the error.
//!
//! `into_inner(mut self)` does `self.finish_block()?`. On `Err` the `?` returns, `self` is dropped,
//! and `Drop for Writer` calls `finish_block()` a second time: it re-sends the pending block to the
//! sink that has just failed, and with `debug_assertions` on it `expect`s the result
//! ("Failed to flush Writer on Drop. Please favor flushing manually before dropping the Writer.").
//! The caller has no way to avoid this: `into_inner` consumed the writer.
//!
//! Place in serde_avro_fast/tests/ and run with `cargo test -p serde_avro_fast --test demo`.

use serde_avro_fast::{
	object_container_file_encoding::{self, Compression, WriterBuilder},
	ser::SerializerConfig,
	Schema,
};
use std::{
	io::{self, Write},
	panic::{catch_unwind, AssertUnwindSafe},
};

/// A sink that accepts everything for the first `ok_calls` write calls, then is broken for good
/// (think: disk full, peer closed the connection).
struct BreaksAfter {
	ok_calls: usize,
	calls: usize,
	out: Vec<u8>,
}

impl Write for BreaksAfter {
	fn write(&mut self, buf: &[u8]) -> io::Result<usize> {
		let c = self.calls;
		self.calls += 1;
		if c >= self.ok_calls {
			return Err(io::Error::new(io::ErrorKind::BrokenPipe, "sink is broken"));
		}
		self.out.extend_from_slice(buf);
		Ok(buf.len())
	}
	fn flush(&mut self) -> io::Result<()> {
		Ok(())
	}
}

const VALUES: [&str; 3] = ["a", "bc", "def"];

/// Sanity: a healthy sink gets call 0 = header, calls 1..=3 = the single block (block header,
/// data, sync marker; one slice per call because this sink uses std's default `write_vectored`),
/// and a sink that breaks during the header makes `build` return an error (no panic).
#[test]
fn baseline() {
	let schema: Schema = r#""string""#.parse().unwrap();
	let sink = object_container_file_encoding::write_all(
		&schema,
		Compression::Null,
		BreaksAfter {
			ok_calls: usize::MAX,
			calls: 0,
			out: Vec::new(),
		},
		VALUES.iter(),
	)
	.unwrap();
	assert_eq!(sink.calls, 4);

	let res = object_container_file_encoding::write_all(
		&schema,
		Compression::Null,
		BreaksAfter {
			ok_calls: 0,
			calls: 0,
			out: Vec::new(),
		},
		VALUES.iter(),
	);
	assert!(res.is_err());
}

/// Hard error injected at call index 1 (the flush of the only block, done by `into_inner`).
/// Property: "the failing call returns an error". Actual: it panics.
#[test]
fn into_inner_returns_error_when_sink_is_broken() {
	let schema: Schema = r#""string""#.parse().unwrap();
	let outcome = catch_unwind(AssertUnwindSafe(|| {
		let mut config = SerializerConfig::new(&schema);
		let mut writer = WriterBuilder::new(&mut config)
			.build(BreaksAfter {
				ok_calls: 1, // header goes through, then the sink is broken
				calls: 0,
				out: Vec::new(),
			})
			.expect("header is written by call 0, which succeeds");
		for v in VALUES {
			writer
				.serialize(v)
				.expect("buffered only, block is far from full");
		}
		writer.into_inner().map(|_sink| ())
	}));
	match outcome {
		Ok(res) => assert!(
			res.is_err(),
			"into_inner reported success although the sink refused the block"
		),
		Err(_) => panic!(
			"Writer::into_inner PANICKED instead of returning the sink's error \
			 (Drop re-ran the failed flush and unwrapped its result)"
		),
	}
}

/// Same through the one-shot convenience function.
#[test]
fn write_all_returns_error_when_sink_is_broken() {
	let schema: Schema = r#""string""#.parse().unwrap();
	let outcome = catch_unwind(AssertUnwindSafe(|| {
		object_container_file_encoding::write_all(
			&schema,
			Compression::Null,
			BreaksAfter {
				ok_calls: 1,
				calls: 0,
				out: Vec::new(),
			},
			VALUES.iter(),
		)
		.map(|_sink| ())
	}));
	match outcome {
		Ok(res) => assert!(res.is_err()),
		Err(_) => panic!(
			"object_container_file_encoding::write_all PANICKED instead of returning the sink's error"
		),
	}
}

/// Same when the error surfaces from `serialize` (block full) and the caller propagates it with `?`,
/// which is the documented usage pattern (`writer.serialize(..)?`).
#[test]
fn propagating_a_serialize_error_does_not_panic() {
	let schema: Schema = r#""string""#.parse().unwrap();
	fn user_code(schema: &Schema) -> Result<(), serde_avro_fast::ser::SerError> {
		let mut config = SerializerConfig::new(schema);
		let mut writer = WriterBuilder::new(&mut config)
			.approx_block_size(1) // every value completes a block
			.build(BreaksAfter {
				ok_calls: 1,
				calls: 0,
				out: Vec::new(),
			})?;
		for v in VALUES {
			writer.serialize(v)?; // <- returns Err on the first value; `writer` is dropped
		}
		writer.into_inner()?;
		Ok(())
	}
	let outcome = catch_unwind(AssertUnwindSafe(|| user_code(&schema)));
	match outcome {
		Ok(res) => assert!(res.is_err()),
		Err(_) => panic!(
			"propagating the error returned by Writer::serialize with `?` PANICKED \
			 (Drop re-ran the failed flush and unwrapped its result)"
		),
	}
}
