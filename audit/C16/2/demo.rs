//! C16 finding 2: a block flush that made partial progress before the sink reported an error is
//! restarted FROM THE BEGINNING on the next call, so the bytes the sink had already accepted are
//! written a second time. The retry then returns `Ok(())`, `into_inner()` returns `Ok(sink)`, and
//! the sink holds a corrupt container file (duplicated bytes in the middle of the stream).
//!
//! The writer deliberately keeps a finished-but-unflushed block around (`block_header_size` stays
//! `Some`) and every public entry point starts with `flush_finished_block()` so that a failed flush
//! is retried. But `write_all_vectored` tracks its progress only in a local `bufs` array, so the
//! number of bytes already accepted by the sink is forgotten when it returns `Err`.
//!
//! `Writer::finish_block` documents: "After this function is called, if it returned no error, it is
//! guaranteed that the full block is written to the writer. This implies that all bytes written so
//! far amount to a valid object container file." -- violated below.
//!
//! Place in serde_avro_fast/tests/ and run with `cargo test -p serde_avro_fast --test demo`.

use serde_avro_fast::{
	object_container_file_encoding::{Reader, WriterBuilder},
	ser::SerializerConfig,
	Schema,
};
use std::io::{self, IoSlice, Write};

const SYNC: [u8; 16] = [0xAB; 16];
const VALUES: [&str; 3] = ["a", "bc", "def"];

/// Accepts at most `k` bytes per write call (plain or vectored); reports one hard error at call
/// index `error_at`.
struct Sink {
	k: usize,
	error_at: Option<usize>,
	calls: usize,
	out: Vec<u8>,
}

impl Write for Sink {
	fn write(&mut self, buf: &[u8]) -> io::Result<usize> {
		self.write_vectored(&[IoSlice::new(buf)])
	}
	fn write_vectored(&mut self, bufs: &[IoSlice<'_>]) -> io::Result<usize> {
		let c = self.calls;
		self.calls += 1;
		if self.error_at == Some(c) {
			// Any non-`Interrupted` kind behaves the same. `WouldBlock`/`TimedOut`/`StorageFull`
			// are the typical ones after which an application tries again.
			return Err(io::Error::new(io::ErrorKind::TimedOut, "injected hard error"));
		}
		let mut left = self.k;
		for b in bufs {
			let n = b.len().min(left);
			self.out.extend_from_slice(&b[..n]);
			left -= n;
		}
		Ok(self.k - left)
	}
	fn flush(&mut self) -> io::Result<()> {
		Ok(())
	}
}

fn reference(schema: &Schema) -> Vec<u8> {
	let mut config = SerializerConfig::new(schema);
	let mut writer = WriterBuilder::new(&mut config)
		.sync_marker(SYNC)
		.build(Vec::new())
		.unwrap();
	writer.serialize_all(VALUES.iter()).unwrap();
	writer.into_inner().unwrap()
}

#[test]
fn retried_flush_does_not_duplicate_bytes() {
	let schema: Schema = r#""string""#.parse().unwrap();
	let reference = reference(&schema);

	// Number of write calls the header takes with k = 8
	let k = 8;
	let header_len = reference.len() - (2 + 9 + 16); // block = [count=3, size=9][9 bytes][sync]
	let header_calls = (header_len + k - 1) / k;

	let mut config = SerializerConfig::new(&schema);
	let mut writer = WriterBuilder::new(&mut config)
		.sync_marker(SYNC)
		.build(Sink {
			k,
			// 2nd write call of the block flush: 8 bytes of the block are already in the sink
			error_at: Some(header_calls + 1),
			calls: 0,
			out: Vec::new(),
		})
		.unwrap();
	writer.serialize_all(VALUES.iter()).unwrap(); // buffered only

	// The sink's hard error surfaces, as the property demands.
	let first = writer.finish_block();
	assert!(first.is_err(), "hard error must surface");
	assert_eq!(writer.inner().out, reference[..header_len + k]);

	// The application tries again; the sink is healthy again; the writer says all is well.
	writer
		.finish_block()
		.expect("sink accepts everything from now on");
	let sink = writer.into_inner().expect("nothing left to write");

	// "if it returned no error, it is guaranteed that the full block is written to the writer.
	//  This implies that all bytes written so far amount to a valid object container file."
	let decoded: Result<Vec<String>, _> = Reader::from_slice(&sink.out)
		.expect("header is intact")
		.deserialize::<String>()
		.collect();
	assert_eq!(
		sink.out.len(),
		reference.len(),
		"sink received {} extra bytes: the first {k} bytes of the block were written twice \
		 (decoding what the sink holds gives {decoded:?})",
		sink.out.len() as isize - reference.len() as isize,
	);
	assert_eq!(sink.out, reference);
}
