//! C14 (panic clause, sink I/O error): `Writer::into_inner` on a sink that returns an I/O error
//! must hand the error back to the caller (and leave the borrowed `SerializerConfig` usable),
//! not panic.
//!
//! Goes in serde_avro_fast/tests/. Fails on the unmodified code under `cargo test` (debug
//! assertions on): `into_inner` gets the `Err` from `finish_block`, returns it with `?`, which
//! drops `self`, and `impl Drop for Writer` retries the flush, gets the same I/O error and
//! `expect`s it ("Failed to flush Writer on Drop").
#![allow(missing_docs)]

use {
	serde_avro_fast::{object_container_file_encoding::WriterBuilder, ser::SerializerConfig, Schema},
	std::{cell::Cell, rc::Rc},
};

/// Accepts everything until `fail` is set, then refuses every write without consuming anything
struct Sink {
	fail: Rc<Cell<bool>>,
	out: Vec<u8>,
}
impl std::io::Write for Sink {
	fn write(&mut self, b: &[u8]) -> std::io::Result<usize> {
		if self.fail.get() {
			return Err(std::io::Error::new(std::io::ErrorKind::Other, "disk full"));
		}
		self.out.extend_from_slice(b);
		Ok(b.len())
	}
	fn flush(&mut self) -> std::io::Result<()> {
		Ok(())
	}
}

#[test]
fn into_inner_reports_sink_error_instead_of_panicking() {
	let schema: Schema = r#""int""#.parse().unwrap();
	let mut config = SerializerConfig::new(&schema);

	let fail = Rc::new(Cell::new(false));
	let mut writer = WriterBuilder::new(&mut config)
		.sync_marker([1; 16])
		.build(Sink {
			fail: fail.clone(),
			out: Vec::new(),
		})
		.expect("header is written while the sink still works");
	writer.serialize(1i32).expect("buffered, nothing flushed yet");

	// From now on the sink returns an I/O error
	fail.set(true);

	let outcome = std::panic::catch_unwind(std::panic::AssertUnwindSafe(move || {
		writer.into_inner().map(|_sink| ())
	}));
	match outcome {
		Ok(Err(_io_error)) => {} // what the signature of `into_inner` promises
		Ok(Ok(())) => panic!("into_inner reported success although the sink refused the block"),
		Err(_) => panic!(
			"Writer::into_inner panicked on a sink I/O error instead of returning the SerError"
		),
	}

	// The configuration that was lent to the failed writer is as good as a fresh one
	assert_eq!(
		serde_avro_fast::to_datum_vec(&3i32, &mut config).unwrap(),
		serde_avro_fast::to_datum_vec(&3i32, &mut SerializerConfig::new(&schema)).unwrap(),
	);
}
