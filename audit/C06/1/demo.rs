//! C06 finding 1: the container reader rejects files whose header has no `avro.codec` entry.
//!
//! The Avro specification (Object Container Files, "avro.codec") says: "If codec is absent, it is
//! assumed to be "null"". Independent writers rely on that: the Java `DataFileWriter` only writes
//! `avro.codec` when `setCodec` has been called.
//!
//! Put this file in serde_avro_fast/tests/.

use serde_avro_fast::object_container_file_encoding::Reader;

fn zigzag_varint(n: i64, out: &mut Vec<u8>) {
	let mut v = ((n << 1) ^ (n >> 63)) as u64;
	loop {
		let b = (v & 0x7f) as u8;
		v >>= 7;
		if v == 0 {
			out.push(b);
			break;
		}
		out.push(b | 0x80);
	}
}
fn avro_bytes(b: &[u8], out: &mut Vec<u8>) {
	zigzag_varint(b.len() as i64, out);
	out.extend_from_slice(b);
}

/// Independent (reference) container writer, null codec, one metadata map block
fn reference_file(meta: &[(&str, &[u8])], blocks: &[&[i64]]) -> Vec<u8> {
	const SYNC: [u8; 16] = *b"0123456789abcdef";
	let mut out = b"Obj\x01".to_vec();
	zigzag_varint(meta.len() as i64, &mut out);
	for (k, v) in meta {
		avro_bytes(k.as_bytes(), &mut out);
		avro_bytes(v, &mut out);
	}
	zigzag_varint(0, &mut out);
	out.extend_from_slice(&SYNC);
	for block in blocks {
		let mut data = Vec::new();
		for &v in *block {
			zigzag_varint(v, &mut data);
		}
		zigzag_varint(block.len() as i64, &mut out);
		zigzag_varint(data.len() as i64, &mut out);
		out.extend_from_slice(&data);
		out.extend_from_slice(&SYNC);
	}
	out
}

#[test]
fn file_without_avro_codec_is_read_as_null_codec() {
	// Header only carries avro.schema (+ one user key): avro.codec is absent => "null" codec
	let file = reference_file(
		&[("avro.schema", br#""long""#), ("user.key", b"v")],
		&[&[1, 2, 3], &[-5]],
	);

	// Second implementation agrees that this is a valid file holding 4 longs
	let apache: Vec<apache_avro::types::Value> = apache_avro::Reader::new(&file[..])
		.expect("apache-avro reads the header")
		.collect::<Result<_, _>>()
		.expect("apache-avro reads the values");
	assert_eq!(
		apache,
		[1i64, 2, 3, -5].map(apache_avro::types::Value::Long).to_vec()
	);

	// Sanity check: the very same file with an explicit "null" codec is read fine
	let with_codec = reference_file(
		&[("avro.schema", br#""long""#), ("avro.codec", b"null"), ("user.key", b"v")],
		&[&[1, 2, 3], &[-5]],
	);
	let got: Vec<i64> = Reader::from_slice(&with_codec)
		.unwrap()
		.deserialize()
		.collect::<Result<_, _>>()
		.unwrap();
	assert_eq!(got, [1, 2, 3, -5]);

	// The property: files from conforming writers are read correctly
	let mut reader = Reader::from_slice(&file)
		.expect("a container file without avro.codec must be readable (codec defaults to null)");
	let got: Vec<i64> = reader.deserialize().collect::<Result<_, _>>().unwrap();
	assert_eq!(got, [1, 2, 3, -5]);
}
