//! C06 finding 2: the container reader refuses any file whose header metadata map has more than
//! 1000 entries (avro.schema + avro.codec + user keys), including files written by this very
//! library's `WriterBuilder::build_with_user_metadata`.
//!
//! The specification puts no bound on the number of metadata entries ("extra metadata keys" are
//! allowed), and apache-avro reads such files fine.
//!
//! Put this file in serde_avro_fast/tests/.

use {
	serde_avro_fast::{
		object_container_file_encoding::{Compression, Reader, WriterBuilder},
		ser::SerializerConfig,
		Schema,
	},
	std::collections::BTreeMap,
};

#[test]
fn file_with_many_user_metadata_entries_is_readable() {
	let schema: Schema = r#""long""#.parse().unwrap();
	// 999 user keys + the 2 reserved keys = 1001 metadata entries
	let user_metadata: BTreeMap<String, String> =
		(0..999).map(|i| (format!("user.key{i:04}"), format!("value{i}"))).collect();

	// Written by this library's own writer
	let mut config = SerializerConfig::new(&schema);
	let mut writer = WriterBuilder::new(&mut config)
		.compression(Compression::Null)
		.build_with_user_metadata(Vec::new(), &user_metadata)
		.expect("writer accepts the metadata");
	writer.serialize_all([1i64, 2, 3]).unwrap();
	let file: Vec<u8> = writer.into_inner().unwrap();

	// Independent implementation reads back the same values and metadata
	let apache = apache_avro::Reader::new(&file[..]).expect("apache-avro reads the header");
	let apache_meta: BTreeMap<String, String> = apache
		.user_metadata()
		.iter()
		.map(|(k, v)| (k.clone(), String::from_utf8(v.clone()).unwrap()))
		.collect();
	assert_eq!(apache_meta, user_metadata);
	let apache_values: Vec<_> = apache.collect::<Result<Vec<_>, _>>().unwrap();
	assert_eq!(apache_values, [1i64, 2, 3].map(apache_avro::types::Value::Long).to_vec());

	// The container reader must read it too (with and without extracting the user metadata)
	let mut reader = Reader::from_slice(&file)
		.expect("file with 1001 metadata entries must be readable");
	let got: Vec<i64> = reader.deserialize().collect::<Result<_, _>>().unwrap();
	assert_eq!(got, [1, 2, 3]);

	let (mut reader, got_meta): (_, BTreeMap<String, String>) =
		Reader::new_and_metadata(serde_avro_fast::de::read::SliceRead::new(&file))
			.expect("file with 1001 metadata entries must be readable");
	assert_eq!(got_meta, user_metadata);
	let got: Vec<i64> = reader.deserialize().collect::<Result<_, _>>().unwrap();
	assert_eq!(got, [1, 2, 3]);
}

/// Control: one entry less (1000 in total) works, showing that the entry count is the only cause
#[test]
fn control_one_entry_less_is_fine() {
	let schema: Schema = r#""long""#.parse().unwrap();
	let user_metadata: BTreeMap<String, String> =
		(0..998).map(|i| (format!("user.key{i:04}"), format!("value{i}"))).collect();
	let mut config = SerializerConfig::new(&schema);
	let mut writer = WriterBuilder::new(&mut config)
		.build_with_user_metadata(Vec::new(), &user_metadata)
		.unwrap();
	writer.serialize_all([1i64, 2, 3]).unwrap();
	let file: Vec<u8> = writer.into_inner().unwrap();
	let (mut reader, got_meta): (_, BTreeMap<String, String>) =
		Reader::new_and_metadata(serde_avro_fast::de::read::SliceRead::new(&file)).unwrap();
	assert_eq!(got_meta, user_metadata);
	let got: Vec<i64> = reader.deserialize().collect::<Result<_, _>>().unwrap();
	assert_eq!(got, [1, 2, 3]);
}
