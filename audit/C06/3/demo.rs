//! C06 finding 3: if a value's `Serialize` impl panics part-way through `Writer::serialize`, the
//! `Writer`'s `Drop` impl (run during unwinding) flushes the current block *including the bytes of
//! the half-serialized value*: the block announces N objects but its data holds N objects followed
//! by garbage. The bytes that reach the underlying `W` (e.g. a `File`) are therefore not a valid
//! object container file any more, whereas everything written before was a valid file.
//! (The same stale bytes are kept if the caller catches the panic and keeps using the writer.)
//!
//! When `Serialize` returns an `Err`, `WriterInner::serialize` correctly truncates the block buffer
//! back to where the value started; the unwind path misses that.
//!
//! Put this file in serde_avro_fast/tests/.

use serde_avro_fast::{
	object_container_file_encoding::{Compression, Reader, WriterBuilder},
	ser::SerializerConfig,
	Schema,
};

#[derive(serde_derive::Serialize, serde_derive::Deserialize, Debug, PartialEq)]
struct Rec {
	a: i64,
	b: String,
}

/// Serializes field `a` fine, then panics when asked for `b`
struct PanicsOnSecondField;
impl serde::Serialize for PanicsOnSecondField {
	fn serialize<S: serde::Serializer>(&self, serializer: S) -> Result<S::Ok, S::Error> {
		use serde::ser::SerializeStruct;
		let mut s = serializer.serialize_struct("Rec", 2)?;
		s.serialize_field("a", &123456789i64)?;
		s.serialize_field("b", &Panics)?;
		s.end()
	}
}
struct Panics;
impl serde::Serialize for Panics {
	fn serialize<S: serde::Serializer>(&self, _: S) -> Result<S::Ok, S::Error> {
		panic!("bug in user Serialize impl");
	}
}

// ---- independent reference parser for {a: long, b: string} container files (null codec) ----
fn varint(data: &mut &[u8]) -> i64 {
	let (mut v, mut shift) = (0u64, 0);
	loop {
		let b = data[0];
		*data = &data[1..];
		v |= ((b & 0x7f) as u64) << shift;
		shift += 7;
		if b & 0x80 == 0 {
			break;
		}
	}
	((v >> 1) as i64) ^ -((v & 1) as i64)
}
fn avro_bytes<'a>(data: &mut &'a [u8]) -> &'a [u8] {
	let len = varint(data) as usize;
	let (b, rest) = data.split_at(len);
	*data = rest;
	b
}
/// Returns Err(description) if the bytes are not a well-formed container file
fn reference_parse(mut data: &[u8]) -> Result<Vec<Rec>, String> {
	let data = &mut data;
	assert_eq!(&data[..4], b"Obj\x01");
	*data = &data[4..];
	loop {
		let mut n = varint(data);
		if n == 0 {
			break;
		}
		if n < 0 {
			n = -n;
			varint(data);
		}
		for _ in 0..n {
			avro_bytes(data);
			avro_bytes(data);
		}
	}
	let sync: [u8; 16] = data[..16].try_into().unwrap();
	*data = &data[16..];
	let mut values = Vec::new();
	while !data.is_empty() {
		let count = varint(data);
		let size = varint(data) as usize;
		let (mut block, rest) = data.split_at(size);
		*data = rest;
		for _ in 0..count {
			let a = varint(&mut block);
			let b = String::from_utf8(avro_bytes(&mut block).to_vec()).unwrap();
			values.push(Rec { a, b });
		}
		if !block.is_empty() {
			return Err(format!(
				"block announces {count} objects in {size} bytes, but {} bytes are left after \
					decoding {count} objects",
				block.len()
			));
		}
		if data[..16] != sync {
			return Err("bad sync marker".to_owned());
		}
		*data = &data[16..];
	}
	Ok(values)
}

#[test]
fn panic_in_serialize_must_not_corrupt_the_file() {
	let schema: Schema = r#"{"type":"record","name":"Rec","fields":[
		{"name":"a","type":"long"},{"name":"b","type":"string"}]}"#
		.parse()
		.unwrap();

	// Stands for a `File`: what has reached it is what is on disk after the panic
	let mut file: Vec<u8> = Vec::new();

	let res = std::panic::catch_unwind(std::panic::AssertUnwindSafe(|| {
		let mut config = SerializerConfig::new(&schema);
		let mut writer = WriterBuilder::new(&mut config)
			.compression(Compression::Null)
			.build(&mut file)
			.unwrap();
		writer.serialize(Rec { a: 1, b: "first".to_owned() }).unwrap();
		writer.serialize(Rec { a: 2, b: "second".to_owned() }).unwrap();
		// panics half-way: `writer` is dropped while unwinding
		writer.serialize(PanicsOnSecondField).unwrap();
	}));
	assert!(res.is_err(), "the closure should have panicked");

	let expected = [Rec { a: 1, b: "first".to_owned() }, Rec { a: 2, b: "second".to_owned() }];

	// Every file produced by the container writer has the specified layout:
	// (the header alone, or header + a block holding exactly the two complete records, are both
	// fine)
	let parsed = reference_parse(&file).expect("writer output must be a well-formed container file");
	assert!(parsed.is_empty() || parsed == expected, "{parsed:?}");

	// and this library's own reader agrees
	let got: Vec<Rec> = Reader::from_slice(&file)
		.unwrap()
		.deserialize()
		.collect::<Result<_, _>>()
		.expect("writer output must be readable");
	assert!(got.is_empty() || got == expected, "{got:?}");
}
