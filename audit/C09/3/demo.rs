//! C09 demo 3: `SchemaMut::freeze` accepts a programmatically built graph in
//! which a record unconditionally contains itself (A { b: B }, B { a: A }),
//! generates JSON for it (this JSON is what ends up in object container file
//! headers), but that JSON is rejected by the library's own parser ("The
//! schema contains a record that ends up always containing itself"): the
//! zero-sized-cycle check only runs when parsing, not when freezing, and
//! `SchemaMut::check_for_cycles` is not public so the user cannot run it
//! either. Either freezing must fail, or the JSON it reports must parse back.
//!
//! Put this file in `serde_avro_fast/tests/`.

use serde_avro_fast::{schema::*, Schema};

#[test]
fn frozen_schema_json_must_parse_back() {
	let schema_mut = SchemaMut::from_nodes(vec![
		Record::new(
			Name::from_fully_qualified_name("ns.A"),
			vec![
				RecordField::new("id", SchemaKey::from_idx(2)),
				RecordField::new("b", SchemaKey::from_idx(1)),
			],
		)
		.into(),
		Record::new(
			Name::from_fully_qualified_name("ns.B"),
			vec![RecordField::new("a", SchemaKey::from_idx(0))],
		)
		.into(),
		RegularType::Long.into(),
	]);
	match schema_mut.freeze() {
		Err(_) => {
			// Fine: the graph is refused consistently with parsing
		}
		Ok(schema) => {
			println!("{}", schema.json());
			let reparsed: Schema = schema
				.json()
				.parse()
				.expect("the JSON a schema reports for itself should parse back");
			assert_eq!(reparsed.rabin_fingerprint(), schema.rabin_fingerprint());
		}
	}
}

/// The header of a container file written with such a schema cannot be read
/// back by the library.
#[test]
fn container_file_written_with_frozen_schema_must_be_readable() {
	let schema_mut = SchemaMut::from_nodes(vec![
		Array::new(SchemaKey::from_idx(1)).into(),
		Record::new(
			Name::from_fully_qualified_name("ns.A"),
			vec![RecordField::new("a", SchemaKey::from_idx(1))],
		)
		.into(),
	]);
	let Ok(schema) = schema_mut.freeze() else {
		return; // refusing the graph is fine
	};
	// array<A>: the empty array is a valid value
	let file = serde_avro_fast::object_container_file_encoding::write_all(
		&schema,
		serde_avro_fast::object_container_file_encoding::Compression::Null,
		Vec::new(),
		[Vec::<()>::new()].iter(),
	)
	.unwrap();
	let mut reader =
		serde_avro_fast::object_container_file_encoding::Reader::from_slice(&file)
			.expect("header written by the library should be readable by the library");
	let values: Vec<Vec<()>> = reader
		.deserialize_borrowed::<Vec<()>>()
		.collect::<Result<_, _>>()
		.unwrap();
	assert_eq!(values, vec![Vec::<()>::new()]);
}
