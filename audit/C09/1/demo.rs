//! C09 demo 1: a schema graph whose root (or any ancestor) is an unnamed node
//! (array / union / map) that is reached again *through a named record* is
//! perfectly expressible as Avro JSON (the record is referenced by name the
//! second time), but `SchemaMut::freeze` / `BuildSchema::schema` refuse it with
//! "Schema contains a cycle that can't be avoided using named references".
//!
//! Put this file in `serde_avro_fast/tests/`.

use {
	serde_avro_derive::BuildSchema,
	serde_avro_fast::{schema::*, Schema},
};

/// `[ "null", {record a.b { c: <the same union node> }} ]`: this is exactly the
/// graph of the existing `schema_construction` test, which already checks that
/// its JSON can be generated. It must also be possible to freeze it, and the
/// JSON it then reports must parse back to a schema with the same fingerprint.
#[test]
fn union_root_cycling_through_named_record() {
	let build = || {
		SchemaMut::from_nodes(vec![
			Union::new(vec![SchemaKey::from_idx(1), SchemaKey::from_idx(2)]).into(),
			RegularType::Null.into(),
			Record::new(
				Name::from_fully_qualified_name("a.b"),
				vec![RecordField::new("c", SchemaKey::from_idx(0))],
			)
			.into(),
		])
	};
	// The JSON generator knows this graph is expressible
	let expected_json =
		r#"["null",{"type":"record","name":"a.b","fields":[{"name":"c","type":["null","b"]}]}]"#;
	assert_eq!(serde_json::to_string(&build()).unwrap(), expected_json);

	let schema: Schema = build()
		.freeze()
		.expect("graph only cycles through the named record a.b, so it is expressible");
	assert_eq!(schema.json(), expected_json);
	let reparsed: Schema = schema.json().parse().unwrap();
	assert_eq!(reparsed.rabin_fingerprint(), schema.rabin_fingerprint());
}

#[derive(BuildSchema, serde_derive::Serialize)]
struct Tree {
	value: i32,
	children: Vec<Tree>,
}

/// Same thing through the derive macro: `Vec<Tree>` and `Tree::children` share
/// the same array node (de-duplicated by `TypeLookup`).
#[test]
fn derived_vec_of_recursive_struct() {
	let expected_json = r#"{"type":"array","items":{"type":"record","name":"demo.Tree","fields":[{"name":"value","type":"int"},{"name":"children","type":{"type":"array","items":"Tree"}}]}}"#
		.replace("demo.Tree", &format!("{}.Tree", module_path!().replace("::", ".")));
	assert_eq!(
		serde_json::to_string(&<Vec<Tree>>::schema_mut()).unwrap(),
		expected_json
	);

	let schema: Schema = <Vec<Tree>>::schema()
		.expect("Vec<Tree> only cycles through the named record Tree, so it is expressible");
	assert_eq!(schema.json(), expected_json);
	let reparsed: Schema = schema.json().parse().unwrap();
	assert_eq!(reparsed.rabin_fingerprint(), schema.rabin_fingerprint());

	// And it is usable
	let v = vec![Tree {
		value: 1,
		children: vec![Tree {
			value: 2,
			children: vec![],
		}],
	}];
	let bytes = serde_avro_fast::to_datum_vec(
		&v,
		&mut serde_avro_fast::ser::SerializerConfig::new(&schema),
	)
	.unwrap();
	assert_eq!(bytes, [2, 2, 2, 4, 0, 0, 0]);
}
