//! C09 demo 2: when a named type's *short* name is one of the Avro type
//! keywords (`null boolean int long float double bytes string array map record
//! enum fixed`), the regenerated JSON refers to it by that bare short name
//! whenever the reference sits in the type's own namespace. The parser (this
//! library's, and every other one for the primitive names) reads a bare keyword
//! as the built-in type, so the regenerated document either does not parse or
//! silently denotes a different schema (different graph, different
//! fingerprint) than the one in use.
//!
//! Put this file in `serde_avro_fast/tests/`.

use serde_avro_fast::{schema::*, Schema};

/// record geo.atlas { main: geo.map, fallback: geo.map }
/// record geo.map { zoom: int }
fn atlas() -> SchemaMut {
	SchemaMut::from_nodes(vec![
		Record::new(
			Name::from_fully_qualified_name("geo.atlas"),
			vec![
				RecordField::new("main", SchemaKey::from_idx(1)),
				RecordField::new("fallback", SchemaKey::from_idx(1)),
			],
		)
		.into(),
		Record::new(
			Name::from_fully_qualified_name("geo.map"),
			vec![RecordField::new("zoom", SchemaKey::from_idx(2))],
		)
		.into(),
		RegularType::Int.into(),
	])
}

#[test]
fn built_schema_with_record_named_map() {
	let schema: Schema = atlas().freeze().unwrap();
	println!("{}", schema.json());
	// The regenerated JSON must parse back...
	let reparsed: SchemaMut = schema
		.json()
		.parse()
		.expect("JSON reported by a built schema should parse back");
	// ... to the same graph
	match &reparsed.root().type_ {
		RegularType::Record(atlas) => {
			assert_eq!(atlas.fields[0].type_, atlas.fields[1].type_);
			match &reparsed[atlas.fields[1].type_].type_ {
				RegularType::Record(map) => {
					assert_eq!(map.name.fully_qualified_name(), "geo.map")
				}
				other => panic!("expected record geo.map, got {other:?}"),
			}
		}
		other => panic!("expected record, got {other:?}"),
	}
	assert_eq!(
		reparsed.canonical_form_rabin_fingerprint().unwrap(),
		*schema.rabin_fingerprint()
	);
}

/// Same with a primitive type's name: here the regenerated JSON parses, but to
/// a different schema.
/// record ids.pair { a: ids.long, b: ids.long }, fixed ids.long (16 bytes)
#[test]
fn built_schema_with_fixed_named_long() {
	let schema: Schema = SchemaMut::from_nodes(vec![
		Record::new(
			Name::from_fully_qualified_name("ids.pair"),
			vec![
				RecordField::new("a", SchemaKey::from_idx(1)),
				RecordField::new("b", SchemaKey::from_idx(1)),
			],
		)
		.into(),
		Fixed::new(Name::from_fully_qualified_name("ids.long"), 16).into(),
	])
	.freeze()
	.unwrap();
	println!("{}", schema.json());
	let reparsed: SchemaMut = schema.json().parse().unwrap();
	match &reparsed.root().type_ {
		RegularType::Record(pair) => {
			for field in &pair.fields {
				match &reparsed[field.type_].type_ {
					RegularType::Fixed(fixed) => {
						assert_eq!(fixed.name.fully_qualified_name(), "ids.long");
						assert_eq!(fixed.size, 16);
					}
					other => panic!(
						"field {} should be the 16-byte fixed ids.long, got {other:?}",
						field.name
					),
				}
			}
		}
		other => panic!("expected record, got {other:?}"),
	}
	assert_eq!(
		reparsed.canonical_form_rabin_fingerprint().unwrap(),
		*schema.rabin_fingerprint()
	);
}

/// A parsed document is fine as long as it is not edited (the original text,
/// which uses full names, is kept), but any edit regenerates the text.
#[test]
fn parsed_then_edited_schema_with_record_named_map() {
	let original = r#"{"type":"record","name":"geo.atlas","fields":[
		{"name":"main","type":{"type":"record","name":"geo.map","fields":[{"name":"zoom","type":"int"}]}},
		{"name":"fallback","type":"geo.map"}
	]}"#;
	let mut schema_mut: SchemaMut = original.parse().unwrap();
	let fingerprint_before = schema_mut.canonical_form_rabin_fingerprint().unwrap();
	// "edit" that changes nothing but drops the original JSON
	let _ = schema_mut.nodes_mut();
	let schema = schema_mut.freeze().unwrap();
	println!("{}", schema.json());
	let reparsed: Schema = schema
		.json()
		.parse()
		.expect("JSON reported by an edited schema should parse back");
	assert_eq!(*reparsed.rabin_fingerprint(), fingerprint_before);
}
