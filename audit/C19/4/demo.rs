//! C19: whenever freezing succeeds (arbitrary logical-type annotations), the resulting schema
//! can be used to serialize safely.
//!
//! A `decimal` logical type over a `fixed` whose `size` is huge parses and freezes fine (from
//! text as well as from nodes), but serializing ANY number with it makes the serializer emit
//! `size - 16` sign-extension bytes, one `write_all` call of a single byte at a time:
//! with `size = usize::MAX` that is 2^64 iterations (never returns with a sink writer, and
//! aborts the process on memory exhaustion with `to_datum_vec`).
//! (The deserializer on the other hand refuses fixed decimals larger than 16 bytes with an Err.)

use std::{sync::mpsc, time::Duration};

const SCHEMA: &str = r#"{"type":"fixed","name":"f","size":18446744073709551615,"logicalType":"decimal","precision":3,"scale":0}"#;

#[test]
fn deserializer_returns_err() {
	let schema: serde_avro_fast::Schema = SCHEMA.parse().expect("parsing and freezing succeeds");
	let res: Result<f64, _> = serde_avro_fast::from_datum_slice(&[0; 32], &schema);
	assert!(res.is_err());
}

#[test]
fn serializing_with_a_successfully_frozen_schema_terminates() {
	let (tx, rx) = mpsc::channel();
	std::thread::spawn(move || {
		let schema: serde_avro_fast::Schema =
			SCHEMA.parse().expect("parsing and freezing succeeds");
		let res = serde_avro_fast::to_datum(
			&1i32,
			std::io::sink(),
			&mut serde_avro_fast::ser::SerializerConfig::new(&schema),
		);
		let _ = tx.send(res.is_ok());
	});
	let res = rx.recv_timeout(Duration::from_secs(20));
	assert!(
		res.is_ok(),
		"to_datum(&1, sink, ..) did not return Ok or Err within 20 seconds \
			with a successfully parsed & frozen schema"
	);
}
