//! C19: parsing any text as a schema returns Ok or Err without looping forever.
//!
//! A ~6 KB flat (JSON depth 5) schema text makes `str::parse::<Schema>` /
//! `str::parse::<SchemaMut>` run for ~2^N steps, because the zero-size-cycle check
//! re-explores record sub-graphs that it has already fully checked.

use std::{sync::mpsc, time::Duration};

/// `[R0, R1, ..., R{n}]` where `R{i} = record { a: R{i+1}, b: R{i+1} }` and `R{n}` is
/// an empty record. No cycle at all: it is a plain DAG of records, every record being
/// referenced twice by the previous one (by name - forward references are supported by
/// the parser).
fn schema_text(n: usize) -> String {
	let mut s = String::from("[");
	for i in 0..n {
		s.push_str(&format!(
			r#"{{"type":"record","name":"R{i}","fields":[{{"name":"a","type":"R{next}"}},{{"name":"b","type":"R{next}"}}]}},"#,
			next = i + 1
		));
	}
	s.push_str(&format!(r#"{{"type":"record","name":"R{n}","fields":[]}}]"#));
	s
}

fn parse_with_timeout(text: String, timeout: Duration) -> Option<Result<(), String>> {
	let (tx, rx) = mpsc::channel();
	std::thread::spawn(move || {
		let res = text
			.parse::<serde_avro_fast::schema::SchemaMut>()
			.map(|_| ())
			.map_err(|e| e.to_string());
		let _ = tx.send(res);
	});
	rx.recv_timeout(timeout).ok()
}

#[test]
fn small_instance_is_accepted_quickly() {
	// Sanity check: the shape itself is a valid schema, accepted by the parser
	let res = parse_with_timeout(schema_text(10), Duration::from_secs(20));
	assert_eq!(res, Some(Ok(())));
}

#[test]
fn parsing_a_small_schema_text_terminates() {
	let text = schema_text(60);
	assert!(text.len() < 8000);
	let res = parse_with_timeout(text, Duration::from_secs(20));
	assert!(
		res.is_some(),
		"parsing a {} bytes schema text did not return Ok or Err within 20 seconds",
		schema_text(60).len()
	);
}
