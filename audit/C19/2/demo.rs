//! C19: freezing / fingerprinting any node graph assembled through the public builder API
//! (here: *shared* unnamed nodes, no cycle, no dangling key) returns Ok or Err without
//! looping forever.
//!
//! 181 nodes forming a DAG where every `union` is `[array<next>, map<next>]` and both the
//! array and the map point to the same `next` union make
//! `SchemaMut::canonical_form_rabin_fingerprint` (hence `SchemaMut::freeze`, which calls it
//! first) expand the shared node twice at every level: ~2^60 steps.
//!
//! (This is the node graph that `#[derive(BuildSchema)]` produces for
//! `enum E<T> { A(Vec<T>), M(HashMap<String, T>) }` instantiated as `E<E<E<...<i32>...>>>`,
//! because `SchemaBuilder::find_or_build` shares the node of `T` between both variants.)

use {
	serde_avro_fast::schema::*,
	std::{sync::mpsc, time::Duration},
};

/// node 3i = union [3i+1, 3i+2], node 3i+1 = array<3(i+1)>, node 3i+2 = map<3(i+1)>,
/// node 3*levels = int
fn shared_unnamed_dag(levels: usize) -> SchemaMut {
	let mut nodes: Vec<SchemaNode> = Vec::new();
	for i in 0..levels {
		let next = SchemaKey::from_idx(3 * (i + 1));
		nodes.push(
			Union::new(vec![
				SchemaKey::from_idx(3 * i + 1),
				SchemaKey::from_idx(3 * i + 2),
			])
			.into(),
		);
		nodes.push(Array::new(next).into());
		nodes.push(Map::new(next).into());
	}
	nodes.push(RegularType::Int.into());
	SchemaMut::from_nodes(nodes)
}

fn with_timeout<T: Send + 'static>(
	f: impl FnOnce() -> T + Send + 'static,
	timeout: Duration,
) -> Option<T> {
	let (tx, rx) = mpsc::channel();
	std::thread::spawn(move || {
		let _ = tx.send(f());
	});
	rx.recv_timeout(timeout).ok()
}

#[test]
fn small_instance_is_a_valid_schema() {
	// Sanity check: this shape is accepted, and usable
	let schema = shared_unnamed_dag(6).freeze().expect("valid schema");
	let value: Vec<std::collections::HashMap<String, Vec<i32>>> = Vec::new();
	let bytes = serde_avro_fast::to_datum_vec(
		&value,
		&mut serde_avro_fast::ser::SerializerConfig::new(&schema),
	)
	.unwrap();
	assert_eq!(bytes, [0 /* union discriminant: array */, 0 /* no items */]);
}

#[test]
fn fingerprinting_181_nodes_terminates() {
	let schema_mut = shared_unnamed_dag(60);
	assert_eq!(schema_mut.nodes().len(), 181);
	let res = with_timeout(
		move || schema_mut.canonical_form_rabin_fingerprint().is_ok(),
		Duration::from_secs(20),
	);
	assert!(
		res.is_some(),
		"canonical_form_rabin_fingerprint did not return Ok or Err within 20 seconds on a 181 nodes graph"
	);
}

#[test]
fn freezing_181_nodes_terminates() {
	let schema_mut = shared_unnamed_dag(60);
	let res = with_timeout(
		move || schema_mut.freeze().is_ok(),
		Duration::from_secs(20),
	);
	assert!(
		res.is_some(),
		"freeze did not return Ok or Err within 20 seconds on a 181 nodes graph"
	);
}
