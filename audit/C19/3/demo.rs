//! C19: whenever freezing succeeds the resulting schema can be used to deserialize safely
//! (depth limits still prevent runaway recursion).
//!
//! A 61 nodes graph of records (no cycle; nesting depth 61, which is below the default
//! `allowed_depth` of 64) freezes successfully and instantly, but deserializing the EMPTY
//! datum `&[]` with it never returns: every record `R{i}` holds `R{i+1}` twice, records
//! consume no input at all, so the deserializer performs ~2^60 zero-byte visits.
//! Neither `allowed_depth` nor `max_seq_size` bounds this.

use {
	serde_avro_fast::schema::*,
	std::{sync::mpsc, time::Duration},
};

/// node i = record R{i} { a: R{i+1}, b: R{i+1} }, last node = record R{levels} {}
fn record_dag(levels: usize) -> SchemaMut {
	let mut nodes: Vec<SchemaNode> = (0..levels)
		.map(|i| {
			Record::new(
				Name::from_fully_qualified_name(format!("R{i}")),
				vec![
					RecordField::new("a", SchemaKey::from_idx(i + 1)),
					RecordField::new("b", SchemaKey::from_idx(i + 1)),
				],
			)
			.into()
		})
		.collect();
	nodes.push(Record::new(Name::from_fully_qualified_name(format!("R{levels}")), vec![]).into());
	SchemaMut::from_nodes(nodes)
}

#[test]
fn small_instance_deserializes() {
	let schema = record_dag(8).freeze().expect("valid schema");
	let res: Result<serde::de::IgnoredAny, _> = serde_avro_fast::from_datum_slice(&[], &schema);
	assert!(res.is_ok());
}

#[test]
fn deserializing_an_empty_datum_terminates() {
	let (tx, rx) = mpsc::channel();
	std::thread::spawn(move || {
		let t = std::time::Instant::now();
		let schema = record_dag(60).freeze().expect("freezing succeeds");
		let freeze_time = t.elapsed();
		tx.send(Err(freeze_time)).unwrap();
		let res: Result<serde::de::IgnoredAny, _> = serde_avro_fast::from_datum_slice(&[], &schema);
		let _ = tx.send(Ok(res.is_ok()));
	});
	let freeze_time = rx
		.recv_timeout(Duration::from_secs(20))
		.expect("freeze should terminate")
		.unwrap_err();
	assert!(freeze_time < Duration::from_secs(5));
	let res = rx.recv_timeout(Duration::from_secs(20));
	assert!(
		res.is_ok(),
		"from_datum_slice(&[], schema) did not return Ok or Err within 20 seconds \
			with a successfully frozen 61 nodes schema"
	);
}
