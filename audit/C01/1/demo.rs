//! C01: a decimal value presented as `f64` must round trip.
//!
//! `4194304.23` has two fractional digits, so it conforms to
//! `decimal(precision 12, scale 2)`, and `f64` is a supported presentation of
//! decimals (`serialize_f64` handles `Decimal`/`BigDecimal`, the derive docs use
//! `decimal: f64`, and the deserializer has an `f64` hint for decimals).

use serde_avro_fast::{from_datum_slice, ser::SerializerConfig, to_datum_vec, Schema};

#[test]
fn f64_presented_decimal_round_trips() {
	let schema: Schema =
		r#"{"type":"bytes","logicalType":"decimal","precision":12,"scale":2}"#
			.parse()
			.unwrap();
	let v: f64 = 4194304.23;

	// Sanity: the very same value presented as a string is accepted, and reads back
	// as the f64 we want to write
	let from_str = to_datum_vec("4194304.23", &mut SerializerConfig::new(&schema)).unwrap();
	// unscaled value 419430423 = 0x19000017, 4 bytes
	assert_eq!(from_str, [8, 0x19, 0x00, 0x00, 0x17]);
	assert_eq!(from_datum_slice::<f64>(&from_str, &schema).unwrap(), v);

	let bytes = to_datum_vec(&v, &mut SerializerConfig::new(&schema))
		.expect("4194304.23_f64 conforms to decimal(12, 2) so it should serialize");
	assert_eq!(bytes, from_str);
	let back: f64 = from_datum_slice(&bytes, &schema).unwrap();
	assert_eq!(back.to_bits(), v.to_bits());
}

#[test]
fn f64_presented_big_decimal_round_trips() {
	let schema: Schema = r#"{"type":"bytes","logicalType":"big-decimal"}"#
		.parse()
		.unwrap();
	let v: f64 = 4194304.23;
	let bytes = to_datum_vec(&v, &mut SerializerConfig::new(&schema)).unwrap();
	let back: f64 = from_datum_slice(&bytes, &schema).unwrap();
	// decode(encode(v)) = v, bit-exact
	assert_eq!(back.to_bits(), v.to_bits(), "wrote {v:?}, read back {back:?}");
}
