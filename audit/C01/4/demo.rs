//! C01: a Rust enum used as a union, whose variants are named after the union's
//! branches, must round trip (same union branch).
//!
//! The serializer finds the branch of a named type (record/enum/fixed) by its name
//! *or* by its fully qualified name, but the deserializer only ever proposes the
//! fully qualified name as variant identifier, so when the named types of the union
//! have a namespace (which `#[derive(BuildSchema)]` always gives them: the module
//! path), what was just serialized can't be deserialized.

use serde_avro_fast::{from_datum_slice, ser::SerializerConfig, to_datum_vec, Schema};

#[derive(serde_derive::Serialize, serde_derive::Deserialize, Debug, PartialEq)]
struct Foo {
	a: i32,
}
#[derive(serde_derive::Serialize, serde_derive::Deserialize, Debug, PartialEq)]
struct Bar {
	b: String,
}
#[derive(serde_derive::Serialize, serde_derive::Deserialize, Debug, PartialEq)]
enum FooOrBar {
	Foo(Foo),
	Bar(Bar),
}

const SCHEMA: &str = r#"[
	{"type":"record","namespace":"ns","name":"Foo","fields":[{"name":"a","type":"int"}]},
	{"type":"record","namespace":"ns","name":"Bar","fields":[{"name":"b","type":"string"}]}
]"#;

#[test]
fn enum_as_union_of_namespaced_records() {
	let schema: Schema = SCHEMA.parse().unwrap();
	let v = FooOrBar::Bar(Bar { b: "x".to_owned() });

	// The branch is determined by its name: `Bar` designates `ns.Bar`
	let bytes = to_datum_vec(&v, &mut SerializerConfig::new(&schema)).unwrap();
	assert_eq!(bytes, [2, 2, b'x']);

	let back: FooOrBar = from_datum_slice(&bytes, &schema)
		.expect("what was serialized under that schema should deserialize under it");
	assert_eq!(back, v);
}

#[test]
fn same_without_namespace_works() {
	// The only difference is the namespace
	let schema: Schema = SCHEMA.replace(r#""namespace":"ns","#, "").parse().unwrap();
	let v = FooOrBar::Bar(Bar { b: "x".to_owned() });
	let bytes = to_datum_vec(&v, &mut SerializerConfig::new(&schema)).unwrap();
	assert_eq!(bytes, [2, 2, b'x']);
	assert_eq!(from_datum_slice::<FooOrBar>(&bytes, &schema).unwrap(), v);
}
