//! C01: the round trip must hold for dynamically-typed values as well.
//!
//! A `duration` datum decodes (via `deserialize_any`) into the map
//! `{"months": .., "days": .., "milliseconds": ..}`. When that map is held by a
//! dynamically-typed value (`serde_json::Value`, whose integers are `u64`/`i64`),
//! it can't be encoded under the same schema: the duration serializer only takes
//! `serialize_u32` for the three components, whatever the value.

use serde_avro_fast::{from_datum_slice, ser::SerializerConfig, to_datum_vec, Schema};

#[test]
fn duration_round_trips_through_dynamic_value() {
	let schema: Schema = r#"{"type":"fixed","name":"d","size":12,"logicalType":"duration"}"#
		.parse()
		.unwrap();

	let v = serde_json::json!({"months": 1, "days": 2, "milliseconds": 3});

	let bytes = to_datum_vec(&v, &mut SerializerConfig::new(&schema))
		.expect("this value conforms to the duration schema so it should serialize");
	assert_eq!(bytes, [1, 0, 0, 0, 2, 0, 0, 0, 3, 0, 0, 0]);
	let back: serde_json::Value = from_datum_slice(&bytes, &schema).unwrap();
	assert_eq!(back, v);
}

#[test]
fn duration_decode_then_encode_dynamic_value() {
	let schema: Schema = r#"{"type":"fixed","name":"d","size":12,"logicalType":"duration"}"#
		.parse()
		.unwrap();
	let bytes = [1, 0, 0, 0, 2, 0, 0, 0, 3, 0, 0, 0];
	// What the library itself decodes...
	let v: serde_json::Value = from_datum_slice(&bytes, &schema).unwrap();
	assert_eq!(
		v,
		serde_json::json!({"months": 1, "days": 2, "milliseconds": 3})
	);
	// ...can be encoded back
	let bytes_again = to_datum_vec(&v, &mut SerializerConfig::new(&schema))
		.expect("a value that was just decoded under that schema should serialize under it");
	assert_eq!(bytes_again, bytes);
}

#[test]
fn duration_struct_with_wider_integers() {
	// Same thing with an ordinary struct whose fields are not exactly `u32`
	#[derive(serde_derive::Serialize, serde_derive::Deserialize, Debug, PartialEq)]
	struct Duration {
		months: u64,
		days: u16,
		milliseconds: i64,
	}
	let schema: Schema = r#"{"type":"fixed","name":"d","size":12,"logicalType":"duration"}"#
		.parse()
		.unwrap();
	let v = Duration {
		months: 1,
		days: 2,
		milliseconds: 3,
	};
	let bytes = to_datum_vec(&v, &mut SerializerConfig::new(&schema))
		.expect("all three components fit in a u32");
	assert_eq!(from_datum_slice::<Duration>(&bytes, &schema).unwrap(), v);
}
