//! C01: an integer value presented as a Rust integer must round trip under a
//! `big-decimal` schema, like it does under a `decimal` schema.
//!
//! The union lookup table registers `big-decimal` as a target for integers
//! (`Integer`, `Integer4`, `Integer8`), and the deserializer hands a
//! `big-decimal` of scale 0 back as an integer when hinted with an integer type,
//! but `serialize_integer` has no `BigDecimal` arm.

use serde_avro_fast::{from_datum_slice, ser::SerializerConfig, to_datum_vec, Schema};

#[test]
fn integer_round_trips_as_big_decimal() {
	let schema: Schema = r#"{"type":"bytes","logicalType":"big-decimal"}"#
		.parse()
		.unwrap();

	// Sanity: the deserializer supports integers for big-decimal
	let five: rust_decimal::Decimal = "5".parse().unwrap();
	let bytes_from_decimal = to_datum_vec(&five, &mut SerializerConfig::new(&schema)).unwrap();
	assert_eq!(from_datum_slice::<i64>(&bytes_from_decimal, &schema).unwrap(), 5);

	// Same thing under a regular decimal works in both directions
	let regular: Schema = r#"{"type":"bytes","logicalType":"decimal","precision":10}"#
		.parse()
		.unwrap();
	let b = to_datum_vec(&5i64, &mut SerializerConfig::new(&regular)).unwrap();
	assert_eq!(from_datum_slice::<i64>(&b, &regular).unwrap(), 5);

	// The actual round trip
	let v: i64 = 5;
	let bytes = to_datum_vec(&v, &mut SerializerConfig::new(&schema))
		.expect("5_i64 conforms to big-decimal so it should serialize");
	assert_eq!(from_datum_slice::<i64>(&bytes, &schema).unwrap(), v);
}

#[test]
fn integer_round_trips_as_big_decimal_in_union() {
	// The type determines the branch here (that's the only non-null branch, and it is
	// registered for integers), so this must work too
	let schema: Schema = r#"["null",{"type":"bytes","logicalType":"big-decimal"}]"#
		.parse()
		.unwrap();
	let v: Option<i64> = Some(i64::MIN);
	let bytes = to_datum_vec(&v, &mut SerializerConfig::new(&schema))
		.expect("Some(i64) should go to the big-decimal branch");
	assert_eq!(from_datum_slice::<Option<i64>>(&bytes, &schema).unwrap(), v);
}
