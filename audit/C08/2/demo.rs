//! C08 demo 2: a `name` attribute on a type that is not a named type (array, map,
//! primitive) is dropped by the Parsing Canonical Form ([STRIP]: `name` is only
//! relevant for record/enum/fixed), so it is plain metadata. The library however
//! registers it in the table of named types, so two such attributes with the same
//! value (or one that equals the name of a real named type) make the parser reject
//! the schema with "duplicate definitions", and no fingerprint is reported.
//!
//! Place in serde_avro_fast/tests/ and run with
//! `cargo test --offline -p serde_avro_fast --test demo`

use serde_avro_fast::schema::SchemaMut;

/// CRC-64-AVRO, bit by bit, straight from the specification
fn crc_64_avro_le(data: &[u8]) -> [u8; 8] {
	const EMPTY: u64 = 0xc15d213aa4d7a795;
	let mut fp = EMPTY;
	for &b in data {
		fp ^= b as u64;
		for _ in 0..8 {
			fp = (fp >> 1) ^ (EMPTY & 0u64.wrapping_sub(fp & 1));
		}
	}
	fp.to_le_bytes()
}

fn assert_fingerprint_is_that_of_pcf(schema_json: &str, parsing_canonical_form: &str) {
	// sanity check of the test itself: the canonical spelling gives that fingerprint
	let canonical: SchemaMut = parsing_canonical_form.parse().unwrap();
	assert_eq!(
		canonical.canonical_form_rabin_fingerprint().unwrap(),
		crc_64_avro_le(parsing_canonical_form.as_bytes())
	);

	let fingerprint = schema_json
		.parse::<SchemaMut>()
		.and_then(|s| s.canonical_form_rabin_fingerprint());
	assert_eq!(
		fingerprint.map_err(|e| e.to_string()),
		Ok(crc_64_avro_le(parsing_canonical_form.as_bytes())),
		"for the spelling {schema_json} of {parsing_canonical_form}"
	);
}

#[test]
fn two_arrays_carrying_the_same_name_attribute() {
	assert_fingerprint_is_that_of_pcf(
		r#"{"type":"record","name":"R","fields":[
			{"name":"a","type":{"type":"array","name":"list","items":"int"}},
			{"name":"b","type":{"type":"array","name":"list","items":"long"}}
		]}"#,
		r#"{"name":"R","type":"record","fields":[{"name":"a","type":{"type":"array","items":"int"}},{"name":"b","type":{"type":"array","items":"long"}}]}"#,
	);
}

#[test]
fn primitive_carrying_the_name_of_the_enclosing_record() {
	assert_fingerprint_is_that_of_pcf(
		r#"{"type":"record","name":"R","fields":[{"name":"a","type":{"type":"int","name":"R"}}]}"#,
		r#"{"name":"R","type":"record","fields":[{"name":"a","type":"int"}]}"#,
	);
}
