//! C08 demo 4: logical types are dropped by the Parsing Canonical Form, and the
//! specification says that an *invalid* logical type (e.g. a `decimal` that lacks its
//! required `precision`) must be ignored, the underlying type being used instead. So
//! `{"type":"bytes","logicalType":"decimal"}` is a spelling of `"bytes"` and has its
//! fingerprint. The library instead fails to parse the schema ("Missing field
//! `precision` on logical type "decimal""), even for types that a decimal cannot
//! annotate at all (where the library otherwise keeps the annotation and ignores it).
//! Java and apache-avro both accept these schemas and give the fingerprint of the
//! underlying type.
//!
//! Place in serde_avro_fast/tests/ and run with
//! `cargo test --offline -p serde_avro_fast --test demo`

use serde_avro_fast::schema::SchemaMut;

/// CRC-64-AVRO, bit by bit, straight from the specification
fn crc_64_avro_le(data: &[u8]) -> [u8; 8] {
	const EMPTY: u64 = 0xc15d213aa4d7a795;
	let mut fp = EMPTY;
	for &b in data {
		fp ^= b as u64;
		for _ in 0..8 {
			fp = (fp >> 1) ^ (EMPTY & 0u64.wrapping_sub(fp & 1));
		}
	}
	fp.to_le_bytes()
}

fn assert_fingerprint_is_that_of_pcf(schema_json: &str, parsing_canonical_form: &str) {
	// sanity check of the test itself: the canonical spelling gives that fingerprint
	let canonical: SchemaMut = parsing_canonical_form.parse().unwrap();
	assert_eq!(
		canonical.canonical_form_rabin_fingerprint().unwrap(),
		crc_64_avro_le(parsing_canonical_form.as_bytes())
	);

	let fingerprint = schema_json
		.parse::<SchemaMut>()
		.and_then(|s| s.canonical_form_rabin_fingerprint());
	assert_eq!(
		fingerprint.map_err(|e| e.to_string()),
		Ok(crc_64_avro_le(parsing_canonical_form.as_bytes())),
		"for the spelling {schema_json} of {parsing_canonical_form}"
	);
}

#[test]
fn decimal_without_precision_on_bytes() {
	assert_fingerprint_is_that_of_pcf(r#"{"type":"bytes","logicalType":"decimal"}"#, r#""bytes""#);
}

#[test]
fn decimal_without_precision_on_fixed_in_record() {
	assert_fingerprint_is_that_of_pcf(
		r#"{"type":"record","name":"R","fields":[{"name":"amount","type":{"type":"fixed","name":"F","size":8,"logicalType":"decimal","scale":2}}]}"#,
		r#"{"name":"R","type":"record","fields":[{"name":"amount","type":{"name":"F","type":"fixed","size":8}}]}"#,
	);
}

#[test]
fn decimal_without_precision_on_a_type_it_cannot_annotate() {
	// With a precision, this (equally meaningless) annotation is accepted and ignored:
	assert_fingerprint_is_that_of_pcf(
		r#"{"type":"string","logicalType":"decimal","precision":4}"#,
		r#""string""#,
	);
	// Without, the schema is rejected
	assert_fingerprint_is_that_of_pcf(r#"{"type":"string","logicalType":"decimal"}"#, r#""string""#);
}
