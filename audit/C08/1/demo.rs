//! C08 demo 1: attributes that the Parsing Canonical Form drops must not influence
//! (let alone prevent) the fingerprint.
//!
//! The PCF keeps only name/type/fields/symbols/items/values/size *where they are
//! relevant to the type* ([PRIMITIVES] + [STRIP] rules) and drops everything else,
//! so `{"type":"long","scale":-3}` is just another JSON spelling of `"long"`.
//! The library however deserializes `size`, `precision`, `scale`, `symbols`,
//! `fields`, `items`, `values`, `logicalType`, `name`, `namespace` with a fixed Rust
//! type for *every* schema object, whatever its `type`, so user metadata that happens
//! to use one of these keys with another JSON type makes the whole schema unparseable
//! and no fingerprint is reported. (Java and apache-avro accept all of these.)
//!
//! Place in serde_avro_fast/tests/ and run with
//! `cargo test --offline -p serde_avro_fast --test demo`

use serde_avro_fast::schema::SchemaMut;

/// CRC-64-AVRO, bit by bit, straight from the specification
fn crc_64_avro_le(data: &[u8]) -> [u8; 8] {
	const EMPTY: u64 = 0xc15d213aa4d7a795;
	let mut fp = EMPTY;
	for &b in data {
		fp ^= b as u64;
		for _ in 0..8 {
			fp = (fp >> 1) ^ (EMPTY & 0u64.wrapping_sub(fp & 1));
		}
	}
	fp.to_le_bytes()
}

fn assert_fingerprint_is_that_of_pcf(schema_json: &str, parsing_canonical_form: &str) {
	// sanity check of the test itself: the canonical spelling gives that fingerprint
	let canonical: SchemaMut = parsing_canonical_form.parse().unwrap();
	assert_eq!(
		canonical.canonical_form_rabin_fingerprint().unwrap(),
		crc_64_avro_le(parsing_canonical_form.as_bytes())
	);

	let fingerprint = schema_json
		.parse::<SchemaMut>()
		.and_then(|s| s.canonical_form_rabin_fingerprint());
	assert_eq!(
		fingerprint.map_err(|e| e.to_string()),
		Ok(crc_64_avro_le(parsing_canonical_form.as_bytes())),
		"for the spelling {schema_json} of {parsing_canonical_form}"
	);
}

#[test]
fn scale_metadata_on_a_long() {
	assert_fingerprint_is_that_of_pcf(r#"{"type":"long","scale":-3}"#, r#""long""#);
}

#[test]
fn precision_metadata_on_a_double() {
	assert_fingerprint_is_that_of_pcf(r#"{"type":"double","precision":"0.01"}"#, r#""double""#);
}

#[test]
fn size_metadata_on_a_record() {
	assert_fingerprint_is_that_of_pcf(
		r#"{"type":"record","name":"R","size":"large","fields":[{"name":"a","type":"int"}]}"#,
		r#"{"name":"R","type":"record","fields":[{"name":"a","type":"int"}]}"#,
	);
}

#[test]
fn symbols_metadata_on_a_string() {
	assert_fingerprint_is_that_of_pcf(r#"{"type":"string","symbols":"A|B|C"}"#, r#""string""#);
}

#[test]
fn items_metadata_on_a_map() {
	assert_fingerprint_is_that_of_pcf(
		r#"{"type":"map","values":"int","items":42}"#,
		r#"{"type":"map","values":"int"}"#,
	);
}
