//! C08 demo 3: the fingerprint of a deep (but perfectly well-formed, linear-size)
//! schema is never reported: `canonical_form_rabin_fingerprint` (hence also
//! `SchemaMut::freeze`, `Schema::from_str`, and reading an object container file
//! header) recurses once per schema level on the native stack with no bound, so the
//! process dies with a stack overflow (SIGABRT, not a catchable panic nor an `Err`).
//!
//! - `nested_arrays_built_from_nodes`: array of array of ... of int, built with the
//!   safe public `SchemaMut::from_nodes` API. Its PCF is simply
//!   `{"type":"array","items":` * N + `"int"` + `}` * N.
//! - `chain_of_records_from_flat_json`: the same through `str::parse`, from a *flat*
//!   JSON text (JSON nesting depth 5, so serde_json's recursion limit does not
//!   help): a top-level union of records where each refers to the next one by name
//!   (the library explicitly supports references to names defined later). The graph
//!   walk of the canonical form writer then goes R0 -> R1 -> ... -> RN.
//!
//! Place in serde_avro_fast/tests/ and run with
//! `cargo test --offline -p serde_avro_fast --test demo`
//! (both tests abort the test process with "has overflowed its stack"; also with
//! --release)

use serde_avro_fast::schema::{Array, RegularType, SchemaKey, SchemaMut, SchemaNode};

/// CRC-64-AVRO, bit by bit, straight from the specification
fn crc_64_avro_le(data: &[u8]) -> [u8; 8] {
	const EMPTY: u64 = 0xc15d213aa4d7a795;
	let mut fp = EMPTY;
	for &b in data {
		fp ^= b as u64;
		for _ in 0..8 {
			fp = (fp >> 1) ^ (EMPTY & 0u64.wrapping_sub(fp & 1));
		}
	}
	fp.to_le_bytes()
}

#[test]
fn nested_arrays_built_from_nodes() {
	const N: usize = 1_000_000;
	let mut nodes: Vec<SchemaNode> = (0..N)
		.map(|i| Array::new(SchemaKey::from_idx(i + 1)).into())
		.collect();
	nodes.push(RegularType::Int.into());
	let schema = SchemaMut::from_nodes(nodes);

	let mut pcf = String::new();
	for _ in 0..N {
		pcf.push_str(r#"{"type":"array","items":"#);
	}
	pcf.push_str(r#""int""#);
	for _ in 0..N {
		pcf.push('}');
	}

	assert_eq!(
		schema
			.canonical_form_rabin_fingerprint()
			.map_err(|e| e.to_string()),
		Ok(crc_64_avro_le(pcf.as_bytes()))
	);
}

#[test]
fn chain_of_records_from_flat_json() {
	const N: usize = 100_000;
	let mut json = String::from("[");
	for i in 0..N {
		json.push_str(&format!(
			r#"{{"type":"record","name":"R{i}","fields":[{{"name":"f","type":{{"type":"array","items":"R{}"}}}}]}},"#,
			i + 1
		));
	}
	json.push_str(&format!(r#"{{"type":"fixed","name":"R{N}","size":1}}]"#));

	// Named types are written in full at their first occurrence, by name afterwards
	let mut pcf = String::from("[");
	for i in 0..N {
		pcf.push_str(&format!(
			r#"{{"name":"R{i}","type":"record","fields":[{{"name":"f","type":{{"type":"array","items":"#
		));
	}
	pcf.push_str(&format!(r#"{{"name":"R{N}","type":"fixed","size":1}}"#));
	for _ in 0..N {
		pcf.push_str("}}]}");
	}
	for i in 1..=N {
		pcf.push_str(&format!(r#","R{i}""#));
	}
	pcf.push(']');

	let schema: SchemaMut = json.parse().expect("the schema is accepted by the parser");
	assert_eq!(
		schema
			.canonical_form_rabin_fingerprint()
			.map_err(|e| e.to_string()),
		Ok(crc_64_avro_le(pcf.as_bytes()))
	);
}

/// Not failing: shows that the expectations above are the right ones, on a size
/// that the native stack can take
#[test]
fn same_with_small_depth_passes() {
	const N: usize = 50;
	let mut json = String::from("[");
	for i in 0..N {
		json.push_str(&format!(
			r#"{{"type":"record","name":"R{i}","fields":[{{"name":"f","type":{{"type":"array","items":"R{}"}}}}]}},"#,
			i + 1
		));
	}
	json.push_str(&format!(r#"{{"type":"fixed","name":"R{N}","size":1}}]"#));
	let mut pcf = String::from("[");
	for i in 0..N {
		pcf.push_str(&format!(
			r#"{{"name":"R{i}","type":"record","fields":[{{"name":"f","type":{{"type":"array","items":"#
		));
	}
	pcf.push_str(&format!(r#"{{"name":"R{N}","type":"fixed","size":1}}"#));
	for _ in 0..N {
		pcf.push_str("}}]}");
	}
	for i in 1..=N {
		pcf.push_str(&format!(r#","R{i}""#));
	}
	pcf.push(']');
	let schema: SchemaMut = json.parse().unwrap();
	assert_eq!(
		schema.canonical_form_rabin_fingerprint().unwrap(),
		crc_64_avro_le(pcf.as_bytes())
	);
}
