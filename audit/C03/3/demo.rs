//! C03: an enum index outside the schema's symbols must yield Err. When the
//! target asks for the discriminant as an integer (`deserialize_u64`, the
//! documented "deserialize discriminants without making the string lookup"
//! fast path), the index read from the input is only checked for being
//! non-negative, never against the number of symbols of the schema: a
//! malformed datum yields Ok(<index that does not exist in the schema>).

use serde::de::{Deserialize, Deserializer};

const SCHEMA: &str = r#"{"type":"enum","name":"Suit","symbols":["HEARTS","SPADES"]}"#;

#[test]
fn sanity_in_range_index_and_string_path() {
	let schema: serde_avro_fast::Schema = SCHEMA.parse().unwrap();
	// zigzag(1) = 2
	assert_eq!(serde_avro_fast::from_datum_slice::<u64>(&[2], &schema).unwrap(), 1);
	assert_eq!(
		serde_avro_fast::from_datum_slice::<String>(&[2], &schema).unwrap(),
		"SPADES"
	);
	// The string path does reject out-of-schema indexes: zigzag(2) = 4
	assert!(serde_avro_fast::from_datum_slice::<String>(&[4], &schema).is_err());
}

#[test]
fn out_of_schema_enum_index_as_u64_is_an_error() {
	let schema: serde_avro_fast::Schema = SCHEMA.parse().unwrap();
	// The schema has 2 symbols (indexes 0 and 1). zigzag(2) = 4, zigzag(10) = 20
	for datum in [&[4u8][..], &[20]] {
		let res: Result<u64, _> = serde_avro_fast::from_datum_slice(datum, &schema);
		assert!(
			res.is_err(),
			"enum index outside of the schema decoded as {res:?} for datum {datum:?}"
		);
		let res: Result<u64, _> = serde_avro_fast::from_datum_reader(datum, &schema);
		assert!(
			res.is_err(),
			"enum index outside of the schema decoded as {res:?} for datum {datum:?} (reader)"
		);
	}
}

/// C-like enum deserialized by discriminant (what `serde_repr` or a hand-written
/// impl does). It has one more variant than the schema the data was written
/// with.
#[derive(Debug, PartialEq)]
enum Suit {
	Hearts,
	Spades,
	Clubs,
}
impl<'de> Deserialize<'de> for Suit {
	fn deserialize<D: Deserializer<'de>>(deserializer: D) -> Result<Self, D::Error> {
		match u64::deserialize(deserializer)? {
			0 => Ok(Suit::Hearts),
			1 => Ok(Suit::Spades),
			2 => Ok(Suit::Clubs),
			other => Err(serde::de::Error::custom(format_args!(
				"unknown discriminant {other}"
			))),
		}
	}
}

#[test]
fn out_of_schema_enum_index_does_not_fabricate_a_variant() {
	let schema: serde_avro_fast::Schema = SCHEMA.parse().unwrap();
	assert_eq!(
		serde_avro_fast::from_datum_slice::<Suit>(&[2], &schema).unwrap(),
		Suit::Spades
	);
	// Index 2 does not exist in the schema: no value is encoded by this datum.
	// Currently yields Ok(Suit::Clubs).
	let res: Result<Suit, _> = serde_avro_fast::from_datum_slice(&[4], &schema);
	assert!(res.is_err(), "fabricated {res:?} from an out-of-schema index");
}
