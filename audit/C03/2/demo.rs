//! C03: any schema decoded into a serde newtype struct (`struct Meters(i32);`,
//! the "transparent wrapper" of the serde data model, which this crate's own
//! serializer and `#[derive(BuildSchema)]` treat as its inner type) is rejected:
//! `deserialize_newtype_struct` is forwarded to `deserialize_any`, which calls
//! `visit_i32`/`visit_str`/`visit_map`/... on a visitor that only implements
//! `visit_newtype_struct`/`visit_seq`. A valid encoding yields Err.

use serde_derive::{Deserialize, Serialize};

#[derive(Serialize, Deserialize, Debug, PartialEq)]
struct Meters(i32);

#[derive(Serialize, Deserialize, Debug, PartialEq)]
struct Label(String);

#[derive(Serialize, Deserialize, Debug, PartialEq)]
struct Point {
	x: Meters,
	label: Label,
}

#[test]
fn newtype_struct_over_int() {
	let schema: serde_avro_fast::Schema = r#""int""#.parse().unwrap();
	// zigzag(7) = 14
	let res: Result<Meters, _> = serde_avro_fast::from_datum_slice(&[14], &schema);
	// Currently: Err("invalid type: integer `7`, expected tuple struct Meters")
	assert_eq!(res.expect("valid encoding of int 7 must decode"), Meters(7));
}

#[test]
fn newtype_struct_fields_in_record_round_trip_with_own_serializer() {
	let schema: serde_avro_fast::Schema = r#"{"type":"record","name":"Point","fields":[
		{"name":"x","type":"int"},
		{"name":"label","type":"string"}
	]}"#
	.parse()
	.unwrap();
	let value = Point {
		x: Meters(7),
		label: Label("ab".to_owned()),
	};
	// The serializer accepts newtype structs and writes them as their inner value
	let encoded = serde_avro_fast::to_datum_vec(
		&value,
		&mut serde_avro_fast::ser::SerializerConfig::new(&schema),
	)
	.unwrap();
	assert_eq!(encoded, [14, 4, b'a', b'b']);
	let res: Result<Point, _> = serde_avro_fast::from_datum_slice(&encoded, &schema);
	assert_eq!(res.expect("valid encoding must decode"), value);
}
