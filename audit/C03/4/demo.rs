//! C03 ("for every schema S ..."): a `decimal` logical type whose `scale`
//! attribute is omitted is a valid schema (spec: "scale, a JSON integer
//! representing the scale (optional). If not specified the scale is 0.", and
//! this crate's own `LogicalType::Decimal` doc says "`scale` defaults to 0"),
//! but the schema parser rejects it with "Missing field `scale` on logical type
//! \"decimal\"", so no datum (nor object container file) written with such a
//! schema can be decoded at all.

const DECIMAL_NO_SCALE: &str = r#"{"type":"bytes","logicalType":"decimal","precision":4}"#;
const DECIMAL_SCALE_0: &str = r#"{"type":"bytes","logicalType":"decimal","precision":4,"scale":0}"#;

/// bytes of length 1 (zigzag 2) holding the big-endian two's complement unscaled
/// value 123
const ENCODED_123: &[u8] = &[2, 0x7B];

#[test]
fn sanity_explicit_scale_0() {
	let schema: serde_avro_fast::Schema = DECIMAL_SCALE_0.parse().unwrap();
	let v: String = serde_avro_fast::from_datum_slice(ENCODED_123, &schema).unwrap();
	assert_eq!(v, "123");
	let v: i64 = serde_avro_fast::from_datum_slice(ENCODED_123, &schema).unwrap();
	assert_eq!(v, 123);
}

#[test]
fn decimal_without_scale_decodes_with_scale_0() {
	let schema: serde_avro_fast::Schema = DECIMAL_NO_SCALE
		.parse()
		.expect("decimal without `scale` is a valid schema (scale defaults to 0)");
	let v: String = serde_avro_fast::from_datum_slice(ENCODED_123, &schema).unwrap();
	assert_eq!(v, "123");
	let v: i64 = serde_avro_fast::from_datum_slice(ENCODED_123, &schema).unwrap();
	assert_eq!(v, 123);
}

#[test]
fn record_with_fixed_decimal_field_without_scale() {
	let schema: serde_avro_fast::Schema = r#"{"type":"record","name":"R","fields":[
		{"name":"amount","type":{"type":"fixed","name":"Amount","size":2,"logicalType":"decimal","precision":4}},
		{"name":"n","type":"int"}
	]}"#
	.parse()
	.expect("decimal without `scale` is a valid schema (scale defaults to 0)");
	#[derive(serde_derive::Deserialize, Debug, PartialEq)]
	struct R {
		amount: i64,
		n: i32,
	}
	// amount = -2 (0xFFFE), n = 7
	let v: R = serde_avro_fast::from_datum_slice(&[0xFF, 0xFE, 14], &schema).unwrap();
	assert_eq!(v, R { amount: -2, n: 7 });
}
