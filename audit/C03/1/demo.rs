//! C03: an Avro array decoded into a fixed-length serde sequence (tuple, `[T; N]`,
//! tuple struct) leaves the array's end-of-blocks marker (and any further
//! elements) unconsumed, so every field that follows is decoded from the wrong
//! bytes: a valid encoding yields Ok(<wrong value>).

use serde_derive::{Deserialize, Serialize};

const SCHEMA: &str = r#"{"type":"record","name":"R","fields":[
	{"name":"a","type":{"type":"array","items":"int"}},
	{"name":"b","type":"int"}
]}"#;

#[derive(Serialize, Deserialize, Debug, PartialEq)]
struct WithVec {
	a: Vec<i32>,
	b: i32,
}

#[derive(Serialize, Deserialize, Debug, PartialEq)]
struct WithTuple {
	a: (i32, i32),
	b: i32,
}

#[derive(Serialize, Deserialize, Debug, PartialEq)]
struct WithArray {
	a: [i32; 2],
	b: i32,
}

/// Hand-written valid encoding of {a: [1, 2], b: 7}:
/// block count 2, items 1 and 2, end-of-array marker 0, then b = 7
const ENCODED: &[u8] = &[4, 2, 4, 0, 14];

#[test]
fn sanity_vec_target_decodes_the_value() {
	let schema: serde_avro_fast::Schema = SCHEMA.parse().unwrap();
	let v: WithVec = serde_avro_fast::from_datum_slice(ENCODED, &schema).unwrap();
	assert_eq!(v, WithVec { a: vec![1, 2], b: 7 });
}

#[test]
fn tuple_target_decodes_the_value() {
	let schema: serde_avro_fast::Schema = SCHEMA.parse().unwrap();
	let v: WithTuple = serde_avro_fast::from_datum_slice(ENCODED, &schema)
		.expect("valid encoding of {a: [1, 2], b: 7} must decode");
	// Currently yields WithTuple { a: (1, 2), b: 0 }: `b` is read from the array terminator
	assert_eq!(v, WithTuple { a: (1, 2), b: 7 });
}

#[test]
fn fixed_size_array_target_decodes_the_value_from_reader_and_multi_block() {
	let schema: serde_avro_fast::Schema = SCHEMA.parse().unwrap();
	// Same value, array split in two blocks, the second one written with a negative
	// count followed by its size in bytes: [1] [-1, 1 byte, 2] end ; b = 7
	let encoded: &[u8] = &[2, 2, 1, 2, 4, 0, 14];
	let v: WithVec = serde_avro_fast::from_datum_reader(encoded, &schema).unwrap();
	assert_eq!(v, WithVec { a: vec![1, 2], b: 7 });
	let v: WithArray = serde_avro_fast::from_datum_reader(encoded, &schema)
		.expect("valid encoding of {a: [1, 2], b: 7} must decode");
	assert_eq!(v, WithArray { a: [1, 2], b: 7 });
}

#[test]
fn own_serializer_output_round_trips() {
	let schema: serde_avro_fast::Schema = SCHEMA.parse().unwrap();
	let value = WithTuple { a: (1, 2), b: 7 };
	let encoded = serde_avro_fast::to_datum_vec(
		&value,
		&mut serde_avro_fast::ser::SerializerConfig::new(&schema),
	)
	.unwrap();
	let decoded: WithTuple = serde_avro_fast::from_datum_slice(&encoded, &schema).unwrap();
	assert_eq!(decoded, value);
}
