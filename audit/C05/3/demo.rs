//! C05 - "reading that file back from any buffered reader": a `BufRead` is
//! allowed to report `ErrorKind::Interrupted` (EINTR) from `read`/`fill_buf`;
//! by the std contract that error is transient and the call must simply be
//! retried (std's own `read_exact`, `read_to_end`, `read_until`, `io::copy`...
//! all do so). `std::io::BufReader<File>` forwards EINTR from the OS as is.
//!
//! The container-file reader treats it as a fatal error: `Reader::from_reader`
//! fails, or a value fails in its middle and then the reader pretends that the
//! end of the stream was reached, so a correct file is not read back.
//!
//! Goes in serde_avro_fast/tests/. Default features are enough (`deflate`).

use {
	serde_avro_fast::{
		object_container_file_encoding::{Compression, Reader, WriterBuilder},
		ser::SerializerConfig,
		Schema,
	},
	std::io::{BufRead, BufReader, Read},
};

/// A byte source in which every `every`-th `read` call is interrupted by a
/// signal before transferring anything (like `read(2)` returning `EINTR`).
/// No data is ever lost: retrying the call succeeds.
///
/// Wrapped in a `std::io::BufReader` below - exactly like a `BufReader<File>`,
/// whose `fill_buf` forwards the `Interrupted` error of the underlying `read`.
struct InterruptedNowAndThen<R> {
	inner: R,
	calls: usize,
	every: usize,
}
impl<R: Read> Read for InterruptedNowAndThen<R> {
	fn read(&mut self, buf: &mut [u8]) -> std::io::Result<usize> {
		self.calls += 1;
		if self.calls % self.every == 0 {
			Err(std::io::Error::new(
				std::io::ErrorKind::Interrupted,
				"interrupted system call",
			))
		} else {
			self.inner.read(buf)
		}
	}
}
fn buffered(file: &[u8], every: usize) -> impl BufRead + '_ {
	BufReader::with_capacity(
		16,
		InterruptedNowAndThen {
			inner: file,
			calls: 0,
			every,
		},
	)
}

fn check(compression: Compression) {
	let schema: Schema = r#""string""#.parse().unwrap();
	let values: Vec<String> = (0..200).map(|i| format!("value number {i}")).collect();

	let mut config = SerializerConfig::new(&schema);
	let mut writer = WriterBuilder::new(&mut config)
		.compression(compression)
		.approx_block_size(100)
		.build(Vec::new())
		.unwrap();
	writer.serialize_all(values.iter()).unwrap();
	let file: Vec<u8> = writer.into_inner().unwrap();

	for every in [2, 3, 7, 50] {
		// This is a well-behaved reader: std reads the whole file through it
		let mut through_std = Vec::new();
		buffered(&file, every)
			.read_to_end(&mut through_std)
			.unwrap();
		assert_eq!(through_std, file);

		// ... but the container file reader does not
		let mut reader = Reader::from_reader(buffered(&file, every))
			.unwrap_or_else(|e| panic!("{compression:?}, EINTR every {every} calls: {e}"));
		let mut read = Vec::new();
		while let Some(value) = reader
			.deserialize_next::<String>()
			.unwrap_or_else(|e| panic!("{compression:?}, EINTR every {every} calls: {e}"))
		{
			read.push(value);
		}
		assert_eq!(read, values, "{compression:?}, EINTR every {every} calls");
	}
}

#[test]
fn interrupted_reads_are_retried_null_codec() {
	check(Compression::Null);
}

#[cfg(feature = "deflate")]
#[test]
fn interrupted_reads_are_retried_deflate() {
	check(Compression::Deflate {
		level: Default::default(),
	});
}
