//! NOT numbered findings (cap of 4 reached / weaker or value-level mechanisms).
//! Three more C05 round-trip failures that were reproduced on the unmodified
//! code; all three tests FAIL. Goes in serde_avro_fast/tests/.
//!
//! - newtype_struct: `struct M(i64)` is written transparently, but
//!   `deserialize_newtype_struct` is forwarded to `deserialize_any`
//!   (de/deserializer/mod.rs:87-90) instead of `visitor.visit_newtype_struct(self)`
//!   -> "invalid type: integer `1`, expected tuple struct M". Value-level.
//! - deep: the serializer has no depth limit, `Reader` hard-codes
//!   `DeserializerConfig::allowed_depth = 64` (2 levels per Option<Box<Node>>)
//!   and offers no way to change it -> "Deserialization recursivity limit reached".
//! - many_metadata: `Reader::new_and_metadata` hard-codes `max_seq_size = 1000`
//!   for the header map (reader/mod.rs:167); `build_with_user_metadata` accepts
//!   any number of entries -> FailedToDeserializeHeader("Exceeding max sequence size ...").

use serde_avro_fast::{
	object_container_file_encoding::{write_all, Compression, Reader, WriterBuilder},
	ser::SerializerConfig,
	Schema,
};

#[derive(serde_derive::Serialize, serde_derive::Deserialize, Debug, PartialEq, Clone)]
struct M(i64);

#[test]
fn newtype_struct() {
	let schema: Schema = r#""long""#.parse().unwrap();
	let values = vec![M(1), M(2)];
	let file = write_all(&schema, Compression::Null, Vec::new(), values.iter()).unwrap();
	let mut r = Reader::from_slice(&file).unwrap();
	let got: Vec<M> = r.deserialize().collect::<Result<_, _>>().unwrap();
	assert_eq!(got, values);
}

#[derive(serde_derive::Serialize, serde_derive::Deserialize, Debug, PartialEq, Clone)]
struct Node {
	v: i64,
	next: Option<Box<Node>>,
}

#[test]
fn deep() {
	let schema: Schema = r#"{"type":"record","name":"Node","fields":[{"name":"v","type":"long"},{"name":"next","type":["null","Node"]}]}"#.parse().unwrap();
	let mut n = Node { v: 0, next: None };
	for i in 1..40 {
		n = Node {
			v: i,
			next: Some(Box::new(n)),
		};
	}
	let file = write_all(&schema, Compression::Null, Vec::new(), [&n]).unwrap();
	let mut r = Reader::from_slice(&file).unwrap();
	let got: Vec<Node> = r.deserialize().collect::<Result<_, _>>().unwrap();
	assert_eq!(got, vec![n]);
}

#[test]
fn many_metadata() {
	let schema: Schema = r#""long""#.parse().unwrap();
	let md: std::collections::BTreeMap<String, serde_bytes::ByteBuf> = (0..1200)
		.map(|i| (format!("k{i}"), serde_bytes::ByteBuf::from(vec![1u8])))
		.collect();
	let mut cfg = SerializerConfig::new(&schema);
	let mut w = WriterBuilder::new(&mut cfg)
		.build_with_user_metadata(Vec::new(), &md)
		.unwrap();
	w.serialize(1i64).unwrap();
	let file = w.into_inner().unwrap();
	let mut r = Reader::from_slice(&file).unwrap();
	let got: Vec<i64> = r.deserialize().collect::<Result<_, _>>().unwrap();
	assert_eq!(got, vec![1]);
}
