//! C05 - "every available compression codec": the set of available codecs is
//! selected through cargo features. With the feature sets {} (null codec only)
//! and {snappy} (null + snappy) the library does not even compile, so no
//! container file can be written or read with those codec sets.
//!
//! The failure cannot be observed by passing `--no-default-features` to
//! `cargo test` directly: the dev-dependency `serde_avro_derive` depends on
//! `serde_avro_fast` with default features, and cargo's feature unification
//! then silently re-enables `deflate` for the test build. A downstream crate
//! depending on `serde_avro_fast = { default-features = false, features =
//! ["snappy"] }` gets exactly the build that this test performs.
//!
//! Goes in serde_avro_fast/tests/. Builds the library (only the library, not
//! its dev-dependencies) for each codec feature set into a separate target
//! dir, offline.

use std::process::Command;

fn build_lib_with(features: &str) -> (bool, String) {
	let cargo = std::env::var("CARGO").unwrap_or_else(|_| "cargo".to_owned());
	let manifest_dir = std::path::Path::new(env!("CARGO_MANIFEST_DIR"));
	let target_dir = manifest_dir
		.parent()
		.unwrap()
		.join("target")
		.join("c05-feature-sets");
	let out = Command::new(cargo)
		.current_dir(manifest_dir)
		.args(["check", "--offline", "--lib", "--no-default-features"])
		.args(["--features", features])
		.arg("--target-dir")
		.arg(&target_dir)
		.output()
		.expect("failed to run cargo");
	let stderr = String::from_utf8_lossy(&out.stderr);
	let errors: String = stderr
		.lines()
		.filter(|l| l.starts_with("error"))
		.collect::<Vec<_>>()
		.join("\n");
	(out.status.success(), errors)
}

#[test]
fn library_builds_for_every_codec_feature_set() {
	let mut failures = Vec::new();
	// every single codec alone, the null codec alone, and a mix
	for features in [
		"",
		"snappy",
		"deflate",
		"bzip2",
		"xz",
		"zstandard",
		"snappy,deflate",
	] {
		let (ok, errors) = build_lib_with(features);
		if !ok {
			failures.push(format!(
				"--no-default-features --features \"{features}\":\n{errors}"
			));
		}
	}
	assert!(
		failures.is_empty(),
		"serde_avro_fast does not compile for these codec feature sets, \
			so no container file round trip is possible with them:\n{}",
		failures.join("\n\n")
	);
}

/// Sanity: the same round trip that a null-only / snappy-only user would run
/// (compiled here with whatever features the test build enabled).
#[test]
fn null_codec_round_trip() {
	use serde_avro_fast::object_container_file_encoding::{write_all, Compression, Reader};
	let schema: serde_avro_fast::Schema = r#""long""#.parse().unwrap();
	let values: Vec<i64> = (0..100).collect();
	let file = write_all(&schema, Compression::Null, Vec::new(), values.iter()).unwrap();
	let got: Vec<i64> = Reader::from_slice(&file)
		.unwrap()
		.deserialize()
		.collect::<Result<_, _>>()
		.unwrap();
	assert_eq!(got, values);
}
