//! C05 - values written through fixed-length serde presentations (tuples,
//! `[T; N]`, tuple structs) onto an Avro `array` schema are accepted by the
//! writer, but when reading them back the array's terminating zero-count
//! block is never consumed, so the reader is left mis-positioned inside the
//! block: the next value (or the end-of-block check) fails.
//!
//! Goes in serde_avro_fast/tests/. No extra features needed.

use serde_avro_fast::{
	object_container_file_encoding::{Compression, Reader, WriterBuilder},
	ser::SerializerConfig,
	Schema,
};

fn round_trip<T>(schema: &str, values: &[T], approx_block_size: u32, through_bufread: bool)
where
	T: serde::Serialize + serde::de::DeserializeOwned + PartialEq + std::fmt::Debug,
{
	let schema: Schema = schema.parse().unwrap();
	let mut config = SerializerConfig::new(&schema);
	let mut writer = WriterBuilder::new(&mut config)
		.compression(Compression::Null)
		.approx_block_size(approx_block_size)
		.build(Vec::new())
		.unwrap();
	writer.serialize_all(values.iter()).expect("writing succeeds");
	let file = writer.into_inner().expect("writing succeeds");

	let read: Result<Vec<T>, _> = if through_bufread {
		Reader::from_reader(std::io::BufReader::new(&*file))
			.unwrap()
			.deserialize()
			.collect()
	} else {
		Reader::from_slice(&file).unwrap().deserialize().collect()
	};
	let read = read.expect("reading back what was just written succeeds");
	assert_eq!(read, values);
}

const ARRAY_OF_LONG: &str = r#"{"type":"array","items":"long"}"#;

#[test]
fn tuples_several_per_block() {
	let values: Vec<(i64, i64)> = vec![(1, 2), (3, 4), (5, 6)];
	round_trip(ARRAY_OF_LONG, &values, 64 * 1024, false);
	round_trip(ARRAY_OF_LONG, &values, 64 * 1024, true);
}

#[test]
fn tuples_one_per_block() {
	// Here the leftover terminator is caught by the end-of-block check instead
	let values: Vec<(i64, i64)> = vec![(1, 2), (3, 4), (5, 6)];
	round_trip(ARRAY_OF_LONG, &values, 0, false);
	round_trip(ARRAY_OF_LONG, &values, 0, true);
}

#[test]
fn fixed_size_arrays() {
	let values: Vec<[i64; 3]> = vec![[1, 2, 3], [4, 5, 6]];
	round_trip(ARRAY_OF_LONG, &values, 64 * 1024, false);
}

#[derive(serde_derive::Serialize, serde_derive::Deserialize, Debug, PartialEq)]
struct Point(i64, i64);

#[test]
fn tuple_structs() {
	let values = vec![Point(1, 2), Point(3, 4)];
	round_trip(ARRAY_OF_LONG, &values, 64 * 1024, false);
}

#[derive(serde_derive::Serialize, serde_derive::Deserialize, Debug, PartialEq)]
struct Segment {
	from: (i64, i64),
	to: (i64, i64),
	label: String,
}

#[test]
fn tuple_fields_inside_a_record() {
	// Even a single value is corrupted when the tuple is not the last thing in it
	let values = vec![Segment {
		from: (1, 2),
		to: (3, 4),
		label: "a".to_owned(),
	}];
	round_trip(
		r#"{"type":"record","name":"Segment","fields":[
			{"name":"from","type":{"type":"array","items":"long"}},
			{"name":"to","type":{"type":"array","items":"long"}},
			{"name":"label","type":"string"}
		]}"#,
		&values,
		64 * 1024,
		false,
	);
}
