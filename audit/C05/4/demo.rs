//! C05 - "every approximate block size": `approx_block_size` is a `u32`, and a
//! very large value is the natural way to say "never cut blocks automatically,
//! I call `finish_block()` myself". But `WriterBuilder::build` eagerly
//! allocates `approx_block_size * 5 / 4` bytes before anything is written:
//! 5 GiB for `u32::MAX`, whatever the size of the data. Where that much memory
//! cannot be reserved (a machine/VM with less RAM+swap than that,
//! `vm.overcommit_memory=2`, `ulimit -v`, or any 32-bit target where the
//! multiplication overflows) the process aborts in `build`, so writing three
//! tiny values does not succeed.
//!
//! To be reproducible on a large machine, the round trip is run in a child
//! process (this same test binary) whose address space is limited to 4 GiB
//! with `ulimit -v`. A control run with the default block size under the same
//! limit shows that the limit in itself is harmless.
//!
//! Goes in serde_avro_fast/tests/. No extra features needed. Needs `sh`.

use {
	serde_avro_fast::{
		object_container_file_encoding::{Compression, Reader, WriterBuilder},
		ser::SerializerConfig,
		Schema,
	},
	std::process::Command,
};

fn round_trip(approx_block_size: u32) {
	let schema: Schema = r#""string""#.parse().unwrap();
	let values = ["a", "b", "c"];
	let mut config = SerializerConfig::new(&schema);
	let mut writer = WriterBuilder::new(&mut config)
		.compression(Compression::Null)
		.approx_block_size(approx_block_size)
		.build(Vec::new())
		.expect("writing succeeds");
	for (i, value) in values.iter().enumerate() {
		writer.serialize(value).expect("writing succeeds");
		if i == 1 {
			// blocks are cut manually
			writer.finish_block().expect("writing succeeds");
		}
	}
	let file = writer.into_inner().expect("writing succeeds");
	let read: Vec<String> = Reader::from_slice(&file)
		.unwrap()
		.deserialize()
		.collect::<Result<_, _>>()
		.unwrap();
	assert_eq!(read, values);
}

const CHILD_ENV: &str = "C05_APPROX_BLOCK_SIZE";

/// Not a test by itself: body of the child process
#[test]
fn child_round_trip() {
	if let Some(block_size) = std::env::var_os(CHILD_ENV) {
		round_trip(block_size.to_str().unwrap().parse().unwrap());
	}
}

fn run_child_with_4gib_address_space(approx_block_size: u32) -> (bool, String) {
	let out = Command::new("sh")
		.arg("-c")
		.arg(r#"ulimit -v 4194304 || exit 42; exec "$0" "$@""#)
		.arg(std::env::current_exe().unwrap())
		.args(["--exact", "child_round_trip", "--test-threads=1", "--nocapture"])
		.env(CHILD_ENV, approx_block_size.to_string())
		.output()
		.expect("could not spawn sh");
	assert_ne!(out.status.code(), Some(42), "could not set ulimit -v");
	(
		out.status.success(),
		format!(
			"{:?}\n{}",
			out.status,
			String::from_utf8_lossy(&out.stderr)
				.lines()
				.filter(|l| l.contains("memory allocation") || l.contains("panicked"))
				.collect::<Vec<_>>()
				.join("\n")
		),
	)
}

#[test]
fn default_block_size_with_4gib_address_space() {
	let (ok, output) = run_child_with_4gib_address_space(64 * 1024);
	assert!(ok, "control run failed: {output}");
}

#[test]
fn max_block_size_with_4gib_address_space() {
	let (ok, output) = run_child_with_4gib_address_space(u32::MAX);
	assert!(
		ok,
		"writing then reading back 3 one-byte strings with approx_block_size(u32::MAX) \
			did not succeed: {output}"
	);
}

#[test]
fn one_gib_block_size_with_4gib_address_space() {
	// 1 GiB * 5 / 4 fits, just to show where the threshold comes from
	let (ok, output) = run_child_with_4gib_address_space(1 << 30);
	assert!(ok, "{output}");
}
