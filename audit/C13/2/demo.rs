//! C13: a record field whose schema is a union containing null may be omitted
//! (or presented as `None`/`()`), and is then encoded as null.
//!
//! `Option<()>` is given the schema `["null", "null"]` by
//! `serde_avro_derive::BuildSchema` (`Option<T>` = `["null", T]`, `()` = `"null"`),
//! and both the JSON parser and `SchemaMut::freeze` accept such a union.
//! The union's per-type lookup table however turns the two `null` variants
//! into a *conflict* and stores no entry at all for "null", so the serializer
//! considers that the field is not nullable: omitting it is reported as
//! "Missing field", and presenting it as `None` fails too. Such a record can
//! never be serialized.
//!
//! Put this file in `serde_avro_fast/tests/` (it needs `serde_derive` and
//! the `serde_avro_derive` dev-dependency, both available there).

use serde_avro_fast::{ser::SerializerConfig, to_datum_vec, Schema};

/// `1i32` then a union discriminant designating one of the two null variants
fn assert_x_then_null(res: Result<Vec<u8>, serde_avro_fast::ser::SerError>, what: &str) {
	match res {
		Ok(bytes) => assert!(
			bytes == [2, 0] || bytes == [2, 2],
			"{what}: expected `x` then a null union variant, got {bytes:?}"
		),
		Err(e) => panic!("{what}: nullable field could not be encoded as null: {e}"),
	}
}

#[derive(serde_derive::Serialize, serde_avro_derive::BuildSchema)]
struct Derived {
	x: i32,
	#[serde(skip_serializing_if = "Option::is_none")]
	flag: Option<()>,
}

#[test]
fn derived_schema_omitted_nullable_field_encodes_as_null() {
	let schema: Schema = match <Derived as serde_avro_derive::BuildSchema>::schema() {
		// Refusing to build the schema would be a way to uphold the property
		Err(_) => return,
		Ok(schema) => schema,
	};
	let config = &mut SerializerConfig::new(&schema);
	// `flag` is omitted by serde because of skip_serializing_if
	assert_x_then_null(
		to_datum_vec(&Derived { x: 1, flag: None }, config),
		"omitted Option<()> field",
	);
}

#[derive(serde_derive::Serialize)]
struct WithoutFlag {
	x: i32,
}
#[derive(serde_derive::Serialize)]
struct WithFlag {
	flag: Option<()>,
	x: i32,
}

#[test]
fn parsed_schema_omitted_nullable_field_encodes_as_null() {
	let schema: Schema = match r#"{
		"type": "record",
		"name": "R",
		"fields": [
			{ "name": "x", "type": "int" },
			{ "name": "flag", "type": ["null", "null"] }
		]
	}"#
	.parse()
	{
		// Rejecting the schema (the spec forbids two unnamed variants of the
		// same type) would be a way to uphold the property
		Err(_) => return,
		Ok(schema) => schema,
	};
	let config = &mut SerializerConfig::new(&schema);
	assert_x_then_null(
		to_datum_vec(&WithoutFlag { x: 1 }, config),
		"omitted field of type [null, null]",
	);
	// Same record, field presented (out of order) instead of omitted: same bytes
	assert_x_then_null(
		to_datum_vec(&WithFlag { flag: None, x: 1 }, config),
		"field of type [null, null] presented as None",
	);
}
