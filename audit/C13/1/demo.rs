//! C13: record bytes must not depend on the order in which fields are
//! presented, and presenting a field twice must be an error.
//!
//! The schema parser (and `SchemaMut::freeze`) accept a record that declares
//! the same field name several times. The serializer's by-name lookup table
//! (`per_name_lookup`, a `HashMap<String, usize>`) then silently keeps only the
//! last index for that name while the in-order fast path matches the first
//! not-yet-written one, so which slot a value lands in depends on where
//! *another* field was presented.
//!
//! Put this file in `serde_avro_fast/tests/`.

use serde::ser::{Serialize, SerializeMap, Serializer};
use serde_avro_fast::{ser::SerializerConfig, to_datum_vec, Schema};

/// A map presenting its entries in exactly the given order
struct Entries(Vec<(&'static str, i32)>);
impl Serialize for Entries {
	fn serialize<S: Serializer>(&self, serializer: S) -> Result<S::Ok, S::Error> {
		let mut map = serializer.serialize_map(Some(self.0.len()))?;
		for (k, v) in &self.0 {
			map.serialize_entry(k, v)?;
		}
		map.end()
	}
}

#[test]
fn bytes_do_not_depend_on_presentation_order() {
	let schema: Schema = match r#"{
		"type": "record",
		"name": "R",
		"fields": [
			{ "name": "x", "type": "int" },
			{ "name": "a", "type": "int" },
			{ "name": "a", "type": "int" }
		]
	}"#
	.parse()
	{
		// Rejecting the schema (what the Avro spec and the reference
		// implementations do) is a perfectly fine way to uphold the property
		Err(_) => return,
		Ok(schema) => schema,
	};
	let config = &mut SerializerConfig::new(&schema);

	// Same entries, `a: 1` presented before `a: 2` both times,
	// only the position of `x` changes
	let x_last = to_datum_vec(&Entries(vec![("a", 1), ("a", 2), ("x", 5)]), config);
	let x_middle = to_datum_vec(&Entries(vec![("a", 1), ("x", 5), ("a", 2)]), config);
	let x_first = to_datum_vec(&Entries(vec![("x", 5), ("a", 1), ("a", 2)]), config);

	match (x_first, x_middle, x_last) {
		(Ok(x_first), Ok(x_middle), Ok(x_last)) => {
			assert_eq!(
				x_first, x_middle,
				"moving `x` in the presentation changed which `a` slot each value was written to"
			);
			assert_eq!(x_first, x_last);
		}
		(Err(_), Err(_), Err(_)) => {}
		other => panic!("Whether serialization succeeds depends on presentation order: {other:?}"),
	}
}

#[test]
fn presenting_a_field_twice_is_an_error() {
	let schema: Schema = match r#"{
		"type": "record",
		"name": "R",
		"fields": [
			{ "name": "a", "type": "int" },
			{ "name": "a", "type": "int" }
		]
	}"#
	.parse()
	{
		Err(_) => return,
		Ok(schema) => schema,
	};
	let config = &mut SerializerConfig::new(&schema);

	let res = to_datum_vec(&Entries(vec![("a", 1), ("a", 2)]), config);
	assert!(
		res.is_err(),
		"field `a` was presented twice but serialization succeeded with {res:?}"
	);
}
