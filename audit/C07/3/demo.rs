//! C07 finding 3: a `name` attribute on a type that is NOT a named type (array,
//! map, primitive written in object form) is registered in the name table as if it
//! were a definition. By-name references that designate no named type (record /
//! enum / fixed) are then silently resolved to that array/map/primitive instead of
//! being rejected as unknown references.
//!
//! Per the specification only records, enums and fixed are named types, and a
//! JSON string in type position must be a primitive type name or the (full)name of a
//! previously *defined named type*.
//!
//! Place in serde_avro_fast/tests/ and run:
//! `cargo test --offline -p serde_avro_fast --test demo`

use serde_avro_fast::schema::SchemaMut;

fn assert_rejected_as_unknown_reference(schema_json: &str, spurious_name: &str, reference: &str) {
	// Control: without the spurious `name` attribute the very same document is rejected
	// (so this is indeed an unknown reference).
	let control = schema_json.replacen(&format!(r#""name":"{spurious_name}","#), "", 1);
	assert_ne!(control, schema_json);
	let err = control
		.parse::<SchemaMut>()
		.expect_err("control should be rejected");
	assert_eq!(
		err.to_string(),
		format!("The Schema contains an unknown reference: {reference}")
	);

	match schema_json.parse::<SchemaMut>() {
		Err(_) => {}
		Ok(schema) => panic!(
			"Schema references `{reference}`, which is not the name of any named type \
				(record/enum/fixed), but it was accepted and parsed as {:?}",
			schema.nodes()
		),
	}
	assert!(schema_json.parse::<serde_avro_fast::Schema>().is_err());
}

#[test]
fn reference_to_array_carrying_a_name_attribute() {
	assert_rejected_as_unknown_reference(
		r#"{"type":"record","name":"R","fields":[
			{"name":"a","type":{"name":"L","type":"array","items":"int"}},
			{"name":"b","type":"L"}
		]}"#,
		"L",
		"L",
	);
}

#[test]
fn reference_to_primitive_carrying_a_name_attribute() {
	assert_rejected_as_unknown_reference(
		r#"{"type":"record","name":"R","namespace":"ns","fields":[
			{"name":"a","type":{"name":"Str","type":"string"}},
			{"name":"b","type":{"type":"map","values":"ns.Str"}}
		]}"#,
		"Str",
		"ns.Str",
	);
}

#[test]
fn forward_reference_to_map_carrying_a_name_attribute() {
	assert_rejected_as_unknown_reference(
		r#"["null","M",{"name":"M","type":"map","values":"long"}]"#,
		"M",
		"M",
	);
}
