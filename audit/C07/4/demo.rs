//! C07 finding 4: a by-name reference written in the object form
//! `{"type": "<name of a defined type>"}` is rejected, although the plain-string
//! form `"<name>"` of the very same reference is accepted.
//!
//! Specification, "Schema Declaration": a schema is "a JSON object, of the form
//! `{"type": "typeName", ...attributes...}` where typeName is either a primitive or
//! derived type name". The reference Java implementation (`Schema.parse`, final
//! `else` branch: "For unions with self reference" -> `names.get(new Name(type,
//! names.space))`) and apache-avro (Rust) both resolve such a typeName against the
//! defined names, using the enclosing namespace for non-dotted names.
//!
//! Place in serde_avro_fast/tests/ and run:
//! `cargo test --offline -p serde_avro_fast --test demo`

use serde_avro_fast::schema::{RegularType, SchemaMut};

fn record_field_types(schema: &SchemaMut) -> Vec<usize> {
	match &schema.root().type_ {
		RegularType::Record(record) => record.fields.iter().map(|f| f.type_.idx()).collect(),
		other => panic!("Expected record, got {other:?}"),
	}
}

const WITH_OBJECT_FORM_REFERENCE: &str = r#"
{
	"type": "record",
	"name": "Pair",
	"namespace": "geo",
	"fields": [
		{ "name": "first", "type": { "type": "fixed", "name": "Coord", "size": 8 } },
		{ "name": "second", "type": { "type": "Coord", "doc": "same type as `first`" } },
		{ "name": "third", "type": { "type": "geo.Coord" } }
	]
}"#;

#[test]
fn control_plain_string_references_are_accepted() {
	let schema: SchemaMut = WITH_OBJECT_FORM_REFERENCE
		.replace(r#"{ "type": "Coord", "doc": "same type as `first`" }"#, r#""Coord""#)
		.replace(r#"{ "type": "geo.Coord" }"#, r#""geo.Coord""#)
		.parse()
		.unwrap();
	let field_types = record_field_types(&schema);
	assert_eq!(field_types, [field_types[0]; 3]);
}

#[test]
fn object_form_references_resolve_to_the_defined_named_type() {
	// Sanity check that a conformant parser accepts this document
	apache_avro::Schema::parse_str(WITH_OBJECT_FORM_REFERENCE).unwrap();

	let schema: SchemaMut = WITH_OBJECT_FORM_REFERENCE
		.parse()
		.expect("`{\"type\": \"Coord\"}` designates the fixed geo.Coord defined just before");
	let field_types = record_field_types(&schema);
	// All three fields are the one and only geo.Coord
	assert_eq!(field_types, [field_types[0]; 3]);
	match &schema.nodes()[field_types[0]].type_ {
		RegularType::Fixed(fixed) => {
			assert_eq!(fixed.name.fully_qualified_name(), "geo.Coord");
			assert_eq!(fixed.size, 8);
		}
		other => panic!("Expected fixed, got {other:?}"),
	}
}

#[test]
fn object_form_self_reference_in_union() {
	// The classic linked list, with the recursive reference spelled in object form
	let schema_json = r#"
	{
		"type": "record",
		"name": "LongList",
		"fields": [
			{ "name": "value", "type": "long" },
			{ "name": "next", "type": ["null", { "type": "LongList" }] }
		]
	}"#;
	apache_avro::Schema::parse_str(schema_json).unwrap();
	let schema: SchemaMut = schema_json
		.parse()
		.expect("`{\"type\": \"LongList\"}` designates the enclosing record");
	let next = record_field_types(&schema)[1];
	match &schema.nodes()[next].type_ {
		RegularType::Union(union) => {
			assert_eq!(union.variants.len(), 2);
			assert_eq!(union.variants[1].idx(), 0);
		}
		other => panic!("Expected union, got {other:?}"),
	}
}
