//! C07 finding 2: a `decimal` logical type without the (optional) `scale`
//! attribute makes the whole schema fail to parse.
//!
//! Avro specification, "Decimal": "scale, a JSON integer representing the scale
//! (optional). If not specified the scale is 0." The crate's own documentation of
//! `LogicalType::Decimal` repeats it: "`scale` defaults to 0".
//!
//! Place in serde_avro_fast/tests/ and run:
//! `cargo test --offline -p serde_avro_fast --test demo`

use serde_avro_fast::schema::{LogicalType, RegularType, SchemaMut};

fn assert_decimal(schema: &SchemaMut, node_idx: usize, precision: usize, scale: u32) {
	match &schema.nodes()[node_idx].logical_type {
		Some(LogicalType::Decimal(decimal)) => {
			assert_eq!(decimal.precision, precision);
			assert_eq!(decimal.scale, scale);
		}
		other => panic!("Expected decimal logical type, got {other:?}"),
	}
}

#[test]
fn decimal_without_scale_on_bytes() {
	let schema: SchemaMut = r#"{"type":"bytes","logicalType":"decimal","precision":4}"#
		.parse()
		.expect("valid schema per the specification (scale is optional and defaults to 0)");
	assert!(matches!(schema.root().type_, RegularType::Bytes));
	assert_decimal(&schema, 0, 4, 0);
}

#[test]
fn decimal_without_scale_on_fixed_in_record() {
	let schema: SchemaMut = r#"
	{
		"type": "record",
		"name": "Invoice",
		"namespace": "billing",
		"fields": [
			{ "name": "id", "type": "long" },
			{
				"name": "quantity",
				"type": { "type": "fixed", "name": "Qty", "size": 8, "logicalType": "decimal", "precision": 18 }
			}
		]
	}"#
	.parse()
	.expect("valid schema per the specification (scale is optional and defaults to 0)");
	match &schema.root().type_ {
		RegularType::Record(record) => {
			assert_eq!(record.name.fully_qualified_name(), "billing.Invoice");
			assert_eq!(record.fields.len(), 2);
			let qty = record.fields[1].type_;
			match &schema[qty].type_ {
				RegularType::Fixed(fixed) => {
					assert_eq!(fixed.size, 8);
					assert_eq!(fixed.name.fully_qualified_name(), "billing.Qty");
				}
				other => panic!("Expected fixed, got {other:?}"),
			}
			assert_decimal(&schema, qty.idx(), 18, 0);
		}
		other => panic!("Expected record, got {other:?}"),
	}
}

#[test]
fn decimal_without_scale_full_schema_and_datum() {
	// Same through the frozen `Schema`, then read a datum: unscaled value 1234, scale 0
	let schema: serde_avro_fast::Schema = r#"{"type":"bytes","logicalType":"decimal","precision":4}"#
		.parse()
		.expect("valid schema per the specification (scale is optional and defaults to 0)");
	// bytes of length 2 (zigzag 4), big-endian two's complement 0x04D2 = 1234
	let value: f64 = serde_avro_fast::from_datum_slice(&[4, 0x04, 0xD2], &schema).unwrap();
	assert_eq!(value, 1234.0);
}
