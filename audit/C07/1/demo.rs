//! C07 finding 1: `SchemaMut::from_str` / `Schema::from_str` take time exponential
//! in the schema size on valid, acyclic schemas whose records reference each other
//! more than once (a DAG of records), because the "unconditional cycle" check
//! re-walks every path instead of every node.
//!
//! Place in serde_avro_fast/tests/ and run:
//! `cargo test --offline -p serde_avro_fast --test demo`

use std::{sync::mpsc, time::Duration};

/// A perfectly valid, acyclic schema of `levels + 2` small records:
///
/// ```text
/// record Top { f0: R0, f1: R1, ..., fN: RN }
/// record R0  { v: int }
/// record Ri  { a: R(i-1), b: R(i-1) }      // two fields of the previous record type
/// ```
///
/// Every named type is defined exactly once (inline, at its first use) and every
/// later use is a plain by-name reference, as mandated by the specification.
fn record_dag(levels: usize) -> String {
	let mut fields = vec![
		r#"{"name":"f0","type":{"type":"record","name":"R0","fields":[{"name":"v","type":"int"}]}}"#
			.to_owned(),
	];
	for i in 1..=levels {
		fields.push(format!(
			r#"{{"name":"f{i}","type":{{"type":"record","name":"R{i}","fields":[{{"name":"a","type":"R{p}"}},{{"name":"b","type":"R{p}"}}]}}}}"#,
			p = i - 1
		));
	}
	format!(
		r#"{{"type":"record","name":"Top","fields":[{}]}}"#,
		fields.join(",")
	)
}

#[test]
fn valid_record_dag_schema_parses() {
	// Sanity: the small instance of the very same family parses fine, so the
	// schema shape itself is accepted.
	let small: serde_avro_fast::schema::SchemaMut = record_dag(8).parse().unwrap();
	assert_eq!(small.nodes().len(), 1 /* Top */ + 9 /* R0..=R8 */ + 1 /* int */);

	// 50 levels: 52 records, 6 kB of JSON.
	let schema_json = record_dag(50);
	assert!(schema_json.len() < 8 * 1024);

	let (tx, rx) = mpsc::channel();
	std::thread::spawn(move || {
		let res = schema_json.parse::<serde_avro_fast::schema::SchemaMut>();
		let _ = tx.send(res.map(|s| s.nodes().len()).map_err(|e| e.to_string()));
	});
	match rx.recv_timeout(Duration::from_secs(30)) {
		Ok(res) => assert_eq!(res, Ok(1 + 51 + 1)),
		Err(_) => panic!(
			"parsing a valid 6 kB schema (52 records, no cycle) did not finish within 30 s \
				(cost doubles with every additional record)"
		),
	}
}
