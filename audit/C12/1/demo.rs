//! C12: skipping a value consumes exactly the bytes that reading it would.
//!
//! An ignored `decimal` is not skipped: it is fully decoded into a
//! `rust_decimal::Decimal` and rendered as a string for `IgnoredAny`. Valid
//! decimals that do not fit that type make the *ignoring* target fail, while a
//! target that reads the field decodes the very same bytes fine.

use serde_avro_fast::Schema;

fn zigzag_long(n: i64, out: &mut Vec<u8>) {
	let mut z = ((n << 1) ^ (n >> 63)) as u64;
	loop {
		let b = (z & 0x7F) as u8;
		z >>= 7;
		if z == 0 {
			out.push(b);
			break;
		}
		out.push(b | 0x80);
	}
}

/// Minimal big-endian two's complement representation
fn be_min(v: i128) -> Vec<u8> {
	let b = v.to_be_bytes();
	let mut start = 0;
	while start < 15
		&& ((b[start] == 0x00 && b[start + 1] & 0x80 == 0)
			|| (b[start] == 0xFF && b[start + 1] & 0x80 != 0))
	{
		start += 1;
	}
	b[start..].to_vec()
}

#[derive(Debug, PartialEq, serde::Deserialize)]
struct Full {
	ignored: i128,
	sentinel: i32,
}
#[derive(Debug, PartialEq, serde::Deserialize)]
struct Lacking {
	sentinel: i32,
}

/// record { ignored: decimal(38, 0) on bytes, sentinel: int }
#[test]
fn struct_lacking_a_decimal_field() {
	let schema: Schema = r#"{"type":"record","name":"R","fields":[
		{"name":"ignored","type":{"type":"bytes","logicalType":"decimal","precision":38,"scale":0}},
		{"name":"sentinel","type":"int"}
	]}"#
	.parse()
	.unwrap();

	// 10^30 has 31 digits: valid for precision 38
	let value: i128 = 10i128.pow(30);
	let unscaled = be_min(value);
	assert_eq!(unscaled.len(), 13);
	let mut datum = Vec::new();
	zigzag_long(unscaled.len() as i64, &mut datum);
	datum.extend_from_slice(&unscaled);
	zigzag_long(7, &mut datum); // sentinel

	// Nothing ignored: everything decodes
	let full: Full = serde_avro_fast::from_datum_slice(&datum, &schema).unwrap();
	assert_eq!(
		full,
		Full {
			ignored: value,
			sentinel: 7
		}
	);

	// Same bytes, struct lacking the field: the sentinel has to decode to the same
	// value
	let lacking: Result<Lacking, _> = serde_avro_fast::from_datum_slice(&datum, &schema);
	assert_eq!(
		lacking.map_err(|e| e.to_string()),
		Ok(Lacking { sentinel: 7 })
	);
}

#[derive(Debug, PartialEq, serde::Deserialize)]
enum Branch {
	Decimal,
	Int(i32),
}
#[derive(Debug, PartialEq, serde::Deserialize)]
enum BranchFull {
	Decimal(i128),
	Int(i32),
}

/// array<union[decimal, int]> with each element of the decimal branch
/// deserialized as a unit variant
#[test]
fn unit_variant_for_decimal_union_branch() {
	let schema: Schema = r#"{"type":"array","items":[
		{"type":"bytes","logicalType":"decimal","precision":38,"scale":0},
		"int"
	]}"#
	.parse()
	.unwrap();

	let value: i128 = -(10i128.pow(37));
	let unscaled = be_min(value);
	let mut datum = Vec::new();
	zigzag_long(2, &mut datum); // 2 items
	zigzag_long(0, &mut datum); // branch 0
	zigzag_long(unscaled.len() as i64, &mut datum);
	datum.extend_from_slice(&unscaled);
	zigzag_long(1, &mut datum); // branch 1
	zigzag_long(7, &mut datum);
	zigzag_long(0, &mut datum); // end of array

	let full: Vec<BranchFull> = serde_avro_fast::from_datum_slice(&datum, &schema).unwrap();
	assert_eq!(full, [BranchFull::Decimal(value), BranchFull::Int(7)]);

	let ignoring: Result<Vec<Branch>, _> = serde_avro_fast::from_datum_slice(&datum, &schema);
	assert_eq!(
		ignoring.map_err(|e| e.to_string()),
		Ok(vec![Branch::Decimal, Branch::Int(7)])
	);
}

/// A decimal whose precision does not fit 16 bytes cannot be read by this
/// library, but a target that does not want it has no reason not to skip it:
/// its encoded length is right there in the data (or in the schema for fixed).
#[test]
fn struct_lacking_a_wide_decimal_field() {
	let schema: Schema = r#"{"type":"record","name":"R","fields":[
		{"name":"ignored","type":{"type":"fixed","name":"F","size":20,"logicalType":"decimal","precision":40,"scale":2}},
		{"name":"sentinel","type":"int"}
	]}"#
	.parse()
	.unwrap();

	let mut datum = vec![0u8; 20];
	datum[19] = 1;
	zigzag_long(7, &mut datum); // sentinel

	let lacking: Result<Lacking, _> = serde_avro_fast::from_datum_slice(&datum, &schema);
	assert_eq!(
		lacking.map_err(|e| e.to_string()),
		Ok(Lacking { sentinel: 7 })
	);
}

/// record { ignored: union[null, decimal(38, 0)], sentinel: int }: the ignored
/// union hands its branch to `deserialize_any`
#[test]
fn struct_lacking_an_optional_decimal_field() {
	let schema: Schema = r#"{"type":"record","name":"R","fields":[
		{"name":"ignored","type":["null",{"type":"bytes","logicalType":"decimal","precision":38,"scale":0}]},
		{"name":"sentinel","type":"int"}
	]}"#
	.parse()
	.unwrap();

	#[derive(Debug, PartialEq, serde::Deserialize)]
	struct FullOpt {
		ignored: Option<i128>,
		sentinel: i32,
	}

	let value: i128 = 10i128.pow(30);
	let unscaled = be_min(value);
	let mut datum = Vec::new();
	zigzag_long(1, &mut datum); // branch 1
	zigzag_long(unscaled.len() as i64, &mut datum);
	datum.extend_from_slice(&unscaled);
	zigzag_long(7, &mut datum); // sentinel

	let full: FullOpt = serde_avro_fast::from_datum_slice(&datum, &schema).unwrap();
	assert_eq!(
		full,
		FullOpt {
			ignored: Some(value),
			sentinel: 7
		}
	);

	let lacking: Result<Lacking, _> = serde_avro_fast::from_datum_slice(&datum, &schema);
	assert_eq!(
		lacking.map_err(|e| e.to_string()),
		Ok(Lacking { sentinel: 7 })
	);
}

/// record { ignored: big-decimal, sentinel: int }
#[test]
fn struct_lacking_a_big_decimal_field() {
	let schema: Schema = r#"{"type":"record","name":"R","fields":[
		{"name":"ignored","type":{"type":"bytes","logicalType":"big-decimal"}},
		{"name":"sentinel","type":"int"}
	]}"#
	.parse()
	.unwrap();

	let value: i128 = 10i128.pow(30);
	let unscaled = be_min(value);
	let mut inner = Vec::new();
	zigzag_long(unscaled.len() as i64, &mut inner);
	inner.extend_from_slice(&unscaled);
	zigzag_long(0, &mut inner); // scale
	let mut datum = Vec::new();
	zigzag_long(inner.len() as i64, &mut datum);
	datum.extend_from_slice(&inner);
	zigzag_long(7, &mut datum); // sentinel

	let full: Full = serde_avro_fast::from_datum_slice(&datum, &schema).unwrap();
	assert_eq!(
		full,
		Full {
			ignored: value,
			sentinel: 7
		}
	);

	let lacking: Result<Lacking, _> = serde_avro_fast::from_datum_slice(&datum, &schema);
	assert_eq!(
		lacking.map_err(|e| e.to_string()),
		Ok(Lacking { sentinel: 7 })
	);
}
