//! C20 demo 3: no value of a derived newtype struct deserializes: the datum deserializer forwards
//! `deserialize_newtype_struct` to `deserialize_any` instead of calling
//! `visitor.visit_newtype_struct(self)`, so serde's newtype-struct visitor receives
//! `visit_i32`/`visit_map`/... (which it does not implement) or `visit_seq` (where it takes the
//! *first element* of the array for the whole inner value).
//!
//! Put in serde_avro_fast/tests/ and run:
//! cargo test --offline -p serde_avro_fast --test c20_demo_3

use {
	serde_avro_derive::BuildSchema,
	serde_avro_fast::{from_datum_slice, ser::SerializerConfig, to_datum_vec},
	serde_derive::{Deserialize, Serialize},
};

fn round_trip<T>(value: T)
where
	T: BuildSchema + serde::Serialize + serde::de::DeserializeOwned + PartialEq + std::fmt::Debug,
{
	let schema = T::schema().expect("building the derived schema should succeed");
	let datum = to_datum_vec(&value, &mut SerializerConfig::new(&schema))
		.expect("every value of the type should serialize under the derived schema");
	let back: T = from_datum_slice(&datum, &schema)
		.expect("what was serialized under the derived schema should deserialize");
	assert_eq!(back, value);
}

#[derive(BuildSchema, Serialize, Deserialize, Debug, PartialEq)]
struct Meters(i32);

#[derive(BuildSchema, Serialize, Deserialize, Debug, PartialEq)]
struct Path(Vec<i32>);

#[derive(BuildSchema, Serialize, Deserialize, Debug, PartialEq)]
struct Point {
	x: i32,
}

#[derive(BuildSchema, Serialize, Deserialize, Debug, PartialEq)]
struct Wrapper(Point);

#[derive(BuildSchema, Serialize, Deserialize, Debug, PartialEq)]
struct Holder {
	distance: Meters,
	maybe: Option<Meters>,
}

#[test]
fn newtype_of_int() {
	// schema "int", datum [10]: `invalid type: integer `5`, expected tuple struct Meters`
	round_trip(Meters(5));
}

#[test]
fn newtype_of_vec() {
	// schema {"type":"array","items":"int"}: `invalid type: integer `1`, expected a sequence`
	round_trip(Path(vec![1, 2]));
}

#[test]
fn newtype_of_empty_vec() {
	// `invalid length 0, expected tuple struct Path with 1 element`
	round_trip(Path(vec![]));
}

#[test]
fn newtype_of_record() {
	// `invalid type: map, expected tuple struct Wrapper`
	round_trip(Wrapper(Point { x: 3 }));
}

#[test]
fn newtype_as_record_field() {
	round_trip(Holder {
		distance: Meters(1),
		maybe: Some(Meters(2)),
	});
}
