//! C20 demo 1: the single unit variant of a derived union-enum (which the derive maps to the
//! `null` branch) is not serialized to the `null` branch when the union also has a `string`
//! (silent corruption: written as the string "Null") or an `enum` branch (serialization error).
//!
//! Put in serde_avro_fast/tests/ and run:
//! cargo test --offline -p serde_avro_fast --test c20_demo_1
//! (the test does not depend on the name of the file)

use {
	serde_avro_derive::BuildSchema,
	serde_avro_fast::{from_datum_slice, ser::SerializerConfig, to_datum_vec},
	serde_derive::{Deserialize, Serialize},
};

fn round_trip<T>(value: T)
where
	T: BuildSchema + serde::Serialize + serde::de::DeserializeOwned + PartialEq + std::fmt::Debug,
{
	let schema = T::schema().expect("building the derived schema should succeed");
	let datum = to_datum_vec(&value, &mut SerializerConfig::new(&schema))
		.expect("every value of the type should serialize under the derived schema");
	let back: T = from_datum_slice(&datum, &schema)
		.expect("what was serialized under the derived schema should deserialize");
	assert_eq!(back, value, "value did not round-trip (datum = {datum:?})");
}

/// Variants carry the Avro name of the branch they map to as their serde name
#[derive(BuildSchema, Serialize, Deserialize, Debug, PartialEq)]
enum NullOrString {
	Null,
	String(String),
}

#[test]
fn unit_variant_next_to_string_branch() {
	assert_eq!(NullOrString::schema().unwrap().json(), r#"["null","string"]"#);
	round_trip(NullOrString::String("a".to_owned()));
	// Serialized as [2, 8, b'N', b'u', b'l', b'l'] (the *string* "Null") instead of [0],
	// reads back as NullOrString::String("Null")
	round_trip(NullOrString::Null);
}

#[derive(BuildSchema, Serialize, Deserialize, Debug, PartialEq)]
#[avro_schema(namespace = "c20")]
enum Suit {
	Hearts,
	Spades,
}

#[derive(BuildSchema, Serialize, Deserialize, Debug, PartialEq)]
enum NullOrSuit {
	Null,
	#[serde(rename = "c20.Suit")]
	Suit(Suit),
}

#[test]
fn unit_variant_next_to_enum_branch() {
	assert_eq!(
		NullOrSuit::schema().unwrap().json(),
		r#"["null",{"type":"enum","name":"c20.Suit","symbols":["Hearts","Spades"]}]"#
	);
	round_trip(NullOrSuit::Suit(Suit::Spades));
	// Fails to serialize: `Failed to find matching enum variant for "Null" in Enum { .. Suit .. }`
	round_trip(NullOrSuit::Null);
}
