//! C20 demo 2: `BuildSchema::schema()` fails with "Schema contains a cycle that can't be avoided
//! using named references" for plain recursive types as soon as the `Option<Box<Node>>` /
//! `Vec<Tree>` node through which the recursion goes is also reachable from outside the
//! recursive record (the derive shares one schema node per Rust type).
//!
//! Put in serde_avro_fast/tests/ and run:
//! cargo test --offline -p serde_avro_fast --test c20_demo_2

use {
	serde_avro_derive::BuildSchema,
	serde_avro_fast::{from_datum_slice, ser::SerializerConfig, to_datum_vec},
	serde_derive::{Deserialize, Serialize},
};

fn round_trip<T>(value: T)
where
	T: BuildSchema + serde::Serialize + serde::de::DeserializeOwned + PartialEq + std::fmt::Debug,
{
	let schema = T::schema().expect("building the derived schema should succeed");
	let datum = to_datum_vec(&value, &mut SerializerConfig::new(&schema))
		.expect("every value of the type should serialize under the derived schema");
	let back: T = from_datum_slice(&datum, &schema)
		.expect("what was serialized under the derived schema should deserialize");
	assert_eq!(back, value);
}

#[derive(BuildSchema, Serialize, Deserialize, Debug, PartialEq)]
struct Node {
	value: i32,
	next: Option<Box<Node>>,
}

#[derive(BuildSchema, Serialize, Deserialize, Debug, PartialEq)]
struct List {
	head: Option<Box<Node>>,
}

fn node() -> Node {
	Node {
		value: 1,
		next: Some(Box::new(Node {
			value: 2,
			next: None,
		})),
	}
}

#[test]
fn recursive_record_alone_is_fine() {
	round_trip(node());
}

#[test]
fn linked_list_with_a_head() {
	// The schema is the perfectly finite
	// {"type":"record","name":"List","fields":[{"name":"head","type":["null",
	//   {"type":"record","name":"Node","fields":[{"name":"value","type":"int"},
	//     {"name":"next","type":["null","Node"]}]}]}]}
	// and serializing the `SchemaMut` to JSON works...
	serde_json::to_string(&List::schema_mut()).unwrap();
	// ...but this fails with SchemaError("Schema contains a cycle that can't be avoided using
	// named references")
	round_trip(List {
		head: Some(Box::new(node())),
	});
}

#[derive(BuildSchema, Serialize, Deserialize, Debug, PartialEq)]
struct Tree {
	value: u16,
	children: Vec<Tree>,
}

#[derive(BuildSchema, Serialize, Deserialize, Debug, PartialEq)]
struct Forest {
	trees: Vec<Tree>,
}

#[test]
fn forest_of_trees() {
	round_trip(Forest {
		trees: vec![Tree {
			value: 1,
			children: vec![Tree {
				value: 2,
				children: vec![],
			}],
		}],
	});
}

#[test]
fn vec_of_trees_as_root() {
	round_trip(vec![Tree {
		value: 1,
		children: vec![],
	}]);
}
