//! C20 demo 4: `Option<E>` where `E` is a derived enum of newtype variants (an Avro union) derives
//! a union that immediately contains another union (`["null",["int","string"]]`), which is not a
//! valid Avro schema, and under which no `Some(_)` value serializes.
//!
//! Put in serde_avro_fast/tests/ and run:
//! cargo test --offline -p serde_avro_fast --test c20_demo_4

use {
	serde_avro_derive::BuildSchema,
	serde_avro_fast::{
		from_datum_slice,
		schema::{RegularType, SchemaMut},
		ser::SerializerConfig,
		to_datum_vec,
	},
	serde_derive::{Deserialize, Serialize},
};

fn round_trip<T>(value: T)
where
	T: BuildSchema + serde::Serialize + serde::de::DeserializeOwned + PartialEq + std::fmt::Debug,
{
	let schema = T::schema().expect("building the derived schema should succeed");
	let datum = to_datum_vec(&value, &mut SerializerConfig::new(&schema))
		.expect("every value of the type should serialize under the derived schema");
	let back: T = from_datum_slice(&datum, &schema)
		.expect("what was serialized under the derived schema should deserialize");
	assert_eq!(back, value);
}

/// "Unions may not immediately contain other unions."
fn assert_no_union_immediately_in_union(schema: &SchemaMut) {
	for node in schema.nodes() {
		if let RegularType::Union(union) = &node.type_ {
			for &variant in &union.variants {
				assert!(
					!matches!(schema.get(variant).unwrap().type_, RegularType::Union(_)),
					"derived schema has a union immediately inside a union: {}",
					serde_json::to_string(schema).unwrap()
				);
			}
		}
	}
}

#[derive(BuildSchema, Serialize, Deserialize, Debug, PartialEq)]
enum IntOrString {
	Int(i32),
	String(String),
}

#[derive(BuildSchema, Serialize, Deserialize, Debug, PartialEq)]
struct Holder {
	direct: IntOrString,
	optional: Option<IntOrString>,
}

#[test]
fn derived_schema_is_valid_avro() {
	// {"type":"record","name":"c20_demo_4.Holder","fields":[{"name":"direct","type":["int","string"]},
	//   {"name":"optional","type":["null",["int","string"]]}]}
	assert_no_union_immediately_in_union(&Holder::schema_mut());
}

#[test]
fn derived_schema_is_accepted_by_the_reference_rust_implementation() {
	// apache-avro: "Unions may not directly contain a union"
	apache_avro::Schema::parse_str(Holder::schema().unwrap().json()).unwrap();
}

#[test]
fn none_round_trips() {
	round_trip(Holder {
		direct: IntOrString::Int(1),
		optional: None,
	});
}

#[test]
fn some_round_trips() {
	// ser: Could not serialize Integer4 to Union([Null, Union([Int, String])])
	round_trip(Holder {
		direct: IntOrString::String("a".to_owned()),
		optional: Some(IntOrString::Int(4)),
	});
}
