//! C02 demo 1: the serializer silently ROUNDS a decimal that has more
//! fractional digits than the schema's `scale`, and returns Ok with bytes
//! that decode to a different number.
//!
//! Put in serde_avro_fast/tests/ and run with
//! `cargo test --offline -p serde_avro_fast --test demo`

use serde_avro_fast::{ser::SerializerConfig, to_datum_vec, Schema};

/// Independent decoder (from the Avro spec) of a `bytes`-backed decimal datum:
/// zig-zag varint length, then big-endian two's-complement unscaled value.
fn decode_bytes_decimal_unscaled(datum: &[u8]) -> i128 {
	let (mut len_zigzag, mut shift, mut pos) = (0u64, 0, 0);
	loop {
		let b = datum[pos];
		pos += 1;
		len_zigzag |= u64::from(b & 0x7f) << shift;
		shift += 7;
		if b & 0x80 == 0 {
			break;
		}
	}
	let len = ((len_zigzag >> 1) as i64 ^ -((len_zigzag & 1) as i64)) as usize;
	let body = &datum[pos..];
	assert_eq!(body.len(), len, "datum should be exactly one `bytes` value");
	decode_be_twos_complement(body)
}

fn decode_be_twos_complement(body: &[u8]) -> i128 {
	let mut v: i128 = if body.first().map_or(false, |b| b & 0x80 != 0) {
		-1
	} else {
		0
	};
	for &b in body {
		v = (v << 8) | i128::from(b);
	}
	v
}

const BYTES_DECIMAL_SCALE_1: &str =
	r#"{"type":"bytes","logicalType":"decimal","precision":4,"scale":1}"#;
const FIXED_DECIMAL_SCALE_1: &str =
	r#"{"type":"fixed","name":"F","size":4,"logicalType":"decimal","precision":4,"scale":1}"#;

/// 1.25 cannot be represented by a decimal of scale 1 (representable
/// neighbours are 1.2 and 1.3), so the only acceptable outcomes are `Err`, or
/// `Ok` with bytes whose decoded value `unscaled * 10^-1` equals 1.25 (there is
/// no such `unscaled`).
fn check<T: serde::Serialize + ?Sized>(
	schema: &str,
	value: &T,
	decode: fn(&[u8]) -> i128,
	expected_times_100: i128,
) {
	let schema: Schema = schema.parse().unwrap();
	match to_datum_vec(value, &mut SerializerConfig::new(&schema)) {
		Err(_) => {}
		Ok(bytes) => {
			let unscaled = decode(&bytes);
			// decoded value is unscaled * 10^-1, so value * 100 == unscaled * 10
			assert_eq!(
				unscaled * 10,
				expected_times_100,
				"serializer returned Ok({bytes:?}) which decodes to unscaled={unscaled} at scale 1, \
					i.e. a different number than the one that was serialized"
			);
		}
	}
}

#[test]
fn str_1_25_to_bytes_decimal_scale_1() {
	check(BYTES_DECIMAL_SCALE_1, "1.25", decode_bytes_decimal_unscaled, 125);
}

#[test]
fn rust_decimal_minus_1_25_to_bytes_decimal_scale_1() {
	let d: rust_decimal::Decimal = "-1.25".parse().unwrap();
	check(BYTES_DECIMAL_SCALE_1, &d, decode_bytes_decimal_unscaled, -125);
}

#[test]
fn str_0_04_to_fixed_decimal_scale_1() {
	// becomes 0.0
	check(FIXED_DECIMAL_SCALE_1, "0.04", decode_be_twos_complement, 4);
}

#[test]
fn f64_0_75_to_bytes_decimal_scale_1() {
	// 0.75 is exactly representable as f64; gets encoded as 0.8
	check(BYTES_DECIMAL_SCALE_1, &0.75f64, decode_bytes_decimal_unscaled, 75);
}
