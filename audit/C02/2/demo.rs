//! C02 demo 2: name-directed union branch selection silently picks the LAST
//! branch whose (short or full) name collides, instead of erroring on the
//! ambiguity / honouring the exact full name.
//!
//! Put in serde_avro_fast/tests/ and run with
//! `cargo test --offline -p serde_avro_fast --test demo`

use serde_avro_fast::{ser::SerializerConfig, to_datum_vec, Schema};

#[derive(serde_derive::Serialize)]
struct Foo {
	x: i32,
}

#[derive(serde_derive::Serialize)]
enum AsEnum {
	Foo { x: i32 },
}

fn ser<T: serde::Serialize>(schema: &str, v: &T) -> Result<Vec<u8>, String> {
	let schema: Schema = schema.parse().expect("this is a valid Avro schema");
	to_datum_vec(v, &mut SerializerConfig::new(&schema)).map_err(|e| e.to_string())
}

/// Valid Avro union (two records with different full names). A Rust value
/// named `Foo` with a single int field `x` suits branch 0 (`a.Foo`) exactly as
/// well as branch 1 (`b.Foo`): the choice is ambiguous so this must be `Err`
/// (as it is when the Rust struct has any other name: "Could not serialize
/// StructOrMap to Union...").
///
/// Instead we get Ok([2, 2]) = branch 1, whichever way the branches are
/// ordered (always the last one wins), so the same value is encoded as
/// `b.Foo` under the first schema and as `a.Foo` under the second.
#[test]
fn two_records_with_same_short_name_are_ambiguous() {
	let a_then_b = r#"[
		{"type":"record","name":"a.Foo","fields":[{"name":"x","type":"int"}]},
		{"type":"record","name":"b.Foo","fields":[{"name":"x","type":"int"}]}
	]"#;
	let b_then_a = r#"[
		{"type":"record","name":"b.Foo","fields":[{"name":"x","type":"int"}]},
		{"type":"record","name":"a.Foo","fields":[{"name":"x","type":"int"}]}
	]"#;
	for schema in [a_then_b, b_then_a] {
		let res = ser(schema, &Foo { x: 1 });
		assert!(
			res.is_err(),
			"struct `Foo` matches both a.Foo and b.Foo, expected Err, got {res:?}"
		);
		let res = ser(schema, &AsEnum::Foo { x: 1 });
		assert!(
			res.is_err(),
			"variant `Foo` matches both a.Foo and b.Foo, expected Err, got {res:?}"
		);
	}
}

/// Here the name `Foo` is the exact *full* name of branch 0 (record `Foo` in
/// the null namespace), which is how the documentation says variants are
/// matched ("If it's a named type, the fully qualified name of the type").
/// Branch 1 is `x.Foo`, whose full name is different.
/// Acceptable: Ok with discriminant 0 followed by int 1 = [0, 2], or Err.
/// Actual: Ok([2, 2]) = the value is written as an `x.Foo`.
#[test]
fn exact_full_name_loses_against_later_short_name() {
	let schema = r#"[
		{"type":"record","name":"Foo","fields":[{"name":"x","type":"int"}]},
		{"type":"record","name":"Foo","namespace":"x","fields":[{"name":"x","type":"long"}]}
	]"#;
	match ser(schema, &AsEnum::Foo { x: 1 }) {
		Err(_) => {}
		Ok(bytes) => assert_eq!(
			bytes,
			[0, 2],
			"`Foo` is the full name of branch 0, but the value was encoded as branch 1 (x.Foo)"
		),
	}
}
