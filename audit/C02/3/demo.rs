//! C02 demo 3: the `precision` of a decimal schema is never enforced by the
//! serializer: numbers with more digits than the schema's (maximum) precision
//! are written and `Ok` is returned.
//!
//! Put in serde_avro_fast/tests/ and run with
//! `cargo test --offline -p serde_avro_fast --test demo`

use serde_avro_fast::{ser::SerializerConfig, to_datum_vec, Schema};

fn ser<T: serde::Serialize + ?Sized>(schema: &str, v: &T) -> Result<Vec<u8>, String> {
	let schema: Schema = schema.parse().expect("this is a valid Avro schema");
	to_datum_vec(v, &mut SerializerConfig::new(&schema)).map_err(|e| e.to_string())
}

/// Spec: "precision, a JSON integer representing the (maximum) precision of
/// decimals stored in this type". decimal(precision=2, scale=0) therefore holds
/// the integers -99..=99 and nothing else. 12345 has 5 digits: the schema
/// cannot represent it (the Java reference implementation throws "Cannot
/// encode decimal with precision 5 as max precision 2").
const BYTES_P2_S0: &str = r#"{"type":"bytes","logicalType":"decimal","precision":2,"scale":0}"#;
/// decimal(precision=3, scale=2) holds -9.99..=9.99
const FIXED_P3_S2: &str =
	r#"{"type":"fixed","name":"F","size":8,"logicalType":"decimal","precision":3,"scale":2}"#;

#[test]
fn integer_with_too_many_digits_for_precision() {
	// sanity: in-range value is accepted and is spec-exact (len=1, 0x63)
	assert_eq!(ser(BYTES_P2_S0, &99i32).unwrap(), [2, 99]);
	let res = ser(BYTES_P2_S0, &12345i64);
	assert!(
		res.is_err(),
		"12345 does not fit decimal(precision=2, scale=0), expected Err, got {res:?}"
	);
}

#[test]
fn str_with_too_many_digits_for_precision() {
	let res = ser(BYTES_P2_S0, "-100");
	assert!(
		res.is_err(),
		"-100 does not fit decimal(precision=2, scale=0), expected Err, got {res:?}"
	);
}

#[test]
fn fixed_decimal_with_too_many_digits_for_precision() {
	// 123.45 at scale 2 is unscaled 12345: 5 digits > precision 3
	let d: rust_decimal::Decimal = "123.45".parse().unwrap();
	let res = ser(FIXED_P3_S2, &d);
	assert!(
		res.is_err(),
		"123.45 does not fit decimal(precision=3, scale=2), expected Err, got {res:?}"
	);
}
