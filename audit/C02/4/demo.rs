//! C02 demo 4: an `f64` presented to a `float` schema is narrowed with a plain
//! `as f32` cast and `Ok` is returned even when the number is out of the
//! range of (or not exactly representable by) an IEEE-754 binary32: finite
//! numbers get encoded as +/-infinity, tiny ones as 0.
//! (The opposite, lossless direction f32 -> `double` is refused by the
//! serializer.)
//!
//! Put in serde_avro_fast/tests/ and run with
//! `cargo test --offline -p serde_avro_fast --test demo`

use serde_avro_fast::{ser::SerializerConfig, to_datum_vec, Schema};

fn ser<T: serde::Serialize + ?Sized>(schema: &str, v: &T) -> Result<Vec<u8>, String> {
	let schema: Schema = schema.parse().expect("this is a valid Avro schema");
	to_datum_vec(v, &mut SerializerConfig::new(&schema)).map_err(|e| e.to_string())
}

/// Spec: "a float is written as 4 bytes. The float is converted into a 32-bit
/// integer using a method equivalent to Java's floatToRawIntBits and then
/// encoded in little-endian format."
fn decode_float(datum: &[u8]) -> f32 {
	f32::from_le_bytes(datum.try_into().expect("a float datum is exactly 4 bytes"))
}

fn check(schema: &str, value: f64, datum_of_float: fn(&[u8]) -> &[u8]) {
	match ser(schema, &value) {
		Err(_) => {}
		Ok(bytes) => {
			let decoded = decode_float(datum_of_float(&bytes));
			assert_eq!(
				f64::from(decoded),
				value,
				"serializer returned Ok({bytes:?}) for {value:e}, but that decodes to {decoded:e}"
			);
		}
	}
}

#[test]
fn finite_f64_above_f32_max_becomes_infinity() {
	// sanity: a number that binary32 can hold is fine
	check(r#""float""#, 1.5, |b| b);
	// 1e40 > f32::MAX (~3.4e38): the schema cannot represent it
	check(r#""float""#, 1e40, |b| b);
}

#[test]
fn finite_negative_f64_becomes_minus_infinity_in_union() {
	// type-directed union selection sends f64 to the `float` branch: [disc=1, 4 bytes]
	check(r#"["null","float"]"#, -1e300, |b| {
		assert_eq!(b[0], 2);
		&b[1..]
	});
}

#[test]
fn tiny_nonzero_f64_becomes_zero() {
	check(r#""float""#, 1e-60, |b| b);
}
