//! C17: arbitrary corruption of a container file must be reported as an
//! error, never crash the process.
//!
//! With the `snappy` codec, the reader sizes its decompression buffer from
//! the (unauthenticated) uncompressed-length preamble of the snappy stream
//! *before* anything is validated: `decompression_buffer.resize(
//! snap::raw::decompress_len(compressed)?, 0)`. Overwriting 5 bytes of a
//! 60-byte block makes the reader allocate and zero-fill 4 GiB
//! (`u32::MAX` bytes), ignoring the `max_alloc_size` safeguard that exists
//! for exactly this purpose on every other path. On a host (container, CI
//! runner, lambda...) that cannot provide 4 GiB, the allocation fails and
//! Rust aborts the whole process (`memory allocation of 4294967295 bytes
//! failed`) - which is strictly worse than a panic as it can't be caught.
//!
//! To demonstrate this deterministically (and without actually needing to
//! own/lack 4 GiB of RAM), this test installs a global allocator that behaves
//! like a host where no single allocation larger than 1 GiB can be satisfied.
//! (If you remove the cap, the test instead takes 4 GiB of RSS and ~20s in
//! debug mode to finally report the error.)
//!
//! Run with: cargo test -p serde_avro_fast --features snappy --test demo
//! Expected on unmodified code: test binary dies with SIGABRT.

use {
	serde_avro_fast::{
		object_container_file_encoding::{Compression, Reader, WriterBuilder},
		ser::SerializerConfig,
		Schema,
	},
	std::alloc::{GlobalAlloc, Layout, System},
};

const ONE_GIB: usize = 1 << 30;

/// Simulates a host on which allocations larger than 1 GiB fail
struct HostWithLessThanOneGibAvailable;
unsafe impl GlobalAlloc for HostWithLessThanOneGibAvailable {
	unsafe fn alloc(&self, layout: Layout) -> *mut u8 {
		if layout.size() > ONE_GIB {
			return std::ptr::null_mut();
		}
		System.alloc(layout)
	}
	unsafe fn alloc_zeroed(&self, layout: Layout) -> *mut u8 {
		if layout.size() > ONE_GIB {
			return std::ptr::null_mut();
		}
		System.alloc_zeroed(layout)
	}
	unsafe fn realloc(&self, ptr: *mut u8, layout: Layout, new_size: usize) -> *mut u8 {
		if new_size > ONE_GIB {
			return std::ptr::null_mut();
		}
		System.realloc(ptr, layout, new_size)
	}
	unsafe fn dealloc(&self, ptr: *mut u8, layout: Layout) {
		System.dealloc(ptr, layout)
	}
}
#[global_allocator]
static ALLOCATOR: HostWithLessThanOneGibAvailable = HostWithLessThanOneGibAvailable;

const SYNC: [u8; 16] = *b"0123456789abcdef";

/// One snappy block holding [1, 2, 3, 4]
fn file() -> (Vec<u8>, usize) {
	let schema: Schema = r#""long""#.parse().unwrap();
	let mut config = SerializerConfig::new(&schema);
	let mut writer = WriterBuilder::new(&mut config)
		.compression(Compression::Snappy)
		.sync_marker(SYNC)
		.build(Vec::new())
		.unwrap();
	writer.serialize_all([1i64, 2, 3, 4].iter()).unwrap();
	let file = writer.into_inner().unwrap();
	let header_end = file.windows(16).position(|w| w == SYNC).unwrap() + 16;
	(file, header_end)
}

fn corrupted_file() -> Vec<u8> {
	let (mut file, header_end) = file();
	// Block layout: count (1 byte), size (1 byte), then the snappy stream:
	// preamble = uncompressed length (4) as a varint, literal tag, 4 bytes of data,
	// then the 4 bytes CRC, then the sync marker
	assert_eq!(
		&file[header_end..header_end + 8],
		&[0x08, 20, 0x04, 0x0C, 0x02, 0x04, 0x06, 0x08],
		"unexpected block layout"
	);
	assert_eq!(file.len(), header_end + 2 + 10 + 16);
	// Overwrite 5 bytes of the block: the snappy preamble now claims u32::MAX bytes
	file[header_end + 2..header_end + 7].copy_from_slice(&[0xFF, 0xFF, 0xFF, 0xFF, 0x0F]);
	file
}

fn assert_error_then_eof<R>(mut reader: Reader<R>)
where
	R: serde_avro_fast::de::read::take::Take
		+ serde_avro_fast::de::read::ReadSlice<'static>
		+ std::io::BufRead,
	<R as serde_avro_fast::de::read::take::Take>::Take:
		serde_avro_fast::de::read::ReadSlice<'static> + std::io::BufRead,
{
	let first = reader.deserialize_next::<i64>();
	assert!(first.is_err(), "corruption should be reported, got {first:?}");
	let second = reader.deserialize_next::<i64>();
	assert!(
		matches!(second, Ok(None)),
		"should report end of stream after the error, got {second:?}"
	);
}

#[test]
fn sanity_pristine_file_reads_fine() {
	let (file, _) = file();
	let values: Vec<i64> = Reader::from_slice(&file)
		.unwrap()
		.deserialize()
		.collect::<Result<_, _>>()
		.unwrap();
	assert_eq!(values, [1, 2, 3, 4]);
}

/// Aborts the process: "memory allocation of 4294967295 bytes failed"
#[test]
fn corrupted_snappy_preamble_is_reported_as_error_slice() {
	let file: &'static [u8] = corrupted_file().leak();
	assert_error_then_eof(Reader::from_slice(file).unwrap());
}

/// Aborts the process: "memory allocation of 4294967295 bytes failed"
#[test]
fn corrupted_snappy_preamble_is_reported_as_error_reader() {
	let file: &'static [u8] = corrupted_file().leak();
	assert_error_then_eof(Reader::from_reader(file).unwrap());
}
