//! C17: a block whose declared object count (or size) disagrees with its
//! contents is a framing error: the reader must report it once, then report
//! end of stream. It must never send the caller into an endless loop.
//!
//! When reading from a slice (`Reader::from_slice`) with the `null` codec,
//! running out of bytes inside a block is surfaced as a plain "recoverable"
//! deserialization error (`DeError` without `io_error()`), and the reader
//! state stays `InBlock`. So the same end-of-block error is reported again
//! for every remaining object that the block header claims (up to 2^63
//! times), and afterwards the reader even resumes yielding values.
//! The `from_reader` path handles the very same files properly because there
//! the EOF is an `io::ErrorKind::UnexpectedEof`.
//!
//! Run with: cargo test -p serde_avro_fast --test demo

use serde_avro_fast::{
	object_container_file_encoding::{Compression, Reader, WriterBuilder},
	ser::SerializerConfig,
	Schema,
};

const SYNC: [u8; 16] = *b"0123456789abcdef";

/// Two blocks: [1, 2, 3, 4] and [5, 6], null codec
fn file() -> (Vec<u8>, usize) {
	let schema: Schema = r#""long""#.parse().unwrap();
	let mut config = SerializerConfig::new(&schema);
	let mut writer = WriterBuilder::new(&mut config)
		.compression(Compression::Null)
		.sync_marker(SYNC)
		.build(Vec::new())
		.unwrap();
	writer.serialize_all([1i64, 2, 3, 4].iter()).unwrap();
	writer.finish_block().unwrap();
	writer.serialize_all([5i64, 6].iter()).unwrap();
	let file = writer.into_inner().unwrap();
	let header_end = file.windows(16).position(|w| w == SYNC).unwrap() + 16;
	// count = 4, size = 4 bytes
	assert_eq!(&file[header_end..header_end + 2], &[0x08, 0x08]);
	(file, header_end)
}

#[derive(Debug, PartialEq)]
enum Event {
	Value(i64),
	Error(String),
	EndOfStream,
	/// We stopped calling the reader after `MAX_CALLS` calls
	GaveUp,
}
const MAX_CALLS: usize = 100_000;

/// Behaves like a caller that skips records that fail to deserialize, which
/// is what the reader's documentation anticipates ("if the caller happens to
/// try to recover from deserialization errors")
fn drive<T>(mut next: impl FnMut(&mut T) -> Result<Option<i64>, String>, reader: &mut T) -> Vec<Event> {
	let mut events = Vec::new();
	for _ in 0..MAX_CALLS {
		match next(reader) {
			Ok(Some(v)) => events.push(Event::Value(v)),
			Ok(None) => {
				events.push(Event::EndOfStream);
				return events;
			}
			Err(e) => events.push(Event::Error(e)),
		}
	}
	events.push(Event::GaveUp);
	events
}

fn read_slice(file: &[u8]) -> Vec<Event> {
	let mut reader = Reader::from_slice(file).unwrap();
	drive(
		|r: &mut Reader<_>| r.deserialize_next::<i64>().map_err(|e| e.to_string()),
		&mut reader,
	)
}

fn read_reader(file: &[u8]) -> Vec<Event> {
	let mut reader = Reader::from_reader(file).unwrap();
	drive(
		|r: &mut Reader<_>| r.deserialize_next::<i64>().map_err(|e| e.to_string()),
		&mut reader,
	)
}

/// What C17 promises: genuine prefix, then the framing error reported once,
/// then end of stream
fn assert_prefix_then_one_error_then_eof(events: &[Event], what: &str) {
	let n_values = events
		.iter()
		.take_while(|e| matches!(e, Event::Value(_)))
		.count();
	let summary = format!(
		"{what}: got {} events, first ones: {:?}",
		events.len(),
		&events[..events.len().min(12)]
	);
	assert_eq!(
		&events[..n_values],
		&[1, 2, 3, 4].map(Event::Value)[..],
		"{summary}"
	);
	assert!(
		matches!(events.get(n_values), Some(Event::Error(_))),
		"count disagreeing with block contents should be reported as an error; {summary}"
	);
	assert_eq!(
		events.get(n_values + 1),
		Some(&Event::EndOfStream),
		"after the framing error was reported once, the reader should report end of stream; \
			{summary}"
	);
}

/// Single-byte corruption: object count of first block 4 -> 7
fn count_slightly_too_large() -> Vec<u8> {
	let (mut file, header_end) = file();
	file[header_end] = 0x0E;
	file
}

/// Object count of first block replaced with 2^40
fn count_huge() -> Vec<u8> {
	let (mut file, header_end) = file();
	// zigzag(2^40) = 2^41, as a varint
	file.splice(
		header_end..header_end + 1,
		[0x80, 0x80, 0x80, 0x80, 0x80, 0x40],
	);
	file
}

/// Control (passes): BufRead input
#[test]
fn reader_input_count_slightly_too_large() {
	assert_prefix_then_one_error_then_eof(&read_reader(&count_slightly_too_large()), "reader");
}

/// Control (passes): BufRead input
#[test]
fn reader_input_count_huge() {
	assert_prefix_then_one_error_then_eof(&read_reader(&count_huge()), "reader");
}

/// Fails: yields 1, 2, 3, 4, Err, Err, Err, 5, 6, end of stream
#[test]
fn slice_input_count_slightly_too_large() {
	assert_prefix_then_one_error_then_eof(&read_slice(&count_slightly_too_large()), "slice");
}

/// Fails: yields 1, 2, 3, 4 then the same error forever (we give up after
/// 100 000 calls, the reader would go on for 2^40 calls)
#[test]
fn slice_input_count_huge() {
	assert_prefix_then_one_error_then_eof(&read_slice(&count_huge()), "slice");
}
