//! C17: a container-file block whose declared object count is smaller than
//! what the block actually contains must be reported as an error.
//!
//! With the `snappy` codec the reader silently drops the trailing objects of
//! the block and carries on with the next block, whereas the very same
//! corruption is detected with the `null` and `deflate` codecs.
//!
//! Run with: cargo test -p serde_avro_fast --features snappy --test demo

use serde_avro_fast::{
	object_container_file_encoding::{Compression, CompressionLevel, Reader, WriterBuilder},
	ser::SerializerConfig,
	Schema,
};

const SYNC: [u8; 16] = *b"0123456789abcdef";

/// Two blocks: [1, 2, 3, 4] and [5, 6]
fn file(compression: Compression) -> Vec<u8> {
	let schema: Schema = r#""long""#.parse().unwrap();
	let mut config = SerializerConfig::new(&schema);
	let mut writer = WriterBuilder::new(&mut config)
		.compression(compression)
		.sync_marker(SYNC)
		.build(Vec::new())
		.unwrap();
	writer.serialize_all([1i64, 2, 3, 4].iter()).unwrap();
	writer.finish_block().unwrap();
	writer.serialize_all([5i64, 6].iter()).unwrap();
	writer.into_inner().unwrap()
}

/// Single-byte corruption: the object count of the first block is changed
/// from 4 to 3 (zigzag varint 0x08 -> 0x06)
fn corrupt_first_block_count(mut file: Vec<u8>) -> Vec<u8> {
	let header_end = file.windows(16).position(|w| w == SYNC).unwrap() + 16;
	assert_eq!(file[header_end], 0x08, "first block should hold 4 objects");
	file[header_end] = 0x06;
	file
}

fn read_slice(file: &[u8]) -> Vec<Result<i64, String>> {
	let mut reader = Reader::from_slice(file).unwrap();
	let mut out = Vec::new();
	while out.len() < 100 {
		match reader.deserialize_next::<i64>() {
			Ok(Some(v)) => out.push(Ok(v)),
			Ok(None) => break,
			Err(e) => out.push(Err(e.to_string())),
		}
	}
	out
}

fn read_reader(file: &[u8]) -> Vec<Result<i64, String>> {
	let mut reader = Reader::from_reader(file).unwrap();
	let mut out = Vec::new();
	while out.len() < 100 {
		match reader.deserialize_next::<i64>() {
			Ok(Some(v)) => out.push(Ok(v)),
			Ok(None) => break,
			Err(e) => out.push(Err(e.to_string())),
		}
	}
	out
}

fn check(codec_name: &str, compression: Compression) {
	let pristine = file(compression);
	let all: Vec<Result<i64, String>> = (1..=6).map(Ok).collect();
	assert_eq!(read_slice(&pristine), all);
	assert_eq!(read_reader(&pristine), all);

	let corrupted = corrupt_first_block_count(pristine);
	for (input_kind, results) in [
		("slice", read_slice(&corrupted)),
		("reader", read_reader(&corrupted)),
	] {
		assert!(
			results.iter().any(|r| r.is_err()),
			"codec {codec_name}, {input_kind} input: the first block declares 3 objects but \
				contains 4, yet no error was reported. Reader yielded {results:?}"
		);
	}
}

/// Control: the same corruption is detected with the other codecs
#[test]
fn count_smaller_than_contents_is_detected_null() {
	check("null", Compression::Null);
}

/// Control: the same corruption is detected with the other codecs
#[test]
fn count_smaller_than_contents_is_detected_deflate() {
	check(
		"deflate",
		Compression::Deflate {
			level: CompressionLevel::default(),
		},
	);
}

/// Fails: value `4` is silently dropped, reader yields [1, 2, 3, 5, 6] and
/// a clean end of stream
#[test]
fn count_smaller_than_contents_is_detected_snappy() {
	check("snappy", Compression::Snappy);
}
