//! C04: on reader input, a single field larger than `ReaderRead::max_alloc_size` must be
//! rejected with Err. It is only rejected when the field happens not to be fully inside the
//! `BufRead`'s internal buffer, so the same datum + same limits is accepted or rejected
//! depending on the buffer capacity / where the field falls relative to a refill boundary.
//!
//! Place in serde_avro_fast/tests/ and run:
//!   cargo test --offline -p serde_avro_fast --test demo

use serde_avro_fast::{
	de::{read::ReaderRead, DeError, DeserializerConfig, DeserializerState},
	Schema,
};

const FIELD_LEN: usize = 1000;
const MAX_ALLOC_SIZE: usize = 100;

fn datum() -> Vec<u8> {
	// avro string: zigzag varint length (1000 -> 2000 -> [0xD0, 0x0F]) followed by the bytes
	let mut datum = vec![0xD0, 0x0F];
	datum.extend(std::iter::repeat(b'a').take(FIELD_LEN));
	datum
}

fn decode<R: std::io::BufRead>(schema: &Schema, reader: R) -> Result<String, DeError> {
	let mut avro_reader = ReaderRead::new(reader);
	avro_reader.max_alloc_size = MAX_ALLOC_SIZE;
	let mut state = DeserializerState::with_config(avro_reader, DeserializerConfig::new(schema));
	serde::Deserialize::deserialize(state.deserializer())
}

/// Control: when the field straddles a buffer refill, the cap is enforced (passes today).
#[test]
fn oversized_field_rejected_when_not_fully_buffered() {
	let schema: Schema = r#""string""#.parse().unwrap();
	let datum = datum();
	let res = decode(&schema, std::io::BufReader::with_capacity(64, &datum[..]));
	let err = res.expect_err("1000-byte field with max_alloc_size = 100 must be rejected");
	assert!(err.to_string().contains("larger than allowed"), "{err}");
}

/// Same datum, same limit, default-sized `BufReader` (8 KiB): the field is accepted.
#[test]
fn oversized_field_rejected_with_default_bufreader() {
	let schema: Schema = r#""string""#.parse().unwrap();
	let datum = datum();
	let res = decode(&schema, std::io::BufReader::new(&datum[..]));
	assert!(
		res.is_err(),
		"a {FIELD_LEN}-byte string was accepted (Ok, len {}) although max_alloc_size = {MAX_ALLOC_SIZE}",
		res.as_ref().map_or(0, |s| s.len()),
	);
}

/// Same thing with the exact pattern of the `serde_avro_fast::de` module documentation
/// (`ReaderRead::new(slice)` + `max_alloc_size`).
#[test]
fn oversized_field_rejected_with_slice_as_bufread() {
	let schema: Schema = r#""string""#.parse().unwrap();
	let datum = datum();
	let res = decode(&schema, &datum[..]);
	assert!(
		res.is_err(),
		"a {FIELD_LEN}-byte string was accepted (Ok, len {}) although max_alloc_size = {MAX_ALLOC_SIZE}",
		res.as_ref().map_or(0, |s| s.len()),
	);
}
