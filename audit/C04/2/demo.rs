//! C04 (object-container-file path, `snappy` feature): memory used while decoding untrusted
//! bytes must be bounded by the input length and the configured limits, not by a number
//! written in the input. The Snappy block decoder allocates and zero-fills a buffer of the
//! *declared* uncompressed length (a varint taken from the block, up to 4 GiB - 1) before
//! decompressing anything, so a ~70-byte file triggers a multi-GiB allocation.
//!
//! Place in serde_avro_fast/tests/ and run:
//!   cargo test --offline -p serde_avro_fast --features snappy --test demo

use std::{
	alloc::{GlobalAlloc, Layout, System},
	sync::atomic::{AtomicUsize, Ordering},
};

/// Records the largest single allocation request
struct PeakAlloc;
static LARGEST_REQUEST: AtomicUsize = AtomicUsize::new(0);
unsafe impl GlobalAlloc for PeakAlloc {
	unsafe fn alloc(&self, l: Layout) -> *mut u8 {
		LARGEST_REQUEST.fetch_max(l.size(), Ordering::Relaxed);
		System.alloc(l)
	}
	unsafe fn alloc_zeroed(&self, l: Layout) -> *mut u8 {
		LARGEST_REQUEST.fetch_max(l.size(), Ordering::Relaxed);
		System.alloc_zeroed(l)
	}
	unsafe fn realloc(&self, p: *mut u8, l: Layout, new_size: usize) -> *mut u8 {
		LARGEST_REQUEST.fetch_max(new_size, Ordering::Relaxed);
		System.realloc(p, l, new_size)
	}
	unsafe fn dealloc(&self, p: *mut u8, l: Layout) {
		System.dealloc(p, l)
	}
}
#[global_allocator]
static ALLOC: PeakAlloc = PeakAlloc;

fn malicious_file() -> Vec<u8> {
	let mut f = Vec::new();
	f.extend(b"Obj\x01");
	// metadata map: one block of 2 entries
	f.push(4);
	f.push(22);
	f.extend(b"avro.schema");
	f.push(12);
	f.extend(br#""null""#);
	f.push(20);
	f.extend(b"avro.codec");
	f.push(12);
	f.extend(b"snappy");
	f.push(0);
	let sync = [7u8; 16];
	f.extend(sync);
	// one data block: 1 object, 9 bytes = 5 bytes of "snappy data" + 4 bytes CRC
	f.push(2);
	f.push(18);
	// raw snappy stream that consists only of its header: declared uncompressed length
	// = 0x4000_0000 (1 GiB; anything up to 0xFFFF_FFFF is accepted)
	f.extend([0x80, 0x80, 0x80, 0x80, 0x04]);
	f.extend([0, 0, 0, 0]);
	f.extend(sync);
	f
}

#[test]
fn snappy_block_memory_is_bounded_by_input_not_by_declared_length() {
	let file = malicious_file();
	assert!(file.len() < 100);

	let mut reader = serde_avro_fast::object_container_file_encoding::Reader::from_slice(&file)
		.expect("header is valid");
	LARGEST_REQUEST.store(0, Ordering::Relaxed);
	let res = reader.deserialize_next::<()>();
	let largest = LARGEST_REQUEST.load(Ordering::Relaxed);

	// The block is garbage, so this must be an error...
	assert!(res.is_err());
	// ...and rejecting a {file.len()}-byte input must not need more than a few KiB, let alone 1 GiB
	assert!(
		largest <= 16 * 1024 * 1024,
		"decoding a {}-byte file requested a single allocation of {largest} bytes",
		file.len()
	);
}
