//! C18: single-object deserialization must behave identically from a slice and from a reader.
//!
//! Place in serde_avro_fast/tests/ and run with
//! `cargo test --offline -p serde_avro_fast --test demo`

use serde_avro_fast::{from_single_object_reader, from_single_object_slice, Schema};

/// The message: valid C3 01 marker, the fingerprint of the `"int"` schema, then the int `0`
/// written as a 6-byte varint (80 80 80 80 80 00)
fn message(schema: &Schema) -> Vec<u8> {
	let mut msg = vec![0xC3, 0x01];
	msg.extend_from_slice(schema.rabin_fingerprint());
	msg.extend_from_slice(&[0x80, 0x80, 0x80, 0x80, 0x80, 0x00]);
	msg
}

#[test]
fn slice_and_reader_decode_the_same_message_identically() {
	let schema: Schema = r#""int""#.parse().unwrap();
	let msg = message(&schema);

	let from_slice: Result<i32, String> =
		from_single_object_slice(&msg, &schema).map_err(|e| e.to_string());

	// Reader that hands the whole message out in one buffer
	let from_reader_one_buffer: Result<i32, String> =
		from_single_object_reader(&msg[..], &schema).map_err(|e| e.to_string());

	// Same bytes, same reader type as anybody would use on a file or a socket, only the
	// buffer boundary falls inside the int (12-byte buffer: 10 header bytes + 2 bytes of the int)
	let from_reader_small_buffer: Result<i32, String> = from_single_object_reader(
		std::io::BufReader::with_capacity(12, &msg[..]),
		&schema,
	)
	.map_err(|e| e.to_string());

	assert_eq!(from_slice.is_ok(), from_reader_one_buffer.is_ok());
	assert_eq!(
		from_slice.as_ref().ok(),
		from_reader_one_buffer.as_ref().ok()
	);
	// Fails: Ok(0) from the slice, Err("... Unterminated varint") from the reader
	assert_eq!(
		from_slice.is_ok(),
		from_reader_small_buffer.is_ok(),
		"slice: {from_slice:?}, reader: {from_reader_small_buffer:?}"
	);
	assert_eq!(
		from_slice.as_ref().ok(),
		from_reader_small_buffer.as_ref().ok()
	);
}

#[test]
fn same_reader_type_same_bytes_different_buffer_sizes() {
	// The outcome must not depend on where the BufReader happens to refill
	let schema: Schema = r#""int""#.parse().unwrap();
	let msg = message(&schema);
	let outcomes: Vec<(usize, Result<i32, String>)> = [11usize, 12, 13, 14, 15, 16, 8192]
		.into_iter()
		.map(|capacity| {
			(
				capacity,
				from_single_object_reader(
					std::io::BufReader::with_capacity(capacity, &msg[..]),
					&schema,
				)
				.map_err(|e| e.to_string()),
			)
		})
		.collect();
	for (capacity, outcome) in &outcomes {
		assert_eq!(
			outcome.is_ok(),
			outcomes.last().unwrap().1.is_ok(),
			"capacity {capacity}: {outcome:?} but capacity 8192: {:?}",
			outcomes.last().unwrap().1
		);
	}
}
