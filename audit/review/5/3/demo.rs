//! Integration test for serde_avro_fast/tests/
//!
//! Edge case of 91efa0f ("trailing zeroes do not make decimal text inexact"): when the text
//! has no integer part and the fractional part is only zeroes, what is left after
//! removing the trailing zeroes (and the point) is "" (or "-", "+"), which does not parse,
//! so the text is still refused with "Number has a high precision that can not be
//! represented", although ".0", ".00" and "0.00000000000000000000000000000" are accepted
//! and so is ".50000000000000000000000000000".

use serde_avro_fast::{ser::SerializerConfig, to_datum_vec, Schema};

fn ser(schema: &Schema, text: &str) -> Result<Vec<u8>, String> {
	to_datum_vec(&text, &mut SerializerConfig::new(schema)).map_err(|e| e.to_string())
}

#[test]
fn zero_without_integer_part_and_many_trailing_zeroes() {
	let schema: Schema = r#"{"type":"bytes","logicalType":"decimal","precision":6,"scale":2}"#
		.parse()
		.unwrap();
	let zeroes = "0".repeat(29);
	let expected = Ok(vec![2u8, 0]);

	// All of these are accepted, with or without an integer part
	assert_eq!(ser(&schema, "0.00"), expected);
	assert_eq!(ser(&schema, ".00"), expected);
	assert_eq!(ser(&schema, "-.00"), expected);
	assert_eq!(ser(&schema, &format!("0.{zeroes}")), expected);
	assert_eq!(ser(&schema, &format!(".5{zeroes}")), Ok(vec![2u8, 50]));

	// HEAD: Err("str cannot be converted to decimal for serialization as Decimal: Number
	// has a high precision that can not be represented.")
	assert_eq!(ser(&schema, &format!(".{zeroes}")), expected);
	assert_eq!(ser(&schema, &format!("-.{zeroes}")), expected);
	assert_eq!(ser(&schema, &format!("+.{zeroes}")), expected);
}
