//! Integration test for serde_avro_derive/tests/ (same regression as demo.rs, through
//! `#[derive(BuildSchema)]`, which always gives a namespace (the module path) to the
//! named types that it generates, so every derived record whose Rust name is also the name
//! of a type (Map, Date, Duration, String, Decimal, Array...) is concerned).
//!
//! Passes at 79827a3.

use serde::ser::{Serialize, SerializeStruct, Serializer};
use serde_avro_derive::BuildSchema;

/// A game map
#[derive(BuildSchema)]
struct Map {
	width: i32,
}
// What `#[derive(serde_derive::Serialize)]` generates (serde_derive is not a
// dev-dependency of serde_avro_derive)
impl Serialize for Map {
	fn serialize<S: Serializer>(&self, serializer: S) -> Result<S::Ok, S::Error> {
		let mut s = serializer.serialize_struct("Map", 1)?;
		s.serialize_field("width", &self.width)?;
		s.end()
	}
}

#[derive(BuildSchema)]
#[allow(unused)]
enum Thing {
	Map(Map),
	Tags(std::collections::BTreeMap<String, String>),
}
impl Serialize for Thing {
	fn serialize<S: Serializer>(&self, serializer: S) -> Result<S::Ok, S::Error> {
		match self {
			Thing::Map(m) => serializer.serialize_newtype_variant("Thing", 0, "Map", m),
			Thing::Tags(t) => serializer.serialize_newtype_variant("Thing", 1, "Tags", t),
		}
	}
}

#[test]
fn derived_record_whose_name_is_also_the_name_of_a_type() {
	let schema = Thing::schema().unwrap();
	// [{"type":"record","name":"<name of this test file>.Map","fields":[...]},{"type":"map","values":"string"}]
	let json = schema.json();
	assert!(json.starts_with(r#"[{"type":"record","name":""#), "{json}");
	assert!(
		json.ends_with(r#".Map","fields":[{"name":"width","type":"int"}]},{"type":"map","values":"string"}]"#),
		"{json}"
	);
	// HEAD: Err("Could not serialize integer to String")
	let serialized = serde_avro_fast::to_datum_vec(
		&Thing::Map(Map { width: 3 }),
		&mut serde_avro_fast::ser::SerializerConfig::new(&schema),
	)
	.unwrap();
	assert_eq!(serialized, [0, 6]);
}
