//! Integration test for serde_avro_fast/tests/
//!
//! Regression of bdff1cc ("what a name designates in a union follows a precedence"):
//! the name without the namespace of a named type now loses against the name of a type
//! (Duration, Map, Date, String, Decimal...), so a struct (or newtype/struct variant) that
//! is named like its record no longer finds the record as soon as the record has a
//! namespace and the union also has a branch of that type. 8be1450 had fixed exactly this
//! ("a struct Duration { secs } that used to serialize as the record failed with ...only
//! if its fields are months/days/milliseconds") and the comment that bdff1cc leaves in
//! `register_name` still promises it ("a record that is named `Duration` should still be
//! found by its name when there's also a duration in the union").
//!
//! All of these pass at 79827a3 (and at the original snapshot for Duration).

use serde_avro_fast::{from_datum_slice, ser::SerializerConfig, to_datum_vec, Schema};

#[derive(serde_derive::Serialize, serde_derive::Deserialize, Debug, PartialEq)]
struct Duration {
	secs: i64,
}

#[test]
fn struct_duration_into_namespaced_record_next_to_a_duration() {
	let schema: Schema = r#"[
		{"type":"fixed","name":"d","size":12,"logicalType":"duration"},
		{"type":"record","name":"Duration","namespace":"com.acme","fields":[{"name":"secs","type":"long"}]}
	]"#
	.parse()
	.unwrap();
	let value = Duration { secs: 3 };
	// HEAD: Err("...can be serialized as Duration only if its fields are months/days/milliseconds")
	let serialized = to_datum_vec(&value, &mut SerializerConfig::new(&schema)).unwrap();
	assert_eq!(serialized, [2, 6]);
	assert_eq!(from_datum_slice::<Duration>(&serialized, &schema).unwrap(), value);
}

#[test]
fn struct_duration_into_namespaced_record_before_a_duration() {
	let schema: Schema = r#"[
		{"type":"record","name":"Duration","namespace":"com.acme","fields":[{"name":"secs","type":"long"}]},
		{"type":"fixed","name":"d","size":12,"logicalType":"duration"}
	]"#
	.parse()
	.unwrap();
	let serialized =
		to_datum_vec(&Duration { secs: 3 }, &mut SerializerConfig::new(&schema)).unwrap();
	assert_eq!(serialized, [0, 6]);
}

#[derive(serde_derive::Serialize)]
struct Map {
	width: i32,
}
#[derive(serde_derive::Serialize)]
enum Thing {
	Map(Map),
}

#[test]
fn struct_and_newtype_variant_map_into_namespaced_record_next_to_a_map() {
	let schema: Schema = r#"[
		{"type":"map","values":"string"},
		{"type":"record","name":"Map","namespace":"game","fields":[{"name":"width","type":"int"}]}
	]"#
	.parse()
	.unwrap();
	// HEAD: Err("Could not serialize integer to String") (the struct is written as the avro map)
	let serialized = to_datum_vec(&Map { width: 3 }, &mut SerializerConfig::new(&schema)).unwrap();
	assert_eq!(serialized, [2, 6]);
	let serialized =
		to_datum_vec(&Thing::Map(Map { width: 3 }), &mut SerializerConfig::new(&schema)).unwrap();
	assert_eq!(serialized, [2, 6]);
}

#[derive(serde_derive::Serialize)]
struct Date {
	year: i32,
}

#[test]
fn struct_date_into_namespaced_record_next_to_a_date() {
	let schema: Schema = r#"[
		{"type":"int","logicalType":"date"},
		{"type":"record","name":"Date","namespace":"cal","fields":[{"name":"year","type":"int"}]}
	]"#
	.parse()
	.unwrap();
	// HEAD: Err("Could not serialize struct to Date"), although only the record can hold a struct
	let serialized = to_datum_vec(&Date { year: 3 }, &mut SerializerConfig::new(&schema)).unwrap();
	assert_eq!(serialized, [2, 6]);
}
