//! Integration test for serde_avro_fast/tests/
//!
//! Regression of bdff1cc: between two names of the same precedence the LAST one now wins
//! ("the last one if they are equal"), also for the names of types, for which the first one
//! used to win (`or_insert`). `Decimal` is the name of a type that two branches of a valid
//! union may have: a decimal over bytes and a decimal over a fixed (the specification
//! only forbids two branches of the same unnamed type). Deserialization gives `Decimal`
//! for the one over bytes only (the one over a fixed gets the fully qualified name of the
//! fixed, see SchemaTypeNameDeserializer), which is the rule that the commit message
//! gives for deciding ("for which Date is the name that deserialization gives").
//!
//! Passes at 79827a3.

use serde_avro_fast::{from_datum_slice, ser::SerializerConfig, to_datum_vec, Schema};

#[derive(serde_derive::Serialize, serde_derive::Deserialize, Debug, PartialEq)]
enum BytesOrFixed {
	Decimal(f64),
	#[serde(rename = "com.acme.Amount")]
	Amount(f64),
}

#[test]
fn decimal_designates_the_branch_that_deserializes_as_decimal() {
	let schema: Schema = r#"[
		{"type":"bytes","logicalType":"decimal","precision":6,"scale":2},
		{"type":"fixed","name":"Amount","namespace":"com.acme","size":4,"logicalType":"decimal","precision":6,"scale":0}
	]"#
	.parse()
	.unwrap();

	// branch 0, 1 byte: 125 (1.25 with a scale of 2)
	let datum = [0u8, 2, 125];
	let value: BytesOrFixed = from_datum_slice(&datum, &schema).unwrap();
	assert_eq!(value, BytesOrFixed::Decimal(1.25));
	// HEAD: Err("Decimal number has more fractional digits than the schema scale allows")
	// because `Decimal` now designates com.acme.Amount (whose scale is 0)
	let serialized = to_datum_vec(&value, &mut SerializerConfig::new(&schema)).unwrap();
	assert_eq!(serialized, datum);

	// With a value that both can hold, what is read from one branch is silently written as the other
	let datum = [0u8, 4, 1, 0x2c]; // 3.00
	let value: BytesOrFixed = from_datum_slice(&datum, &schema).unwrap();
	assert_eq!(value, BytesOrFixed::Decimal(3.0));
	assert_eq!(
		to_datum_vec(&value, &mut SerializerConfig::new(&schema)).unwrap(),
		datum
	);

	// The other branch is still designated by its own name
	let datum = [2u8, 0, 0, 0, 7];
	let value: BytesOrFixed = from_datum_slice(&datum, &schema).unwrap();
	assert_eq!(value, BytesOrFixed::Amount(7.0));
	assert_eq!(
		to_datum_vec(&value, &mut SerializerConfig::new(&schema)).unwrap(),
		datum
	);
}
/// Guard for the repair (passes on HEAD, failed at 79827a3): the order of the branches should
/// not matter, so "keep the first one" is not the right repair either
#[test]
fn decimal_designates_the_branch_that_deserializes_as_decimal_other_order() {
	let schema: Schema = r#"[
		{"type":"fixed","name":"Amount","namespace":"com.acme","size":4,"logicalType":"decimal","precision":6,"scale":0},
		{"type":"bytes","logicalType":"decimal","precision":6,"scale":2}
	]"#
	.parse()
	.unwrap();
	let datum = [2u8, 2, 125];
	let value: BytesOrFixed = from_datum_slice(&datum, &schema).unwrap();
	assert_eq!(value, BytesOrFixed::Decimal(1.25));
	let serialized = to_datum_vec(&value, &mut SerializerConfig::new(&schema)).unwrap();
	assert_eq!(serialized, datum);
}
