//! Review of 675e7ff ("Option of a type whose schema is a union does not nest the
//! unions"): integration test for `serde_avro_fast/tests/`
//! (serde_avro_fast has serde_avro_derive and serde_derive as dev-dependencies).
//!
//! `Option<T>::append_schema` looks at T's node to decide whether it is a union. When
//! T is a union enum that is still being built (the Option is reached from inside T,
//! through a record), T's node is still the `reserve()` placeholder
//! (`RegularType::Null`), so it is not recognized as a union and the Option is built as
//! [null, T]: exactly the nested union that the commit says is not produced anymore.

use serde_avro_derive::BuildSchema;

#[derive(BuildSchema, serde_derive::Serialize, serde_derive::Deserialize, Debug, PartialEq)]
enum IntOrRec {
	Int(i32),
	Rec(Rec),
}

#[derive(BuildSchema, serde_derive::Serialize, serde_derive::Deserialize, Debug, PartialEq)]
struct Rec {
	next: Option<Box<IntOrRec>>,
}

fn assert_no_union_immediately_in_union(v: &serde_json::Value, whole: &str) {
	match v {
		serde_json::Value::Array(variants) => {
			for variant in variants {
				assert!(
					!variant.is_array(),
					"union immediately contains a union: {whole}"
				);
				assert_no_union_immediately_in_union(variant, whole);
			}
		}
		serde_json::Value::Object(o) => {
			for (_, v) in o {
				assert_no_union_immediately_in_union(v, whole);
			}
		}
		_ => {}
	}
}

/// "Unions may not immediately contain other unions." (Avro specification, quoted by
/// the commit message)
#[test]
fn option_of_the_union_being_built_does_not_nest_the_unions() {
	let schema = IntOrRec::schema().expect("IntOrRec has a valid Avro schema");
	let json: serde_json::Value = serde_json::from_str(schema.json()).unwrap();
	assert_no_union_immediately_in_union(&json, schema.json());
}

/// Same thing seen from the user's side: a value of the type the schema was derived
/// from can't be written with that schema.
#[test]
fn option_of_the_union_being_built_round_trip() {
	let schema = IntOrRec::schema().expect("IntOrRec has a valid Avro schema");
	let value = IntOrRec::Rec(Rec {
		next: Some(Box::new(IntOrRec::Int(3))),
	});
	let serialized = serde_avro_fast::to_datum_vec(
		&value,
		&mut serde_avro_fast::ser::SerializerConfig::new(&schema),
	)
	.expect("an IntOrRec should serialize with the schema derived from IntOrRec");
	let back: IntOrRec = serde_avro_fast::from_datum_slice(&serialized, &schema).unwrap();
	assert_eq!(back, value);
}
