//! Review of 21d4e07 ("owned sub-nodes of generic records get the instantiation hash
//! when a namespace attribute is set"): integration test for
//! `serde_avro_derive/tests/`.
//!
//! Not caused by the commit (it fails the same way before it), but it is the same
//! defect - the fullname of a node owned by a record field is derived from the name of
//! the struct the field is declared in, and the same struct body can be instantiated
//! twice in one schema - through the one path that 21d4e07/719c13a leave alone:
//! `SchemaBuilder::build_duplicate`. A field with a `logical_type` attribute builds a
//! *duplicate* of its type's node and only renames the top node
//! (`build_logical_type` -> `name_override`); the nodes owned by the duplicated record's
//! own fields are built a second time under their original `<ns>.<Struct>.<field>`
//! fullname. The resulting schema defines that fullname twice and its JSON does not
//! parse back ("duplicate definitions"), the symptom both commits describe.

#![allow(unused)]

use serde_avro_derive::BuildSchema;

#[derive(BuildSchema)]
struct HasOwnedNode {
	#[avro_schema(logical_type = "duration")]
	ttl: [u8; 12],
}

#[derive(BuildSchema)]
struct UsesItTwice {
	plain: HasOwnedNode,
	#[avro_schema(logical_type = "my-logical-type")]
	annotated: HasOwnedNode,
}

#[test]
fn owned_sub_node_of_a_duplicated_record_is_not_defined_twice() {
	let schema = UsesItTwice::schema().expect("schema is valid");
	let res: Result<serde_avro_fast::Schema, _> = schema.json().parse();
	if let Err(e) = res {
		panic!(
			"the JSON of the derived schema does not parse back: {e}\n{}",
			schema.json()
		);
	}
}
