//! Review of 719c13a ("nodes owned by newtype structs and enum variants of generic
//! types get the instantiation hash"): integration test for `serde_avro_derive/tests/`.
//!
//! 21d4e07 and 719c13a make every named node that a generic *record*, *newtype struct*
//! or *union enum* produces carry the hash of the instantiation, so that two
//! instantiations in one schema do not define the same fullname twice. The remaining
//! kind of named node the derive produces was not touched: a generic enum whose
//! (non-skipped) variants are all unit variants becomes an Avro `enum` named
//! `ns.TypeName` whatever the generic arguments, while its `TypeLookup` is `Self`, so
//! two instantiations are two nodes with the same fullname and the schema JSON does not
//! parse back ("duplicate definitions"), exactly the symptom those commits describe.

#![allow(unused)]

use serde_avro_derive::BuildSchema;

fn json_parses_back<T: BuildSchema>() {
	let schema = T::schema().expect("schema is valid");
	let res: Result<serde_avro_fast::Schema, _> = schema.json().parse();
	if let Err(e) = res {
		panic!(
			"the JSON of the derived schema does not parse back: {e}\n{}",
			schema.json()
		);
	}
}

#[derive(BuildSchema)]
enum Unit<const N: usize> {
	A,
	B,
}

#[derive(BuildSchema)]
struct UsesTwoInstantiationsConst {
	a: Unit<1>,
	b: Unit<2>,
}

#[test]
fn two_instantiations_of_a_const_generic_unit_enum() {
	json_parses_back::<UsesTwoInstantiationsConst>();
}

#[derive(BuildSchema)]
enum Tagged<T: 'static> {
	A,
	B,
	#[avro_schema(skip)]
	_Marker(std::marker::PhantomData<T>),
}

#[derive(BuildSchema)]
struct UsesTwoInstantiationsType {
	a: Tagged<i32>,
	b: Tagged<String>,
}

#[test]
fn two_instantiations_of_a_generic_unit_enum_with_skipped_marker() {
	json_parses_back::<UsesTwoInstantiationsType>();
}
