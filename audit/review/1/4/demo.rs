//! Integration test for serde_avro_fast/tests/ (copy as serde_avro_fast/tests/review_demo_4.rs)
//!
//! REGRESSION introduced by f114223 "the unit variant named after the null branch
//! of a union is serialized as null".
//!
//! An enum of unit variants is serialized as an Avro string (or Avro enum) and an
//! `Option` of it as `["null", "string"]`. If one of the enum's variants happens
//! to be called `Null`, `Some(E::Null)` is now written as the null branch, i.e. it
//! reads back as `None`: silent data change. Before f114223 it was written as the
//! string "Null" and read back as `Some(E::Null)`.
//! (`Option::Some` is never supposed to select the null branch.)

use {
	serde_avro_fast::{from_datum_slice, ser::SerializerConfig, to_datum_vec, Schema},
	serde_derive::{Deserialize, Serialize},
};

/// e.g. a column constraint
#[derive(Serialize, Deserialize, Debug, PartialEq, Clone, Copy)]
enum Nullability {
	Null,
	NotNull,
}

#[derive(Serialize, Deserialize, Debug, PartialEq, Clone)]
struct Column {
	name: String,
	nullability: Option<Nullability>,
}

#[test]
fn some_of_unit_variant_named_null_is_not_none() {
	let schema: Schema = r#"["null","string"]"#.parse().unwrap();
	for value in [Some(Nullability::NotNull), None, Some(Nullability::Null)] {
		let bytes = to_datum_vec(&value, &mut SerializerConfig::new(&schema)).unwrap();
		let back: Option<Nullability> = from_datum_slice(&bytes, &schema).unwrap();
		assert_eq!(back, value, "serialized as {bytes:?}");
	}
}

#[test]
fn in_a_record() {
	let schema: Schema = r#"{"type":"record","name":"Column","fields":[
		{"name":"name","type":"string"},
		{"name":"nullability","type":["null","string"]}
	]}"#
	.parse()
	.unwrap();
	let value = Column {
		name: "a".to_owned(),
		nullability: Some(Nullability::Null),
	};
	let bytes = to_datum_vec(&value, &mut SerializerConfig::new(&schema)).unwrap();
	// That is what f114223~1 writes
	assert_eq!(bytes, [2, b'a', 2, 8, b'N', b'u', b'l', b'l']);
	let back: Column = from_datum_slice(&bytes, &schema).unwrap();
	assert_eq!(back, value);
}
