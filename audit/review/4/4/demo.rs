//! Integration test for serde_avro_fast/tests/
//!
//! 79827a3 is incomplete: "unions pick decimal branches for integers of every
//! size when serializing", and that is not only for `Option`: an integer that is
//! serialized under a union whose only numeric branch is a decimal is written to
//! that branch, but when it is read back the integer hint is lost while going
//! through the union (`deserialize_i32` -> `deserialize_any` on the union ->
//! `deserialize_any` on the decimal), so the decimal still comes as text.

use serde_avro_fast::{from_datum_slice, ser::SerializerConfig, to_datum_vec, Schema};

fn round_trip<T>(schema: &str, value: T)
where
	T: serde::Serialize + serde::de::DeserializeOwned + PartialEq + std::fmt::Debug,
{
	let schema: Schema = schema.parse().unwrap();
	let bytes = to_datum_vec(&value, &mut SerializerConfig::new(&schema)).unwrap();
	let back: T = from_datum_slice(&bytes, &schema).unwrap();
	assert_eq!(back, value);
}

const STRING_OR_BIG_DECIMAL: &str = r#"["string", {"type":"bytes","logicalType":"big-decimal"}]"#;
const STRING_OR_DECIMAL: &str =
	r#"["string", {"type":"bytes","logicalType":"decimal","precision":10,"scale":0}]"#;

#[test]
fn i32_under_union_with_big_decimal() {
	round_trip(STRING_OR_BIG_DECIMAL, 5_i32);
}

#[test]
fn u8_under_union_with_decimal() {
	round_trip(STRING_OR_DECIMAL, 5_u8);
}

#[test]
fn i64_under_union_with_big_decimal() {
	round_trip(STRING_OR_BIG_DECIMAL, 5_i64);
}

#[test]
fn integers_in_record_fields_under_union_with_decimal() {
	#[derive(serde_derive::Serialize, serde_derive::Deserialize, Debug, PartialEq)]
	struct R {
		a: i16,
		b: u32,
	}
	round_trip(
		r#"{"type":"record","name":"R","fields":[
			{"name":"a","type":["string", {"type":"bytes","logicalType":"big-decimal"}]},
			{"name":"b","type":["boolean", {"type":"bytes","logicalType":"decimal","precision":10,"scale":0}]}
		]}"#,
		R { a: -3, b: 7 },
	);
}
