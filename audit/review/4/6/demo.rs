//! Integration test for serde_avro_fast/tests/
//!
//! Regression of 04a55c8: in a union of more than two branches, what is in an
//! `Option` is deserialized by the wrapper that answers `deserialize_enum` with the
//! name of the schema type. Newtype structs used to leave that wrapper, now they
//! stay in it, so a newtype struct around an enum of unit variants that maps to
//! an Avro enum (or to a string) does not read back anymore: the wrapper proposes
//! the name of the Avro type ("AnEnum") as variant instead of the symbol.
//! The serializer writes these values, and they were read back before the commit.

use serde_avro_fast::{from_datum_slice, ser::SerializerConfig, to_datum_vec, Schema};

#[derive(serde_derive::Serialize, serde_derive::Deserialize, Debug, PartialEq)]
enum Suit {
	Hearts,
	Spades,
}
#[derive(serde_derive::Serialize, serde_derive::Deserialize, Debug, PartialEq)]
struct Wrapper(Suit);

#[derive(serde_derive::Serialize, serde_derive::Deserialize, Debug, PartialEq)]
struct Record {
	suit: Option<Wrapper>,
}

#[test]
fn option_of_newtype_struct_around_unit_enum_as_avro_enum() {
	let schema: Schema = r#"["null", "int", {"name":"Suit", "type": "enum", "symbols": ["Hearts", "Spades"]}]"#
		.parse()
		.unwrap();
	let value = Some(Wrapper(Suit::Spades));
	let bytes = to_datum_vec(&value, &mut SerializerConfig::new(&schema)).unwrap();
	// third branch, second symbol
	assert_eq!(bytes, [4, 2]);
	let back: Option<Wrapper> = from_datum_slice(&bytes, &schema).unwrap();
	assert_eq!(back, value);
}

#[test]
fn option_of_newtype_struct_around_unit_enum_as_string() {
	let schema: Schema = r#"{"type":"record","name":"Record","fields":[
		{"name":"suit","type":["null", "int", "string"]}
	]}"#
	.parse()
	.unwrap();
	let value = Record {
		suit: Some(Wrapper(Suit::Hearts)),
	};
	let bytes = to_datum_vec(&value, &mut SerializerConfig::new(&schema)).unwrap();
	let back: Record = from_datum_slice(&bytes, &schema).unwrap();
	assert_eq!(back, value);
}
