//! Integration test for serde_avro_fast/tests/
//!
//! 79827a3 is incomplete: integers are serialized to decimals of any scale
//! (5 is written as 5.00 under a scale of 2, also when the decimal is picked in a
//! union), but a decimal only deserializes as an integer when its scale is zero,
//! whichever the integer type: `Some(5_i32)` under `["null", decimal(6, 2)]` is
//! written but can not be read back ("invalid type: string "5.00", expected i32"),
//! which is the very round trip that the commit is about.

use serde_avro_fast::{from_datum_slice, ser::SerializerConfig, to_datum_vec, Schema};

fn round_trip<T>(schema: &str, value: T)
where
	T: serde::Serialize + serde::de::DeserializeOwned + PartialEq + std::fmt::Debug,
{
	let schema: Schema = schema.parse().unwrap();
	let bytes = to_datum_vec(&value, &mut SerializerConfig::new(&schema)).unwrap();
	let back: T = from_datum_slice(&bytes, &schema).unwrap();
	assert_eq!(back, value);
}

const OPTIONAL_DECIMAL: &str =
	r#"["null", {"type":"bytes","logicalType":"decimal","precision":6,"scale":2}]"#;

#[test]
fn option_i32_under_decimal_with_scale() {
	round_trip(OPTIONAL_DECIMAL, Some(5_i32));
}

#[test]
fn option_i64_under_decimal_with_scale() {
	round_trip(OPTIONAL_DECIMAL, Some(5_i64));
}

#[test]
fn u16_as_fixed_decimal_with_scale() {
	round_trip(
		r#"{"type":"fixed","name":"f","size":8,"logicalType":"decimal","precision":6,"scale":3}"#,
		12_u16,
	);
}
