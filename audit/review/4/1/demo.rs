//! Integration test for serde_avro_fast/tests/ (that crate has serde_avro_derive,
//! serde_derive, serde_json and apache-avro as dev-dependencies)
//!
//! 4741665 is incomplete: `Option<T>` still looks at the node of `T` as it is at
//! that point to know whether `T` is a union. When `T` is the type that is still
//! being built, its node is the (null) placeholder, so the union of `T` ends up
//! nested in the union of the `Option`.
use serde_avro_derive::BuildSchema;

#[derive(BuildSchema, serde_derive::Serialize, serde_derive::Deserialize, Debug, PartialEq)]
enum IntOrNode {
	Int(i32),
	Node(Box<Node>),
}
#[derive(BuildSchema, serde_derive::Serialize, serde_derive::Deserialize, Debug, PartialEq)]
struct Node {
	next: Option<IntOrNode>,
}

#[test]
fn option_of_union_that_is_still_being_built_does_not_nest_unions() {
	// Same types as in the message of 4741665, but the schema is asked for the enum
	let schema_json: serde_json::Value = serde_json::to_value(&IntOrNode::schema_mut()).unwrap();
	println!("{schema_json}");
	let next_type = &schema_json[1]["fields"][0]["type"];
	let variants = next_type.as_array().expect("Option should be a union");
	assert!(
		variants.iter().all(|v| !v.is_array()),
		"unions may not immediately contain other unions: {next_type}"
	);
}

#[test]
fn apache() {
	let s = serde_json::to_string(&IntOrNode::schema_mut()).unwrap();
	apache_avro::Schema::parse_str(&s).unwrap();
}

#[test]
fn some_serializes() {
	let schema = IntOrNode::schema().unwrap();
	let value = IntOrNode::Node(Box::new(Node {
		next: Some(IntOrNode::Int(3)),
	}));
	let bytes = serde_avro_fast::to_datum_vec(
		&value,
		&mut serde_avro_fast::ser::SerializerConfig::new(&schema),
	)
	.unwrap();
	let back: IntOrNode = serde_avro_fast::from_datum_slice(&bytes, &schema).unwrap();
	assert_eq!(back, value);
}
