//! Integration test for serde_avro_fast/tests/ (that crate has serde_avro_derive,
//! serde_json and apache-avro as dev-dependencies)
//!
//! Regression of 4741665: Option<T>, where the union of T has a null branch
//! whose node is not the node registered for `()` (here: a hand-written
//! `BuildSchema` impl that maps a marker type to `null`, which is what the
//! trait is documented to be for), used to be ["null", "int"] and now is
//! ["null", "null", "int"], which is not a valid union.

use serde_avro_derive::{BuildSchema, SchemaBuilder};

/// A type of our own that is represented as `null`
struct Nothing;
impl BuildSchema for Nothing {
	fn append_schema(builder: &mut SchemaBuilder) {
		builder
			.nodes
			.push(serde_avro_fast::schema::RegularType::Null.into());
	}
	type TypeLookup = Self;
}

#[derive(BuildSchema)]
#[allow(unused)]
enum NothingOrInt {
	Nothing(Nothing),
	Int(i32),
}

#[derive(BuildSchema)]
#[allow(unused)]
struct Holder {
	f: Option<NothingOrInt>,
}

#[test]
fn option_of_union_with_its_own_null_has_a_single_null() {
	// The union itself is fine
	assert_eq!(
		serde_json::to_string(&NothingOrInt::schema_mut()).unwrap(),
		r#"["null","int"]"#
	);

	let schema_json = serde_json::to_value(&Holder::schema_mut()).unwrap();
	let union = schema_json["fields"][0]["type"]
		.as_array()
		.expect("Option should be a union")
		.clone();
	// "Unions may not contain more than one schema with the same type, except for
	// the named types record, fixed and enum"
	assert_eq!(
		union.iter().filter(|v| *v == "null").count(),
		1,
		"got {union:?}"
	);
	// (that is what it was before 4741665)
	assert_eq!(union, ["null", "int"]);
}

#[test]
fn other_implementations_accept_the_schema() {
	let schema_str = serde_json::to_string(&Holder::schema_mut()).unwrap();
	apache_avro::Schema::parse_str(&schema_str).unwrap();
}
