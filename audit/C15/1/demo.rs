//! C15 demo 1 - goes in serde_avro_fast/tests/
//!
//! A value whose serialization does not complete (here: the `Serialize` impl of
//! one of its fields panics after an earlier field was already encoded) must
//! contribute no bytes to the file. `Writer`'s `Drop` impl however flushes the
//! current block while unwinding, and that block's buffer still contains the
//! partially-encoded value, so the bytes delivered to the sink are not a valid
//! object container file anymore.

use {
	serde_avro_fast::{
		object_container_file_encoding::{Reader, WriterBuilder},
		ser::SerializerConfig,
		Schema,
	},
	std::{
		io::Write,
		sync::{Arc, Mutex},
	},
};

#[derive(Clone, Default)]
struct SharedSink(Arc<Mutex<Vec<u8>>>);
impl Write for SharedSink {
	fn write(&mut self, buf: &[u8]) -> std::io::Result<usize> {
		self.0.lock().unwrap().extend_from_slice(buf);
		Ok(buf.len())
	}
	fn flush(&mut self) -> std::io::Result<()> {
		Ok(())
	}
}

/// Some user type whose `Serialize` impl panics (index out of bounds, unwrap
/// on None in a `serialize_with`, ...)
struct Panics;
impl serde::Serialize for Panics {
	fn serialize<S: serde::Serializer>(&self, _: S) -> Result<S::Ok, S::Error> {
		panic!("bug in user Serialize impl")
	}
}

#[derive(serde_derive::Serialize)]
struct Rec<B> {
	a: i64,
	b: B,
}

const SCHEMA: &str = r#"{"type":"record","name":"R","fields":[
	{"name":"a","type":"long"},
	{"name":"b","type":"string"}
]}"#;

#[test]
fn value_whose_serialization_panics_leaves_no_bytes_in_file() {
	let schema: Schema = SCHEMA.parse().unwrap();
	let sink = SharedSink::default();

	let header_len;
	{
		let sink = sink.clone();
		let schema = &schema;
		let mut config = SerializerConfig::new(schema);
		let mut writer = WriterBuilder::new(&mut config).build(sink.clone()).unwrap();
		header_len = sink.0.lock().unwrap().len();
		writer.serialize(Rec { a: 1, b: "x" }).unwrap();
		let res = std::panic::catch_unwind(std::panic::AssertUnwindSafe(move || {
			let mut writer = writer;
			// `a` gets encoded in the block buffer, then serializing `b` panics.
			// `writer` is dropped during unwinding.
			let _ = writer.serialize(Rec {
				a: 123456789,
				b: Panics,
			});
		}));
		assert!(res.is_err());
	}

	let file = sink.0.lock().unwrap().clone();

	// What the only successfully serialized value looks like
	let expected_datum =
		serde_avro_fast::to_datum_vec(&Rec { a: 1, b: "x" }, &mut SerializerConfig::new(&schema))
			.unwrap();

	// Independent check: the only block must be {count: 1, size: len(datum), datum,
	// sync}
	let mut expected_block = vec![2u8 /* zigzag(1) */, (expected_datum.len() as u8) << 1];
	expected_block.extend_from_slice(&expected_datum);
	expected_block.extend_from_slice(&file[header_len - 16..header_len]); // sync marker
	assert_eq!(
		&file[header_len..],
		&expected_block[..],
		"The block that was written on drop contains bytes of the value whose serialization did not complete"
	);

	// Check with the crate's own reader
	let mut reader = Reader::from_slice(&file).unwrap();
	let got: Vec<serde_json::Value> = reader
		.deserialize()
		.collect::<Result<_, _>>()
		.expect("File written by Writer should be a valid object container file");
	assert_eq!(got, vec![serde_json::json!({"a": 1, "b": "x"})]);
}
