//! C15 demo 3 - goes in serde_avro_fast/tests/
//!
//! `WriterBuilder::build_with_user_metadata` accepts user metadata whose keys
//! are in the `avro.` namespace that the specification reserves for the
//! writer itself (`avro.schema`, `avro.codec`). The entries are appended to the
//! header map *in addition* to the ones the writer emits, so the header ends
//! up with two `avro.codec` (or `avro.schema`) entries: the call returns `Ok`
//! but the bytes delivered to the sink are not a valid object container file
//! (this crate's own `Reader` rejects the header, other readers pick the last
//! entry and decode the blocks with the wrong codec / schema).
//!
//! (The Java implementation and apache-avro for Rust both refuse user metadata
//! keys that start with `avro.`)

use {
	serde_avro_fast::{
		object_container_file_encoding::{Compression, Reader, WriterBuilder},
		ser::SerializerConfig,
		Schema,
	},
	std::collections::BTreeMap,
};

fn check(user_metadata: BTreeMap<&str, &str>) {
	let schema: Schema = r#""long""#.parse().unwrap();
	let mut config = SerializerConfig::new(&schema);
	let mut writer = match WriterBuilder::new(&mut config)
		.compression(Compression::Null)
		.build_with_user_metadata(Vec::new(), user_metadata)
	{
		Err(_) => {
			// Refusing reserved keys is fine: nothing invalid was produced
			return;
		}
		Ok(writer) => writer,
	};

	// `build` returned without error: from now on what the sink got must always be
	// a valid file
	Reader::from_slice(writer.inner()).expect("Header that was written should be valid");

	writer.serialize(5i64).unwrap();
	writer.serialize(6i64).unwrap();
	let file: Vec<u8> = writer.into_inner().unwrap();

	// This crate's reader
	let mut reader =
		Reader::from_slice(&file).expect("File that was written should have a valid header");
	assert_eq!(
		reader
			.deserialize::<i64>()
			.collect::<Result<Vec<_>, _>>()
			.expect("File that was written should be valid"),
		[5, 6]
	);

	// Independent reader
	let values = apache_avro::Reader::new(&file[..])
		.expect("File that was written should have a valid header (apache-avro)")
		.collect::<Result<Vec<_>, _>>()
		.expect("File that was written should be valid (apache-avro)");
	assert_eq!(
		values,
		[
			apache_avro::types::Value::Long(5),
			apache_avro::types::Value::Long(6)
		]
	);
}

#[test]
fn user_metadata_overriding_codec() {
	check([("avro.codec", "deflate")].into_iter().collect());
}

#[test]
fn user_metadata_overriding_schema() {
	check([("avro.schema", r#""string""#)].into_iter().collect());
}

#[test]
fn regular_user_metadata_is_fine() {
	check([("my.key", "value")].into_iter().collect());
}
