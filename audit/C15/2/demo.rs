//! C15 demo 2 - goes in serde_avro_fast/tests/
//!
//! When the sink returns an error in the middle of flushing a finished block
//! (after it already accepted the first bytes of that block), the `Writer`
//! keeps the block as "pending" and re-sends it *from its first byte* the next
//! time any method is called (`serialize`, `finish_block`, `into_inner`, and
//! even `Drop`). That call returns `Ok(())`, but the sink has now received the
//! first bytes of the block twice, so what was delivered to the sink is not a
//! valid object container file anymore.

use {
	serde_avro_fast::{
		object_container_file_encoding::{Reader, WriterBuilder},
		ser::SerializerConfig,
		Schema,
	},
	std::{
		cell::{Cell, RefCell},
		io::Write,
		rc::Rc,
	},
};

/// A sink that fails exactly once (transient error: write timeout on a socket,
/// `ENOSPC` before some space gets freed...), on the n-th call to `write`.
#[derive(Clone, Default)]
struct FlakySink {
	data: Rc<RefCell<Vec<u8>>>,
	fail_in_n_writes: Rc<Cell<Option<u32>>>,
}
impl Write for FlakySink {
	fn write(&mut self, buf: &[u8]) -> std::io::Result<usize> {
		match self.fail_in_n_writes.get() {
			Some(0) => {
				self.fail_in_n_writes.set(None);
				return Err(std::io::Error::new(
					std::io::ErrorKind::TimedOut,
					"transient error",
				));
			}
			Some(n) => self.fail_in_n_writes.set(Some(n - 1)),
			None => {}
		}
		self.data.borrow_mut().extend_from_slice(buf);
		Ok(buf.len())
	}
	fn flush(&mut self) -> std::io::Result<()> {
		Ok(())
	}
}

fn read_all(file: &[u8]) -> Vec<String> {
	let mut reader = Reader::from_slice(file).expect("header should be valid");
	reader
		.deserialize()
		.collect::<Result<_, _>>()
		.expect("Bytes delivered to the sink should be a valid object container file")
}

#[test]
fn explicit_retry_after_transient_sink_error() {
	let schema: Schema = r#""string""#.parse().unwrap();
	let mut config = SerializerConfig::new(&schema);
	let sink = FlakySink::default();
	let mut writer = WriterBuilder::new(&mut config)
		.approx_block_size(0) // one block per value, to keep the example small
		.build(sink.clone())
		.unwrap();

	writer.serialize("first").unwrap();
	assert_eq!(read_all(&sink.data.borrow()), ["first"]);

	// The sink will accept one `write` (the block header) then fail the next one
	sink.fail_in_n_writes.set(Some(1));
	writer
		.serialize("second")
		.expect_err("sink error should be reported");

	// Sink works again. This is documented to guarantee that "all bytes written so
	// far amount to a valid object container file" if it returns no error
	writer.finish_block().unwrap();
	let got = read_all(&sink.data.borrow());
	assert!(got == ["first"] || got == ["first", "second"], "{got:?}");

	writer.serialize("third").unwrap();
	let file = writer.into_inner().unwrap();
	let got = read_all(&file.data.borrow());
	assert!(
		got == ["first", "third"] || got == ["first", "second", "third"],
		"{got:?}"
	);
}

#[test]
fn implicit_retry_on_drop_after_transient_sink_error() {
	let schema: Schema = r#""string""#.parse().unwrap();
	let mut config = SerializerConfig::new(&schema);
	let sink = FlakySink::default();
	let mut writer = WriterBuilder::new(&mut config)
		.approx_block_size(0)
		.build(sink.clone())
		.unwrap();

	writer.serialize("first").unwrap();
	sink.fail_in_n_writes.set(Some(1));
	writer
		.serialize("second")
		.expect_err("sink error should be reported");
	// User gives up on error (typically `?`), which drops the writer.
	// Drop re-sends the pending block from its first byte.
	drop(writer);

	let got = read_all(&sink.data.borrow());
	assert!(got == ["first"] || got == ["first", "second"], "{got:?}");
}
