//! Derive corpus for C20: one type per supported shape of `#[derive(BuildSchema)]`.
//! Nothing here is ever executed: the fact extractor dumps the MIR of the *generated* `append_schema` bodies
//! and savf/rules/c20.py checks ordering / naming / arity rules on them (see DESIGN.md, C20 "GEN" rules).
#![allow(unused)]
use serde_avro_derive::BuildSchema;

// ---- named structs
#[derive(BuildSchema)]
struct Plain {
	pub a: i32,
	pub b: String,
	pub c: Vec<u8>,
	pub d: Option<Box<Plain>>,
	pub r#type: u32,
	#[avro_schema(skip)]
	pub skipped: f64,
}

#[derive(BuildSchema)]
struct Borrowed<'a> {
	pub s: &'a str,
	pub b: &'a [u8],
	pub n: &'a Plain,
}

#[derive(BuildSchema)]
#[avro_schema(namespace = "my.ns", name = "Renamed")]
struct WithNamespace {
	pub a: std::sync::Arc<Plain>,
	#[avro_schema(logical_type = "decimal", scale = 2, precision = 10)]
	pub dec: Vec<u8>,
	#[avro_schema(logical_type = "duration", has_same_type_as = "[u8; 12]")]
	pub ttl: [u8; 12],
}

#[derive(BuildSchema)]
#[avro_schema(namespace = "")]
struct EmptyNamespace {
	pub a: i64,
	#[avro_schema(logical_type = "decimal", scale = 1, precision = 5, has_same_type_as = "[u8; 8]")]
	pub dec: [u8; 8],
}

#[derive(BuildSchema)]
struct Logical {
	#[avro_schema(logical_type = "uuid")]
	pub id: String,
	#[avro_schema(logical_type = "timestamp-millis")]
	pub ts: i64,
	#[avro_schema(logical_type = "date")]
	pub day: i32,
	#[avro_schema(logical_type = "time-millis")]
	pub tod_ms: i32,
	#[avro_schema(logical_type = "time-micros")]
	pub tod_us: i64,
	#[avro_schema(logical_type = "timestamp-micros")]
	pub ts_us: i64,
	// (declared with another Rust type: the macro makes the node the primitive the logical type annotates)
	#[avro_schema(logical_type = "time-micros")]
	pub tod_us_wrapped: std::time::Duration,
	#[avro_schema(logical_type = "custom-thing")]
	pub custom: Plain,
	#[avro_schema(logical_type = "duration", has_same_type_as = "[u8; 12]")]
	pub ttl: [u8; 12],
	pub raw: Vec<u8>,
	pub plain: Plain,
}

// ---- newtype structs
#[derive(BuildSchema)]
struct Forward(pub u64);

#[derive(BuildSchema)]
struct ForwardBox(pub Box<Plain>);

#[derive(BuildSchema)]
struct NewFixed(pub [u8; 4]);

#[derive(BuildSchema)]
#[avro_schema(namespace = "fx.ns")]
struct NewFixedNs(pub [u8; 6]);

#[derive(BuildSchema)]
struct NewLogical(#[avro_schema(logical_type = "duration", has_same_type_as = "[u8; 12]")] pub [u8; 12]);

// ---- enums
#[derive(BuildSchema)]
enum UnitOnly {
	A,
	B,
	#[avro_schema(skip)]
	Hidden,
	C,
}

#[derive(BuildSchema)]
enum Mixed {
	V4([u8; 4]),
	V6([u8; 16]),
	Name(String),
	Nothing,
	Rec(Plain),
	#[avro_schema(skip)]
	Hidden(f32),
}

#[derive(BuildSchema)]
#[avro_schema(namespace = "en.ns")]
enum MixedNs {
	V4([u8; 4]),
	Num(i64),
}

// ---- generics
#[derive(BuildSchema)]
struct Gen<T> {
	pub inner: T,
	pub list: Vec<T>,
	#[avro_schema(logical_type = "duration", has_same_type_as = "[u8; 12]")]
	pub ttl: [u8; 12],
}

#[derive(BuildSchema)]
#[avro_schema(namespace = "gen.ns")]
struct GenNs<T> {
	pub inner: T,
	#[avro_schema(logical_type = "duration", has_same_type_as = "[u8; 12]")]
	pub ttl: [u8; 12],
}

#[derive(BuildSchema)]
struct GenConst<const N: usize> {
	pub data: [u8; N],
	pub n: i32,
}

#[derive(BuildSchema)]
struct GenLifetime<'a, T> {
	pub inner: &'a T,
	pub name: &'a str,
}

#[derive(BuildSchema)]
enum GenEnum<T> {
	V4([u8; 4]),
	Other(T),
	Nothing,
}

#[derive(BuildSchema)]
#[avro_schema(namespace = "gen.en")]
enum GenEnumNs<T> {
	V4([u8; 4]),
	Other(T),
}

#[derive(BuildSchema)]
struct GenNew<T>(pub T);

#[derive(BuildSchema)]
struct GenNewLogical<T>(#[avro_schema(logical_type = "custom", has_same_type_as = "T")] pub T);

#[derive(BuildSchema)]
struct Root {
	pub a: Gen<i32>,
	pub b: Gen<String>,
	pub c: GenNs<i32>,
	pub d: GenNs<Plain>,
	pub e: GenEnum<i32>,
	pub f: GenEnum<String>,
	pub f2: GenEnumNs<i64>,
	pub g: GenConst<3>,
	pub h: GenConst<5>,
	pub i: std::collections::HashMap<String, Mixed>,
	pub j: std::rc::Rc<Logical>,
}
