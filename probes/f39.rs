//! Integration test for serde_avro_fast/tests/ (copy as serde_avro_fast/tests/review_demo_5.rs)
//!
//! REGRESSION introduced by da0c3d0 "register the Duration type name in the union
//! per-name lookup".
//!
//! `register_type_name` inserts in the same map as `register_name` and the last
//! one wins. "Duration" is a very plausible name for a user record: in a union
//! that has a record named `Duration` followed by a `duration` logical type, the
//! name "Duration" now designates the logical type, so the Rust struct `Duration`
//! (and the enum variant `Duration(..)`) which were routed by name to the record
//! before da0c3d0 now fail to serialize.

use {
	serde_avro_fast::{from_datum_slice, ser::SerializerConfig, to_datum_vec, Schema},
	serde_derive::{Deserialize, Serialize},
};

#[derive(Serialize, Deserialize, Debug, PartialEq, Clone)]
struct Duration {
	secs: i64,
}

#[derive(Serialize, Deserialize, Debug, PartialEq, Clone)]
struct CalendarDuration {
	months: u32,
	days: u32,
	milliseconds: u32,
}

#[derive(Serialize, Deserialize, Debug, PartialEq, Clone)]
enum Either {
	/// Named after the record (that's the name the deserializer proposes for it)
	Duration(Duration),
	#[serde(rename = "CalendarDuration")]
	Calendar(CalendarDuration),
}

const SCHEMA: &str = r#"[
	{"type":"record","name":"Duration","fields":[{"name":"secs","type":"long"}]},
	{"type":"fixed","name":"CalendarDuration","size":12,"logicalType":"duration"}
]"#;

#[test]
fn struct_named_like_the_record_goes_to_the_record() {
	let schema: Schema = SCHEMA.parse().unwrap();
	let value = Duration { secs: 3 };
	let bytes = to_datum_vec(&value, &mut SerializerConfig::new(&schema))
		.expect("serialized fine before da0c3d0");
	assert_eq!(bytes, [0, 6]);
	assert_eq!(from_datum_slice::<Duration>(&bytes, &schema).unwrap(), value);
}

#[test]
fn enum_variant_named_like_the_record_goes_to_the_record() {
	let schema: Schema = SCHEMA.parse().unwrap();
	let value = Either::Duration(Duration { secs: 3 });
	let bytes = to_datum_vec(&value, &mut SerializerConfig::new(&schema))
		.expect("serialized fine before da0c3d0");
	assert_eq!(bytes, [0, 6]);
	// The deserializer proposes the record's name for the record
	assert_eq!(from_datum_slice::<Either>(&bytes, &schema).unwrap(), value);
}
