//! Integration test for serde_avro_fast/tests/ (copy as serde_avro_fast/tests/review_demo_3.rs)
//!
//! Commit 1245c94 "a decimal with more fractional digits than the schema scale is
//! an error" compares the number after `rescale` with the number before it, but
//! "the number before" is what `str::parse::<rust_decimal::Decimal>()` returned,
//! and that already rounds to 28 fractional digits. Anything beyond the 28th
//! fractional digit is silently dropped before the check: Ok, with bytes that
//! decode to another number (exactly what the commit says is an error).
//! Same for f64 since 0a3be9a (they go through `to_string().parse()`).

use serde_avro_fast::{from_datum_slice, ser::SerializerConfig, to_datum_vec, Schema};

fn schema() -> Schema {
	r#"{"type":"bytes","logicalType":"decimal","precision":4,"scale":1}"#
		.parse()
		.unwrap()
}

fn assert_exact_or_error(given: &str) {
	let schema = schema();
	match to_datum_vec(given, &mut SerializerConfig::new(&schema)) {
		Err(_) => {} // That's what 1245c94 promises
		Ok(bytes) => {
			let written: String = from_datum_slice(&bytes, &schema).unwrap();
			panic!(
				"{given} has more fractional digits than the schema scale (1) allows, \
					but was serialized Ok as {bytes:?}, which decodes to {written}"
			);
		}
	}
}

#[test]
fn sanity_what_1245c94_fixed() {
	assert_exact_or_error("1.25");
	assert_exact_or_error("0.04");
	let schema = schema();
	// trailing zeroes still scale away
	assert_eq!(
		to_datum_vec("1.20", &mut SerializerConfig::new(&schema)).unwrap(),
		[2, 12]
	);
}

#[test]
fn str_with_29_fractional_digits() {
	// 1.2 + 4e-29
	assert_exact_or_error("1.20000000000000000000000000004");
}

#[test]
fn str_tiny() {
	// 1e-29: written as 0.0
	assert_exact_or_error("0.00000000000000000000000000001");
}

#[test]
fn f64_tiny() {
	let schema = schema();
	// 1e-29_f64 is not zero, and has (many) more than one fractional digit
	let res = to_datum_vec(&1e-29_f64, &mut SerializerConfig::new(&schema));
	assert!(
		res.is_err(),
		"1e-29 was serialized Ok as {:?} under decimal(4, 1), which decodes to {:?}",
		res.as_ref().unwrap(),
		from_datum_slice::<String>(res.as_ref().unwrap(), &schema)
	);
}
