//! C11 demo 2: a container file whose last block is cut short (e.g. interrupted download).
//!
//! From a slice, `SliceRead::take` checks the announced block size against the remaining
//! input up front, so the first `deserialize_next` of that block already fails.
//! From a reader, `ReaderRead::take` wraps the input in a lazy `std::io::Take`, so all
//! the objects that are physically present in the truncated block are yielded as `Ok`
//! before an error shows up.
//! Same bytes, different outcome (`Err` vs `Ok(value)`) for the same call.
//!
//! Put this file in serde_avro_fast/tests/ and run
//! `cargo test -p serde_avro_fast --test demo`.

use serde_avro_fast::{
	object_container_file_encoding::{Compression, Reader, WriterBuilder},
	ser::SerializerConfig,
	Schema,
};

/// Outcome of each successive `deserialize_next` call (error text dropped: only
/// "value or error" matters), up to and including the first `Ok(None)`
fn outcomes<'de, R>(mut reader: Reader<R>) -> Vec<Result<Option<i64>, ()>>
where
	R: serde_avro_fast::de::read::take::Take
		+ serde_avro_fast::de::read::Read
		+ std::io::BufRead
		+ serde_avro_fast::de::read::ReadSlice<'de>,
	<R as serde_avro_fast::de::read::take::Take>::Take:
		std::io::BufRead + serde_avro_fast::de::read::ReadSlice<'de>,
{
	let mut out = Vec::new();
	for _ in 0..10 {
		let res = reader.deserialize_next::<i64>().map_err(|e| {
			println!("   error: {e:?}");
		});
		let done = matches!(res, Ok(None));
		out.push(res);
		if done {
			break;
		}
	}
	out
}

#[test]
fn truncated_block_slice_vs_reader() {
	let schema: Schema = r#""long""#.parse().unwrap();
	let mut config = SerializerConfig::new(&schema);
	let mut writer = WriterBuilder::new(&mut config)
		.compression(Compression::Null)
		.build(Vec::new())
		.unwrap();
	writer.serialize_all([1i64, 2, 3, 4, 5].iter()).unwrap();
	let full_file: Vec<u8> = writer.into_inner().unwrap();

	// Sanity: the complete file reads the same both ways
	let a = outcomes(Reader::from_slice(&full_file).unwrap());
	let b = outcomes(Reader::from_reader(&*full_file).unwrap());
	assert_eq!(a, b);
	assert_eq!(a.len(), 6);

	// Cut the file inside its only block: drop the 16-byte sync marker and the last 2 objects
	let truncated = &full_file[..full_file.len() - 16 - 2];

	println!("slice:");
	let from_slice = outcomes(Reader::from_slice(truncated).unwrap());
	println!(" => {from_slice:?}");
	println!("reader:");
	let from_reader = outcomes(Reader::from_reader(truncated).unwrap());
	println!(" => {from_reader:?}");

	assert_eq!(
		from_slice, from_reader,
		"slice input (left) and reader input (right) must give the same outcomes for the same bytes"
	);
}
