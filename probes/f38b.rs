//! Integration test for serde_avro_fast/tests/ (copy as serde_avro_fast/tests/review_demo_2.rs)
//!
//! Commit 0f3acf9 "deserialize newtype structs as the value they contain":
//! `FavorSchemaTypeNameIfEnumHintDatumDeserializer` (the deserializer handed to
//! `visit_some` when an `Option` is read from a union that is not exactly
//! `[null, T]`) forwards `deserialize_newtype_struct` to the inner
//! `DatumDeserializer`, which calls `visit_newtype_struct(self)` with the *inner*
//! deserializer: the "favor the schema type name if an enum is asked for" behavior
//! is lost on the way. `Option<Enum>` reads back, `Option<Newtype(Enum)>` does not,
//! although the serializer writes the exact same bytes for both.

use {
	serde_avro_fast::{from_datum_slice, ser::SerializerConfig, to_datum_vec, Schema},
	serde_derive::{Deserialize, Serialize},
};

#[derive(Serialize, Deserialize, Debug, PartialEq, Clone)]
enum StringOrInt {
	String(String),
	Int(i32),
}

#[derive(Serialize, Deserialize, Debug, PartialEq, Clone)]
struct Wrapper(StringOrInt);

#[test]
fn option_of_newtype_struct_of_enum_round_trips() {
	let schema: Schema = r#"["null","string","int"]"#.parse().unwrap();

	let plain = Some(StringOrInt::String("a".to_owned()));
	let wrapped = Some(Wrapper(StringOrInt::String("a".to_owned())));

	let plain_bytes = to_datum_vec(&plain, &mut SerializerConfig::new(&schema)).unwrap();
	let wrapped_bytes = to_datum_vec(&wrapped, &mut SerializerConfig::new(&schema)).unwrap();
	// Newtype structs are serialized as the value they contain
	assert_eq!(plain_bytes, wrapped_bytes);
	assert_eq!(plain_bytes, [2, 2, b'a']);

	// Without the newtype struct this reads back
	assert_eq!(
		from_datum_slice::<Option<StringOrInt>>(&plain_bytes, &schema).unwrap(),
		plain
	);
	// ... so "that's also how they deserialize" (0f3acf9)
	assert_eq!(
		from_datum_slice::<Option<Wrapper>>(&wrapped_bytes, &schema)
			.expect("what this crate serialized could not be deserialized"),
		wrapped
	);
}
