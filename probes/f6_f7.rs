// Probes for findings F6 / F7 (C05): bzip2 and xz blocks whose compressed form exceeds the 32 KiB start buffer.
// Run with: cargo test --offline -p serde_avro_fast --features bzip2,xz --test zz_probe
#![cfg(all(feature = "bzip2", feature = "xz"))]
use serde_avro_fast::{
	object_container_file_encoding::{Compression, CompressionLevel, Reader, WriterBuilder},
	ser::SerializerConfig,
	Schema,
};

fn incompressible(n: usize, seed: u64) -> Vec<u8> {
	// xorshift: incompressible enough
	let mut s = seed;
	(0..n)
		.map(|_| {
			s ^= s << 13;
			s ^= s >> 7;
			s ^= s << 17;
			(s >> 24) as u8
		})
		.collect()
}

fn round_trip(compression: Compression, sizes: &[usize]) {
	let schema: Schema = r#""bytes""#.parse().unwrap();
	let values: Vec<serde_bytes::ByteBuf> =
		sizes.iter().enumerate().map(|(i, &n)| serde_bytes::ByteBuf::from(incompressible(n, 88172645463325252 + i as u64))).collect();
	let mut config = SerializerConfig::new(&schema);
	let mut w = WriterBuilder::new(&mut config).compression(compression).approx_block_size(1 << 30).build(Vec::new()).unwrap();
	for v in &values {
		w.serialize(v).unwrap_or_else(|e| panic!("{compression:?} {sizes:?}: serialize failed: {e}"));
	}
	let file = w.into_inner().unwrap_or_else(|e| panic!("{compression:?} {sizes:?}: writing failed: {e}"));
	let mut r = Reader::from_slice(&file).unwrap();
	let back: Vec<serde_bytes::ByteBuf> = r.deserialize().collect::<Result<_, _>>().unwrap_or_else(|e| panic!("{compression:?} {sizes:?}: reading back failed: {e}"));
	assert_eq!(back, values);
}

#[test]
fn f6_bzip2_block_larger_than_start_buffer() {
	for sizes in [&[40_000usize, 40_000, 40_000][..], &[200_000], &[33_000], &[1_000_000]] {
		round_trip(Compression::Bzip2 { level: CompressionLevel::default() }, sizes);
	}
}

#[test]
fn f7_xz_block_larger_than_start_buffer() {
	for sizes in [&[40_000usize][..], &[33_000], &[200_000, 5], &[1_000_000]] {
		round_trip(Compression::Xz { level: CompressionLevel::default() }, sizes);
	}
}
