// Probe for candidate finding F10 (C05): values with a zero-byte encoding under a compressing codec.
use serde_avro_fast::{
	object_container_file_encoding::{Compression, CompressionLevel, Reader, WriterBuilder},
	ser::SerializerConfig,
	Schema,
};

fn round_trip(compression: Compression, n: usize) -> Result<usize, String> {
	let schema: Schema = r#""null""#.parse().unwrap();
	let mut config = SerializerConfig::new(&schema);
	let mut w = WriterBuilder::new(&mut config).compression(compression).build(Vec::new()).map_err(|e| e.to_string())?;
	for _ in 0..n {
		w.serialize(()).map_err(|e| format!("serialize: {e}"))?;
	}
	let file = w.into_inner().map_err(|e| format!("into_inner: {e}"))?;
	let mut r = Reader::from_slice(&file).map_err(|e| format!("open: {e}"))?;
	let back: Vec<()> = r.deserialize().collect::<Result<_, _>>().map_err(|e| format!("read back: {e}"))?;
	let mut r2 = Reader::from_reader(std::io::BufReader::new(&file[..])).map_err(|e| format!("open: {e}"))?;
	let back2: Vec<()> = r2.deserialize().collect::<Result<_, _>>().map_err(|e| format!("read back (reader): {e}"))?;
	assert_eq!(back.len(), back2.len());
	Ok(back.len())
}

#[test]
fn f10_zero_size_values_null_codec() {
	assert_eq!(round_trip(Compression::Null, 3), Ok(3));
}

#[test]
#[cfg(feature = "deflate")]
fn f10_zero_size_values_deflate() {
	assert_eq!(round_trip(Compression::Deflate { level: CompressionLevel::default() }, 3), Ok(3));
}

#[test]
#[cfg(feature = "snappy")]
fn f10_zero_size_values_snappy() {
	assert_eq!(round_trip(Compression::Snappy, 3), Ok(3));
}

#[test]
#[cfg(feature = "bzip2")]
fn f10_zero_size_values_bzip2() {
	assert_eq!(round_trip(Compression::Bzip2 { level: CompressionLevel::default() }, 3), Ok(3));
}

#[test]
#[cfg(feature = "xz")]
fn f10_zero_size_values_xz() {
	assert_eq!(round_trip(Compression::Xz { level: CompressionLevel::default() }, 3), Ok(3));
}

#[test]
#[cfg(feature = "zstandard")]
fn f10_zero_size_values_zstd() {
	assert_eq!(round_trip(Compression::Zstandard { level: CompressionLevel::default() }, 3), Ok(3));
}
