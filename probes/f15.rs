//! F15 probe: a recursive type used as the ROOT of the derived schema is defined twice
use serde_avro_derive::BuildSchema;

#[derive(BuildSchema)]
#[allow(dead_code)]
struct Node {
	value: i32,
	next: Option<Box<Node>>,
}

#[derive(BuildSchema)]
#[allow(dead_code)]
struct Tree {
	children: Vec<Tree>,
}

#[derive(BuildSchema)]
#[allow(dead_code)]
struct Holder {
	node: Node,
}

/// Number of record definitions whose name (with or without namespace) is `name`
fn definitions_of(json: &str, name: &str) -> usize {
	json.matches(&format!(".{name}\",\"fields\""))
		.count() + json.matches(&format!("\"name\":\"{name}\",\"fields\"")).count()
}

#[test]
fn recursive_root_is_defined_once() {
	let schema_mut = Node::schema_mut();
	let json = serde_json::to_string(&schema_mut).unwrap();
	println!("{json}");
	assert_eq!(definitions_of(&json, "Node"), 1, "{json}");
	// and the schema text parses back
	let _: serde_avro_fast::Schema = json.parse().unwrap();
}

#[test]
fn recursive_root_through_vec_is_defined_once() {
	let json = serde_json::to_string(&Tree::schema_mut()).unwrap();
	println!("{json}");
	assert_eq!(definitions_of(&json, "Tree"), 1, "{json}");
	let _: serde_avro_fast::Schema = json.parse().unwrap();
}

#[test]
fn control_recursive_type_below_the_root_is_defined_once() {
	let json = serde_json::to_string(&Holder::schema_mut()).unwrap();
	assert_eq!(definitions_of(&json, "Node"), 1, "{json}");
	let _: serde_avro_fast::Schema = json.parse().unwrap();
}
