// Probes for findings F8 / F9 (C19). F9 is expected to overflow the stack on the pinned tree: run it alone.
use serde_avro_fast::schema::*;

#[test]
fn f8_unnamed_cycle_is_an_error_not_a_stack_overflow() {
	for node in [
		RegularType::Array(Array::new(SchemaKey::from_idx(0))),
		RegularType::Map(Map::new(SchemaKey::from_idx(0))),
		RegularType::Union(Union::new(vec![SchemaKey::from_idx(0)])),
	] {
		let s = SchemaMut::from_nodes(vec![SchemaNode::new(node)]);
		assert!(s.canonical_form_rabin_fingerprint().is_err());
		assert!(s.freeze().is_err());
	}
	// two-node unnamed cycle
	let s = SchemaMut::from_nodes(vec![
		SchemaNode::new(RegularType::Array(Array::new(SchemaKey::from_idx(1)))),
		SchemaNode::new(RegularType::Map(Map::new(SchemaKey::from_idx(0)))),
	]);
	assert!(s.freeze().is_err());
	// sharing an unnamed node is not a cycle
	let s = SchemaMut::from_nodes(vec![
		SchemaNode::new(RegularType::Union(Union::new(vec![SchemaKey::from_idx(1), SchemaKey::from_idx(2)]))),
		SchemaNode::new(RegularType::Array(Array::new(SchemaKey::from_idx(3)))),
		SchemaNode::new(RegularType::Map(Map::new(SchemaKey::from_idx(3)))),
		SchemaNode::new(RegularType::Array(Array::new(SchemaKey::from_idx(4)))),
		SchemaNode::new(RegularType::Int),
	]);
	let fp = s.canonical_form_rabin_fingerprint().unwrap();
	let frozen = s.freeze().unwrap();
	assert_eq!(frozen.rabin_fingerprint(), &fp);
	let reparsed: Schema = frozen.json().parse().unwrap();
	assert_eq!(reparsed.rabin_fingerprint(), &fp);
}

#[test]
#[ignore]
fn f9_deep_acyclic_chain() {
	let n = 20_000;
	let mut nodes: Vec<SchemaNode> = (0..n).map(|i| SchemaNode::new(RegularType::Array(Array::new(SchemaKey::from_idx(i + 1))))).collect();
	nodes.push(SchemaNode::new(RegularType::Int));
	let s = SchemaMut::from_nodes(nodes);
	let _ = s.canonical_form_rabin_fingerprint();
	let _ = s.freeze();
}

#[test]
#[ignore]
fn f9_flat_text_chaining_records_by_name() {
	let n = 20_000;
	let mut txt = String::from("[");
	for i in 0..n {
		if i > 0 { txt.push(','); }
		let next = if i + 1 < n { format!("[\"null\",\"R{}\"]", i + 1) } else { "\"null\"".to_string() };
		txt.push_str(&format!("{{\"type\":\"record\",\"name\":\"R{i}\",\"fields\":[{{\"name\":\"n\",\"type\":{next}}}]}}"));
	}
	txt.push(']');
	let _ = txt.parse::<Schema>();
}
