//! Integration test for serde_avro_fast/tests/
//!
//! Regression of da074ef: `Decimal::from_str_exact` does not only reject text
//! that a decimal cannot hold exactly, it rejects any text with more than 28
//! fractional digits (or whose digits overflow 96 bits), even when the extra
//! digits are zeros, i.e. when the number is held exactly. These were serialized
//! (exactly) before the commit.

use serde_avro_fast::{ser::SerializerConfig, to_datum_vec, Schema};

fn ser(schema: &Schema, v: &str) -> Result<Vec<u8>, serde_avro_fast::ser::SerError> {
	to_datum_vec(v, &mut SerializerConfig::new(schema))
}

#[test]
fn exact_text_with_trailing_zeros_as_decimal() {
	let schema: Schema = r#"{"type":"bytes","logicalType":"decimal","precision":4,"scale":1}"#
		.parse()
		.unwrap();
	let expected = ser(&schema, "1.2").unwrap();
	assert_eq!(expected, [2, 12]);
	// 29 fractional digits, but that number is exactly 1.2: nothing to round
	assert_eq!(
		ser(&schema, "1.20000000000000000000000000000").unwrap(),
		expected
	);
}

#[test]
fn exact_text_with_trailing_zeros_as_big_decimal() {
	let schema: Schema = r#"{"type":"bytes","logicalType":"big-decimal"}"#.parse().unwrap();
	let bytes = ser(&schema, "1.00000000000000000000000000000").unwrap();
	// Reads back as the same number
	let back: String = serde_avro_fast::from_datum_slice(&bytes, &schema).unwrap();
	assert_eq!(
		back.parse::<f64>().unwrap(),
		1.0,
		"read back {back:?}"
	);
}

#[test]
fn exact_text_with_many_digits_and_trailing_zeros() {
	let schema: Schema = r#"{"type":"bytes","logicalType":"decimal","precision":30,"scale":9}"#
		.parse()
		.unwrap();
	let expected = ser(&schema, "1234567890123456789.123456789").unwrap();
	// 30 digits of which the last two are zeros past the decimal point
	assert_eq!(
		ser(&schema, "1234567890123456789.12345678900").unwrap(),
		expected
	);
}
