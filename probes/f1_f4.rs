// Probes for findings F1-F4 (C02). Copy to /repo/serde_avro_fast/tests/ temporarily to run.
use serde_avro_fast::{ser::SerializerConfig, Schema};

fn ser<T: serde::Serialize + ?Sized>(schema: &str, v: &T) -> Result<Vec<u8>, String> {
	let schema: Schema = schema.parse().unwrap();
	serde_avro_fast::to_datum_vec(v, &mut SerializerConfig::new(&schema)).map_err(|e| e.to_string())
}

#[test]
fn f1_int_to_enum_is_bounds_checked() {
	let s = r#"{"type":"enum","name":"E","symbols":["A","B"]}"#;
	assert!(ser(s, &99i32).is_err(), "99 accepted for a 2-symbol enum");
	assert!(ser(s, &-1i64).is_err(), "-1 accepted for a 2-symbol enum");
	assert_eq!(ser(s, &1u8).unwrap(), vec![2]);
	assert_eq!(ser(s, &0u64).unwrap(), vec![0]);
	assert!(ser(s, &2u64).is_err());
}

#[test]
fn f2_int_to_decimal_bytes_keeps_sign() {
	let s = r#"{"type":"bytes","logicalType":"decimal","precision":10,"scale":0}"#;
	let schema: Schema = s.parse().unwrap();
	for n in [0i64, 1, 127, 128, 255, 256, 32767, 32768, -1, -128, -129, -32768, -32769, 1 << 40] {
		let bytes = ser(s, &n).unwrap();
		let back: rust_decimal::Decimal = serde_avro_fast::from_datum_slice(&bytes, &schema).unwrap();
		assert_eq!(back, rust_decimal::Decimal::from(n), "{n} -> {bytes:?}");
	}
}

#[test]
fn f3_int_to_decimal_fixed_checks_size() {
	let s = r#"{"type":"fixed","name":"F","size":2,"logicalType":"decimal","precision":4,"scale":0}"#;
	let schema: Schema = s.parse().unwrap();
	assert!(ser(s, &70000i64).is_err(), "70000 silently truncated into fixed(2)");
	assert!(ser(s, &32768i64).is_err());
	assert!(ser(s, &-32769i64).is_err());
	for n in [0i64, 1, 128, 32767, -1, -32768] {
		let bytes = ser(s, &n).unwrap();
		assert_eq!(bytes.len(), 2);
		let back: rust_decimal::Decimal = serde_avro_fast::from_datum_slice(&bytes, &schema).unwrap();
		assert_eq!(back, rust_decimal::Decimal::from(n), "{n} -> {bytes:?}");
	}
}

#[test]
fn f4_bytes_to_string_must_be_utf8() {
	let s = r#""string""#;
	assert!(ser(s, serde_bytes::Bytes::new(&[0xFF, 0xFE])).is_err(), "non-UTF-8 bytes accepted as an Avro string");
	assert_eq!(ser(s, serde_bytes::Bytes::new(b"ab")).unwrap(), vec![4, b'a', b'b']);
}
