// probe for C20: distinct generic instantiations must get distinct fullnames for the named nodes they own
use serde_avro_derive::BuildSchema;

fn check<T: BuildSchema>(what: &str) -> Result<(), String> {
	let schema_mut = T::schema_mut();
	let raw = serde_json::to_string_pretty(&schema_mut).map_err(|e| format!("{what}: to json: {e}"))?;
	let parsed: serde_avro_fast::schema::SchemaMut = raw.parse().map_err(|e| format!("{what}: reparse: {e}\n{raw}"))?;
	let _s: serde_avro_fast::Schema = parsed.try_into().map_err(|e| format!("{what}: freeze of reparsed: {e}"))?;
	let _s: serde_avro_fast::Schema = schema_mut.try_into().map_err(|e| format!("{what}: freeze: {e}"))?;
	Ok(())
}

#[derive(BuildSchema)]
#[allow(unused)]
enum Ip<T> {
	V4([u8; 4]),
	Other(T),
}
#[derive(BuildSchema)]
#[allow(unused)]
struct TwoIps {
	a: Ip<i32>,
	b: Ip<String>,
}
#[test]
fn generic_enum_with_fixed_variant_instantiated_twice() {
	check::<TwoIps>("TwoIps").unwrap();
}

#[derive(BuildSchema)]
#[allow(unused)]
struct GenRec<T> {
	#[avro_schema(logical_type = "duration", has_same_type_as = "[u8; 12]")]
	ttl: [u8; 12],
	v: T,
}
#[derive(BuildSchema)]
#[allow(unused)]
struct TwoRecs {
	a: GenRec<i32>,
	b: GenRec<String>,
}
#[test]
fn generic_record_with_owned_fixed_instantiated_twice() {
	check::<TwoRecs>("TwoRecs").unwrap();
}

#[derive(BuildSchema)]
#[allow(unused)]
#[avro_schema(namespace = "my.ns")]
struct GenRecNs<T> {
	#[avro_schema(logical_type = "duration", has_same_type_as = "[u8; 12]")]
	ttl: [u8; 12],
	v: T,
}
#[derive(BuildSchema)]
#[allow(unused)]
struct TwoRecsNs {
	a: GenRecNs<i32>,
	b: GenRecNs<String>,
}
#[test]
fn generic_record_with_namespace_attr_and_owned_fixed_instantiated_twice() {
	check::<TwoRecsNs>("TwoRecsNs").unwrap();
}

#[derive(BuildSchema)]
#[allow(unused)]
struct RecA {
	a: i32,
}
#[derive(BuildSchema)]
#[allow(unused)]
struct RecB {
	b: String,
}
#[derive(BuildSchema)]
#[allow(unused)]
struct Tagged<T>(#[avro_schema(logical_type = "custom")] T);
#[derive(BuildSchema)]
#[allow(unused)]
struct TwoTagged {
	a: Tagged<RecA>,
	b: Tagged<RecB>,
}
#[test]
fn generic_newtype_with_logical_type_over_records_instantiated_twice() {
	check::<TwoTagged>("TwoTagged").unwrap();
}

#[derive(BuildSchema)]
#[allow(unused)]
#[avro_schema(namespace = "en.ns")]
enum IpNs<T> {
	V4([u8; 4]),
	Other(T),
}
#[derive(BuildSchema)]
#[allow(unused)]
struct TwoIpsNs {
	a: IpNs<i32>,
	b: IpNs<String>,
}
#[test]
fn generic_enum_with_namespace_attr_and_fixed_variant_instantiated_twice() {
	check::<TwoIpsNs>("TwoIpsNs").unwrap();
}
