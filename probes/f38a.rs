//! Integration test for serde_avro_fast/tests/ (copy as serde_avro_fast/tests/review_demo_1.rs)
//!
//! Commit 0f3acf9 "deserialize newtype structs as the value they contain" only
//! fixed `DatumDeserializer`. Map keys are deserialized through another
//! deserializer (`StringDeserializer` in de/deserializer/types/blocks.rs) which
//! still forwards `deserialize_newtype_struct` to `deserialize_any`, so a map
//! whose key type is a newtype struct is serialized by this crate but cannot be
//! deserialized back ("What this crate serialized could not be deserialized").

use {
	serde_avro_fast::{from_datum_reader, from_datum_slice, ser::SerializerConfig, to_datum_vec, Schema},
	serde_derive::{Deserialize, Serialize},
	std::collections::BTreeMap,
};

#[derive(Serialize, Deserialize, Debug, PartialEq, Eq, PartialOrd, Ord, Clone)]
struct UserId(String);

#[test]
fn map_with_newtype_struct_keys_round_trips() {
	let schema: Schema = r#"{"type":"map","values":"int"}"#.parse().unwrap();
	let mut map = BTreeMap::new();
	map.insert(UserId("alice".to_owned()), 1);
	map.insert(UserId("bob".to_owned()), 2);

	// The serializer accepts it (newtype structs are written as the value they contain)...
	let bytes = to_datum_vec(&map, &mut SerializerConfig::new(&schema)).unwrap();
	// ... and it is the plain encoding of {"alice": 1, "bob": 2}
	let plain: BTreeMap<String, i32> = from_datum_slice(&bytes, &schema).unwrap();
	assert_eq!(plain.len(), 2);

	// So it has to read back, from a slice and from a reader
	let from_slice: BTreeMap<UserId, i32> = from_datum_slice(&bytes, &schema)
		.expect("what this crate serialized could not be deserialized (slice)");
	assert_eq!(from_slice, map);
	let from_reader: BTreeMap<UserId, i32> = from_datum_reader(&bytes[..], &schema)
		.expect("what this crate serialized could not be deserialized (reader)");
	assert_eq!(from_reader, map);
}
