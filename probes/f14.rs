//! Reproduces, on the UNMODIFIED library, Undefined Behaviour in
//! `Schema::try_from(SchemaMut)` (second pass, `per_type_lookup` initialisation)
//! for a union node that lists itself among its own variants.
//!
//! Run under Miri:
//!
//!   cp out/ub_demo.rs serde_avro_fast/tests/zz_ub_demo.rs
//!   cargo +nightly miri test --offline -p serde_avro_fast --test zz_ub_demo
//!   MIRIFLAGS=-Zmiri-tree-borrows cargo +nightly miri test --offline -p serde_avro_fast --test zz_ub_demo
//!
//! (A plain `cargo test` passes: the violation is only visible to Miri.)
//!
//! The self-containing union must NOT be reachable from the root: otherwise
//! `freeze()` already fails earlier, in the canonical-form / JSON generation
//! ("Schema contains a cycle that can't be avoided using named references"),
//! before any node pointer is created. As a dead node (index 1, never referenced
//! from the root at index 0) it goes through, because the second pass of
//! `try_from` builds the lookup table of *every* union node of the storage.

use serde_avro_fast::schema::{RegularType, SchemaKey, SchemaMut, SchemaNode, Union};

/// Minimal: root is `int`, node 1 is `union { node 0, node 1 (itself) }`
#[test]
fn unreachable_union_containing_itself() {
	let nodes: Vec<SchemaNode> = vec![
		RegularType::Int.into(),
		Union::new(vec![SchemaKey::from_idx(0), SchemaKey::from_idx(1)]).into(),
	];
	// All calls are safe public API; UB happens inside `freeze()`
	let schema = SchemaMut::from_nodes(nodes)
		.freeze()
		.expect("all SchemaKeys are in range, so this freezes fine");
	let v: i32 = serde_avro_fast::from_datum_slice(&[2], &schema).unwrap();
	assert_eq!(v, 1);
}

/// Even more minimal: the union only contains itself
#[test]
fn unreachable_union_containing_only_itself() {
	let nodes: Vec<SchemaNode> = vec![
		RegularType::Null.into(),
		Union::new(vec![SchemaKey::from_idx(1)]).into(),
	];
	let _schema = SchemaMut::from_nodes(nodes).freeze().unwrap();
}

/// Control: a union nested in another union (no self reference) is fine
#[test]
fn control_unreachable_nested_union_is_fine() {
	let nodes: Vec<SchemaNode> = vec![
		RegularType::Int.into(),
		Union::new(vec![SchemaKey::from_idx(0), SchemaKey::from_idx(2)]).into(),
		Union::new(vec![SchemaKey::from_idx(0)]).into(),
	];
	let _schema = SchemaMut::from_nodes(nodes).freeze().unwrap();
}
