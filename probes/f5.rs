// Probe for finding F5 (C01): enum-as-union round trip through a duration branch.
use serde_avro_fast::{ser::SerializerConfig, Schema};

#[derive(serde_derive::Serialize, serde_derive::Deserialize, PartialEq, Debug)]
struct D {
	months: u32,
	days: u32,
	milliseconds: u32,
}
#[derive(serde_derive::Serialize, serde_derive::Deserialize, PartialEq, Debug)]
struct R {
	a: i32,
}
#[derive(serde_derive::Serialize, serde_derive::Deserialize, PartialEq, Debug)]
enum U {
	Duration(D),
	R(R),
}

#[test]
fn f5_duration_branch_round_trips_by_name() {
	let schema: Schema = r#"[
		{"type":"fixed","size":12,"name":"dur","logicalType":"duration"},
		{"type":"record","name":"R","fields":[{"name":"a","type":"int"}]}
	]"#
	.parse()
	.unwrap();
	// bytes of branch 0 (duration 1 month, 2 days, 3 ms)
	let bytes: Vec<u8> = vec![0, 1, 0, 0, 0, 2, 0, 0, 0, 3, 0, 0, 0];
	let v: U = serde_avro_fast::from_datum_slice(&bytes, &schema).unwrap();
	assert_eq!(v, U::Duration(D { months: 1, days: 2, milliseconds: 3 }));
	let re = serde_avro_fast::to_datum_vec(&v, &mut SerializerConfig::new(&schema))
		.expect("a value decoded from this schema must re-encode under it");
	assert_eq!(re, bytes);
}
