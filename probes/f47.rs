//! Integration test for serde_avro_fast/tests/
//!
//! 77ca5ed is incomplete: there is one more end of input that is a plain message
//! error on slices where it is an unexpected-eof io error on readers: an object
//! container file that is cut in the middle of a block. `SliceRead::take`
//! (de/read/take.rs) answers "Read block size larger than original slice" without
//! an io error, so the slice and reader versions of the object container file
//! reader disagree on how they report the same truncated input.

use serde_avro_fast::{
	object_container_file_encoding::{write_all, Compression, Reader},
	Schema,
};

#[test]
fn truncated_object_container_file_slice_vs_reader() {
	let schema: Schema = r#""string""#.parse().unwrap();
	let file = write_all(&schema, Compression::Null, Vec::new(), ["hello", "world"]).unwrap();
	// Cut in the middle of the (only) block: 16 bytes of sync marker, and some of
	// the last string
	let truncated = &file[..file.len() - 16 - 3];

	let first_error_kind = |results: Vec<Result<String, serde_avro_fast::de::DeError>>| {
		let error = results
			.into_iter()
			.find_map(Result::err)
			.expect("File is truncated, there should be an error");
		println!("{error:?}");
		error.io_error().map(|io_error| io_error.kind())
	};

	let from_reader = first_error_kind(
		Reader::from_reader(truncated)
			.unwrap()
			.deserialize::<String>()
			.collect(),
	);
	assert_eq!(from_reader, Some(std::io::ErrorKind::UnexpectedEof));

	let from_slice = first_error_kind(
		Reader::from_slice(truncated)
			.unwrap()
			.deserialize::<String>()
			.collect(),
	);
	assert_eq!(from_slice, Some(std::io::ErrorKind::UnexpectedEof));
}
