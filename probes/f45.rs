//! Integration test for serde_avro_fast/tests/
//!
//! Regression of 8be1450: since "names of types never take precedence over the
//! names of named types", and named types are also registered under their name
//! without the namespace, a record (enum, fixed) `com.acme.Date` now shadows the
//! type name `Date` wherever it is in the union, so there is no way left to
//! designate the `date` branch by name: `U::Date(5)`, which is what the
//! deserializer gives for that branch (it uses the fully qualified name for named
//! types, so `Date` is not ambiguous there), can not be serialized anymore.
//! Before the commit the last registered won, so this worked with the record
//! declared first.

use serde_avro_fast::{from_datum_slice, ser::SerializerConfig, to_datum_vec, Schema};

#[derive(serde_derive::Serialize, serde_derive::Deserialize, Debug, PartialEq)]
struct AcmeDate {
	year: i32,
}

#[derive(serde_derive::Serialize, serde_derive::Deserialize, Debug, PartialEq)]
enum U {
	#[serde(rename = "com.acme.Date")]
	AcmeDate(AcmeDate),
	Date(i32),
}

#[test]
fn type_name_still_designates_the_type_next_to_namespaced_named_type() {
	let schema: Schema = r#"[
		{"type":"record","name":"Date","namespace":"com.acme","fields":[{"name":"year","type":"int"}]},
		{"type":"int","logicalType":"date"}
	]"#
	.parse()
	.unwrap();

	// Both branches are told apart when deserializing
	assert_eq!(
		from_datum_slice::<U>(&[0, 10], &schema).unwrap(),
		U::AcmeDate(AcmeDate { year: 5 })
	);
	assert_eq!(from_datum_slice::<U>(&[2, 10], &schema).unwrap(), U::Date(5));

	// and when serializing
	let config = &mut SerializerConfig::new(&schema);
	assert_eq!(
		to_datum_vec(&U::AcmeDate(AcmeDate { year: 5 }), config).unwrap(),
		[0, 10]
	);
	assert_eq!(to_datum_vec(&U::Date(5), config).unwrap(), [2, 10]);
}
