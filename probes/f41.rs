//! Integration test for serde_avro_fast/tests/ (copy as serde_avro_fast/tests/review_demo_6.rs)
//!
//! Commit f6e6bbb "reaching the end of a slice is the same error as reaching the
//! end of a reader": two places are left where running out of input is an
//! `io::ErrorKind::UnexpectedEof` error on one side and a plain message on the
//! other (`DeError::io_error()` is public API, and it is what the object container
//! file reader uses to tell unrecoverable errors).
//! - single object encoding: a slice shorter than the 10 bytes header
//!   (single_object_encoding.rs:16, plain message; the reader version is io)
//! - the default `Read::skip_bytes` (de/read/mod.rs:43, plain message when the
//!   input ends while skipping an ignored block). `SliceRead` overrides it with an
//!   io error, but `ReaderRead` does not, and neither does `SliceReadTake`, which is
//!   what the object container file reader deserializes from on slice input (the
//!   very case f6e6bbb is about): the error is not seen as unrecoverable and the
//!   reader goes on with the block.

use {
	serde_avro_fast::{
		from_datum_reader, from_datum_slice, from_single_object_reader, from_single_object_slice,
		object_container_file_encoding::{Compression, Reader, WriterBuilder},
		ser::SerializerConfig,
		Schema,
	},
	serde_derive::{Deserialize, Serialize},
	std::io::ErrorKind,
};

#[test]
fn single_object_truncated_in_header() {
	let schema: Schema = r#""int""#.parse().unwrap();
	let input: &[u8] = &[0xC3, 0x01, 0x12];
	let from_reader = from_single_object_reader::<_, i32>(input, &schema).unwrap_err();
	let from_slice = from_single_object_slice::<i32>(input, &schema).unwrap_err();
	assert_eq!(
		from_reader.io_error().map(|e| e.kind()),
		Some(ErrorKind::UnexpectedEof)
	);
	assert_eq!(
		from_slice.io_error().map(|e| e.kind()),
		from_reader.io_error().map(|e| e.kind()),
		"slice: {from_slice:?} / reader: {from_reader:?}"
	);
}

#[derive(Serialize, Deserialize, Debug, PartialEq)]
struct OnlyB {
	b: i32,
}

const RECORD: &str = r#"{"type":"record","name":"R","fields":[
	{"name":"a","type":{"type":"array","items":"int"}},
	{"name":"b","type":"int"}
]}"#;

#[test]
fn end_of_input_while_skipping_ignored_block() {
	let schema: Schema = RECORD.parse().unwrap();
	// a: one block of 2 items announcing 20 bytes, and then the input ends after 4 bytes
	let input: &[u8] = &[3, 40, 2, 4, 0, 14];
	let from_slice = from_datum_slice::<OnlyB>(input, &schema).unwrap_err();
	let from_reader = from_datum_reader::<_, OnlyB>(input, &schema).unwrap_err();
	assert_eq!(
		from_slice.io_error().map(|e| e.kind()),
		Some(ErrorKind::UnexpectedEof)
	);
	assert_eq!(
		from_reader.io_error().map(|e| e.kind()),
		from_slice.io_error().map(|e| e.kind()),
		"slice: {from_slice:?} / reader: {from_reader:?}"
	);
}

fn corrupted_container_file() -> Vec<u8> {
	#[derive(Serialize)]
	struct AB {
		a: Vec<i32>,
		b: i32,
	}
	let schema: Schema = RECORD.parse().unwrap();
	let mut config = SerializerConfig::new(&schema);
	let mut writer = WriterBuilder::new(&mut config)
		.compression(Compression::Null)
		.sync_marker([7; 16])
		.build(Vec::new())
		.unwrap();
	for _ in 0..3 {
		writer.serialize(AB { a: vec![1, 2], b: 7 }).unwrap();
	}
	writer.finish_block().unwrap();
	let mut file = writer.into_inner().unwrap();
	let block = file.windows(16).position(|w| w == [7; 16]).unwrap() + 16;
	// 3 objects, 15 bytes, then [4, 2, 4, 0, 14] three times
	assert_eq!(file[block..block + 7], [6, 30, 4, 2, 4, 0, 14]);
	// Turn the array of the first object into a block with a size in bytes that goes
	// beyond the end of the avro block (corruption): [3, 60, 4, 0, 14, ...]
	file[block + 2] = 3;
	file[block + 3] = 60;
	file
}

/// "report an unrecoverable error once and then the end of the stream" (f6e6bbb),
/// on slice input
#[test]
fn container_file_from_slice_reports_end_of_block_once() {
	let file = corrupted_container_file();
	let mut reader = Reader::from_slice(&file).unwrap();
	let results: Vec<Result<OnlyB, String>> = reader
		.deserialize::<OnlyB>()
		.map(|r| r.map_err(|e| format!("{e:?}")))
		.collect();
	assert_eq!(results.len(), 1, "{results:?}");
}

/// Same on reader input
#[test]
fn container_file_from_reader_reports_end_of_block_once() {
	let file = corrupted_container_file();
	let mut reader = Reader::from_reader(&file[..]).unwrap();
	let results: Vec<Result<OnlyB, String>> = reader
		.deserialize::<OnlyB>()
		.map(|r| r.map_err(|e| format!("{e:?}")))
		.collect();
	assert_eq!(results.len(), 1, "{results:?}");
}
