//! Integration test for serde_avro_fast/tests/ (copy as serde_avro_fast/tests/review_demo_7.rs)
//!
//! Commit 5b14655 "integers serialize as big-decimal" makes every integer type
//! serializable as big-decimal on the ground that "a big-decimal of scale zero
//! deserializes as an integer when that is what is asked for". That only holds for
//! i64/u64/i128/u128: `deserialize_{i8,i16,i32,u8,u16,u32}` are forwarded to
//! `deserialize_any`, which hands a big-decimal to the visitor as a string. So
//! what the new arm writes for the most common integer type (i32) does not read
//! back ("invalid type: string \"5\", expected i32").

use serde_avro_fast::{from_datum_slice, ser::SerializerConfig, to_datum_vec, Schema};

#[test]
fn i64_round_trips_through_big_decimal() {
	let schema: Schema = r#"["null",{"type":"bytes","logicalType":"big-decimal"}]"#
		.parse()
		.unwrap();
	let bytes = to_datum_vec(&Some(5_i64), &mut SerializerConfig::new(&schema)).unwrap();
	assert_eq!(
		from_datum_slice::<Option<i64>>(&bytes, &schema).unwrap(),
		Some(5)
	);
}

#[test]
fn i32_round_trips_through_big_decimal() {
	let schema: Schema = r#"["null",{"type":"bytes","logicalType":"big-decimal"}]"#
		.parse()
		.unwrap();
	let bytes = to_datum_vec(&Some(5_i32), &mut SerializerConfig::new(&schema)).unwrap();
	// Same bytes as for the i64
	assert_eq!(
		bytes,
		to_datum_vec(&Some(5_i64), &mut SerializerConfig::new(&schema)).unwrap()
	);
	assert_eq!(
		from_datum_slice::<Option<i32>>(&bytes, &schema)
			.expect("a big-decimal of scale zero deserializes as an integer when that is what is asked for"),
		Some(5)
	);
}

#[test]
fn u8_round_trips_through_big_decimal_without_union() {
	let schema: Schema = r#"{"type":"bytes","logicalType":"big-decimal"}"#.parse().unwrap();
	let bytes = to_datum_vec(&200_u8, &mut SerializerConfig::new(&schema)).unwrap();
	assert_eq!(from_datum_slice::<u64>(&bytes, &schema).unwrap(), 200);
	assert_eq!(
		from_datum_slice::<u8>(&bytes, &schema)
			.expect("a big-decimal of scale zero deserializes as an integer when that is what is asked for"),
		200
	);
}
