//! Review of 675e7ff ("Option of a type whose schema is a union does not nest the
//! unions"): integration test for `serde_avro_fast/tests/`
//! (serde_avro_fast has serde_avro_derive and serde_derive as dev-dependencies).
//!
//! `Option<T>::append_schema` flattens T's union by copying its variants and
//! filtering out the ones whose node is currently `RegularType::Null`. But
//! `RegularType::Null` is also the placeholder that `SchemaBuilder::reserve()` puts
//! for every record/union that is still being built, so a variant that refers back
//! to a type under construction is taken for "null" and silently dropped.

use serde_avro_derive::BuildSchema;

#[derive(BuildSchema, serde_derive::Serialize, serde_derive::Deserialize, Debug, PartialEq)]
struct Node {
	next: Option<IntOrNode>,
}

#[derive(BuildSchema, serde_derive::Serialize, serde_derive::Deserialize, Debug, PartialEq)]
enum IntOrNode {
	Int(i32),
	Node(Box<Node>),
}

/// The commit promises "Put the variants of T's union after null": the union of
/// the `next` field has to be [null, int, Node].
#[test]
fn option_of_union_keeps_the_variant_that_refers_to_the_record_being_built() {
	let schema = Node::schema().expect("Node has a valid Avro schema");
	let json: serde_json::Value = serde_json::from_str(schema.json()).unwrap();
	let next_type = json["fields"][0]["type"]
		.as_array()
		.expect("type of an Option field is a union");
	assert!(
		next_type.iter().all(|v| !v.is_array()),
		"union immediately contains a union: {}",
		schema.json()
	);
	assert_eq!(
		next_type.len(),
		3,
		"expected [null, int, Node], got {}",
		schema.json()
	);
}

/// Same thing seen from the user's side: a value of the type the schema was derived
/// from can't be written with that schema.
// (not part of this probe: decoding a union of NAMESPACED named types into an enum needs the variants' serde names to be the
// full names - see DESIGN 9.5)
#[test]
#[ignore]
fn option_of_union_round_trip() {
	let schema = Node::schema().expect("Node has a valid Avro schema");
	let value = Node {
		next: Some(IntOrNode::Node(Box::new(Node {
			next: Some(IntOrNode::Int(3)),
		}))),
	};
	let serialized = serde_avro_fast::to_datum_vec(
		&value,
		&mut serde_avro_fast::ser::SerializerConfig::new(&schema),
	)
	.expect("a Node should serialize with the schema derived from Node");
	let back: Node = serde_avro_fast::from_datum_slice(&serialized, &schema).unwrap();
	assert_eq!(back, value);
}
