//! Review of 9a0e319 ("a record that declares the same field name twice is not a valid
//! schema"): integration test for `serde_avro_fast/tests/`.
//!
//! The commit replaced the last-one-wins `collect()` into `per_name_lookup` of
//! *records* by a checked insertion. The `per_name_lookup` of *enums* is built two
//! match arms below with the very same last-one-wins `collect()`, and the
//! specification is just as explicit for them: "symbols: a JSON array, listing symbols,
//! as JSON strings (required). All symbols in an enum must be unique; duplicates are
//! prohibited." Such a schema is still accepted, with the same kind of first-vs-last
//! inconsistency: the symbol is written as its last position, index 0 reads as the same
//! symbol.

use serde_avro_fast::{
	schema::{Enum, Name, SchemaMut},
	Schema,
};

const ENUM_WITH_DUPLICATE_SYMBOL: &str = r#"{"type":"enum","name":"E","symbols":["A","B","A"]}"#;

#[test]
fn other_implementation_rejects_it() {
	// Sanity check of the expectation (the commit message argues with "the
	// specification (and the other implementations) reject such records")
	assert!(apache_avro::Schema::parse_str(ENUM_WITH_DUPLICATE_SYMBOL).is_err());
}

#[test]
fn enum_that_declares_the_same_symbol_twice_is_not_a_valid_schema_parsed() {
	let res: Result<Schema, _> = ENUM_WITH_DUPLICATE_SYMBOL.parse();
	assert!(
		res.is_err(),
		"enum with symbols [A, B, A] was accepted, json: {}",
		res.unwrap().json()
	);
}

#[test]
fn enum_that_declares_the_same_symbol_twice_is_not_a_valid_schema_from_nodes() {
	let schema_mut = SchemaMut::from_nodes(vec![Enum::new(
		Name::from_fully_qualified_name("E"),
		vec!["A".to_owned(), "B".to_owned(), "A".to_owned()],
	)
	.into()]);
	assert!(
		schema_mut.freeze().is_err(),
		"enum with symbols [A, B, A] was accepted when freezing"
	);
}
