// factgen: rustc_private fact extractor for the static checks in /verif.
//
// Invoked as RUSTC_WORKSPACE_WRAPPER (argv[1] is the real rustc path and is
// dropped).  For every workspace crate compiled as a library / proc-macro it
// writes $SAVF_OUT/<crate>.json with the facts described in DESIGN.md
// appendix A: ADTs, impls, unsafe sites, function signatures and, for every
// MIR body, its CFG with resolved callees, evaluated constants and
// field/variant names on projections.  Nothing of the analysed crate is run.
#![feature(rustc_private)]
#![allow(clippy::all)]

extern crate rustc_abi;
extern crate rustc_data_structures;
extern crate rustc_driver;
extern crate rustc_hir;
extern crate rustc_interface;
extern crate rustc_middle;
extern crate rustc_session;
extern crate rustc_span;

mod json;
use json::J;

use rustc_hir::def::DefKind;
use rustc_hir::def_id::{DefId, LocalDefId};
use rustc_hir::intravisit::{self, Visitor};
use rustc_middle::mir::{
    self, AggregateKind, BasicBlockData, Body, CastKind, Operand, PlaceRef, ProjectionElem,
    Rvalue, StatementKind, TerminatorKind,
};
use rustc_middle::ty::{self, Instance, Ty, TyCtxt, TypingEnv};
use rustc_span::Span;

struct Cb {
    out: Option<String>,
}

impl rustc_driver::Callbacks for Cb {
    fn after_analysis<'tcx>(
        &mut self,
        _compiler: &rustc_interface::interface::Compiler,
        tcx: TyCtxt<'tcx>,
    ) -> rustc_driver::Compilation {
        if let Some(out) = &self.out {
            let krate = tcx.crate_name(rustc_hir::def_id::LOCAL_CRATE).to_string();
            let facts = rustc_middle::ty::print::with_no_visible_paths!(
                rustc_middle::ty::print::with_no_trimmed_paths!(extract(tcx, &krate))
            );
            let path = format!("{}/{}.json", out, krate);
            let tmp = format!("{}.tmp{}", path, std::process::id());
            std::fs::write(&tmp, facts.to_string()).expect("write facts");
            std::fs::rename(&tmp, &path).expect("rename facts");
        }
        rustc_driver::Compilation::Continue
    }
}

fn main() {
    let mut args: Vec<String> = std::env::args().collect();
    // RUSTC_WORKSPACE_WRAPPER: argv[1] is the path of the real rustc.
    if args.len() > 1 && (args[1].ends_with("rustc") || args[1].contains("/rustc")) {
        args.remove(1);
    }
    let out = std::env::var("SAVF_OUT").ok();
    let crate_name = args
        .iter()
        .position(|a| a == "--crate-name")
        .and_then(|i| args.get(i + 1))
        .cloned()
        .unwrap_or_default();
    let is_lib = {
        let mut lib = false;
        let mut i = 0;
        while i < args.len() {
            if args[i] == "--crate-type" {
                if let Some(t) = args.get(i + 1) {
                    if t == "lib" || t == "rlib" || t == "proc-macro" {
                        lib = true;
                    }
                }
            }
            i += 1;
        }
        lib
    };
    let is_test = args.iter().any(|a| a == "--test");
    let wanted = matches!(
        crate_name.as_str(),
        "serde_avro_fast" | "serde_avro_derive" | "serde_avro_derive_macros" | "savf_corpus"
    ) && is_lib
        && !is_test;
    let mut cb = Cb { out: if wanted { out } else { None } };
    rustc_driver::run_compiler(&args, &mut cb);
}

// ---------------------------------------------------------------------------

fn span_str(tcx: TyCtxt<'_>, sp: Span) -> String {
    let sm = tcx.sess.source_map();
    let lo = sm.lookup_char_pos(sp.lo());
    let name = match &lo.file.name {
        rustc_span::FileName::Real(r) => match r.local_path() {
            Some(p) => p.to_string_lossy().to_string(),
            None => format!("{:?}", r),
        },
        other => format!("{:?}", other),
    };
    format!("{}:{}", name, lo.line)
}

fn span_j(tcx: TyCtxt<'_>, sp: Span) -> J {
    // the call-site span for code that comes from a macro expansion, plus a flag
    let exp = sp.from_expansion();
    let root = sp.source_callsite();
    let mut o = J::obj();
    o.set("loc", J::s(span_str(tcx, root)));
    if exp {
        o.set("exp", J::Bool(true));
        let ed = sp.ctxt().outer_expn_data();
        o.set("macro", J::s(format!("{:?}", ed.kind)));
    }
    o
}

fn vis_str(tcx: TyCtxt<'_>, v: ty::Visibility<DefId>) -> String {
    match v {
        ty::Visibility::Public => "pub".to_string(),
        ty::Visibility::Restricted(d) => format!("in {}", tcx.def_path_str(d)),
    }
}

fn extract<'tcx>(tcx: TyCtxt<'tcx>, krate: &str) -> J {
    let mut root = J::obj();
    root.set("crate", J::s(krate));
    let mut feats: Vec<String> = tcx
        .sess
        .config
        .iter()
        .filter(|(k, _)| k.as_str() == "feature")
        .filter_map(|(_, v)| v.map(|s| s.to_string()))
        .collect();
    feats.sort();
    let feats: Vec<J> = feats.into_iter().map(J::s).collect();
    root.set("features", J::Arr(feats));

    let items = tcx.hir_crate_items(());
    let mut adts = Vec::new();
    let mut impls = Vec::new();
    let mut fns = Vec::new();
    let mut consts = Vec::new();
    let eff = tcx.effective_visibilities(());
    for ldid in items.definitions() {
        let did = ldid.to_def_id();
        match tcx.def_kind(did) {
            DefKind::Struct | DefKind::Enum | DefKind::Union => {
                adts.push(adt_j(tcx, did));
            }
            DefKind::Impl { .. } => {
                impls.push(impl_j(tcx, did));
            }
            DefKind::Fn | DefKind::AssocFn => {
                let mut o = J::obj();
                o.set("path", J::s(tcx.def_path_str(did)));
                o.set("vis", J::s(vis_str(tcx, tcx.visibility(did))));
                o.set("reachable", J::Bool(eff.is_reachable(ldid)));
                let sig = tcx.fn_sig(did).instantiate_identity().skip_norm_wip();
                o.set("sig", J::s(format!("{:?}", sig)));
                let sb = sig.skip_binder();
                let ins: Vec<J> = sb.inputs().iter().map(|t| J::s(t.to_string())).collect();
                o.set("inputs", J::Arr(ins));
                o.set("output", J::s(sb.output().to_string()));
                o.set("unsafe", J::Bool(sig.safety().is_unsafe()));
                o.set("span", span_j(tcx, tcx.def_span(did)));
                // names of all generic parameters (the parent's first), in the order call-site substitutions list them
                let g = tcx.generics_of(did);
                let gs: Vec<J> = (0..g.count()).map(|i| J::s(g.param_at(i, tcx).name.to_string())).collect();
                o.set("generics", J::Arr(gs));
                fns.push(o);
            }
            DefKind::Const { .. } | DefKind::AssocConst { .. } | DefKind::Static { .. } => {
                let mut o = J::obj();
                o.set("path", J::s(tcx.def_path_str(did)));
                let ty = tcx.type_of(did).instantiate_identity().skip_norm_wip();
                o.set("ty", J::s(ty.to_string()));
                if tcx.generics_of(did).is_empty() && !matches!(tcx.def_kind(did), DefKind::Static { .. }) {
                    if let Ok(v) = tcx.const_eval_poly(did) {
                        o.set("value", const_value_j(tcx, v, ty));
                    }
                }
                consts.push(o);
            }
            _ => {}
        }
    }
    root.set("adts", J::Arr(adts));
    root.set("impls", J::Arr(impls));
    root.set("fns", J::Arr(fns));
    root.set("consts", J::Arr(consts));

    // unsafe blocks (HIR)
    let mut uv = UnsafeVisitor { tcx, sites: Vec::new() };
    tcx.hir_visit_all_item_likes_in_crate(&mut uv);
    root.set("unsafe_blocks", J::Arr(uv.sites));

    // MIR bodies
    let mut bodies = Vec::new();
    for ldid in tcx.mir_keys(()) {
        let did = ldid.to_def_id();
        let kind = tcx.def_kind(did);
        match kind {
            DefKind::Fn | DefKind::AssocFn | DefKind::Closure => {}
            DefKind::Const { .. } | DefKind::AssocConst { .. } => {
                // initialiser of a named constant (compile-time MIR), e.g. METADATA_SCHEMA
                if tcx.generics_of(did).is_empty() {
                    let body = tcx.mir_for_ctfe(did);
                    bodies.push(body_j(tcx, *ldid, body));
                }
                continue;
            }
            _ => continue,
        }
        if tcx.is_constructor(did) {
            continue;
        }
        let body = tcx.optimized_mir(did);
        bodies.push(body_j(tcx, *ldid, body));
    }
    root.set("bodies", J::Arr(bodies));
    root
}

fn adt_j<'tcx>(tcx: TyCtxt<'tcx>, did: DefId) -> J {
    let adt = tcx.adt_def(did);
    let mut o = J::obj();
    o.set("path", J::s(tcx.def_path_str(did)));
    o.set(
        "kind",
        J::s(if adt.is_enum() {
            "enum"
        } else if adt.is_union() {
            "union"
        } else {
            "struct"
        }),
    );
    o.set("vis", J::s(vis_str(tcx, tcx.visibility(did))));
    o.set("non_exhaustive", J::Bool(adt.is_variant_list_non_exhaustive()));
    o.set("span", span_j(tcx, tcx.def_span(did)));
    let mut vs = Vec::new();
    for (vi, v) in adt.variants().iter_enumerated() {
        let mut vo = J::obj();
        vo.set("name", J::s(v.name.to_string()));
        vo.set("idx", J::Int(vi.as_u32() as i128));
        if adt.is_enum() {
            let d = adt.discriminant_for_variant(tcx, vi);
            vo.set("discr", J::Int(d.val as i128));
        }
        let mut fs = Vec::new();
        for f in v.fields.iter() {
            let mut fo = J::obj();
            fo.set("name", J::s(f.name.to_string()));
            fo.set("ty", J::s(tcx.type_of(f.did).instantiate_identity().skip_norm_wip().to_string()));
            fo.set("vis", J::s(vis_str(tcx, f.vis)));
            fs.push(fo);
        }
        vo.set("fields", J::Arr(fs));
        vs.push(vo);
    }
    o.set("variants", J::Arr(vs));
    o
}

fn impl_j<'tcx>(tcx: TyCtxt<'tcx>, did: DefId) -> J {
    let mut o = J::obj();
    o.set("id", J::s(tcx.def_path_str(did)));
    o.set("span", span_j(tcx, tcx.def_span(did)));
    let self_ty = tcx.type_of(did).instantiate_identity().skip_norm_wip();
    o.set("self_ty", J::s(self_ty.to_string()));
    if let ty::Adt(a, _) = self_ty.kind() {
        o.set("self_adt", J::s(tcx.def_path_str(a.did())));
    }
    if tcx.impl_opt_trait_ref(did).is_some() {
        let hdr = tcx.impl_trait_header(did);
        let tr = hdr.trait_ref.instantiate_identity().skip_norm_wip();
        o.set("trait", J::s(tcx.def_path_str(tr.def_id)));
        o.set("trait_ref", J::s(format!("{:?}", tr)));
        o.set("unsafe", J::Bool(hdr.safety.is_unsafe()));
        o.set("negative", J::Bool(matches!(hdr.polarity, ty::ImplPolarity::Negative)));
    }
    let g = tcx.generics_of(did);
    let gs: Vec<J> = g.own_params.iter().map(|p| J::s(p.name.to_string())).collect();
    o.set("generics", J::Arr(gs));
    let preds: Vec<J> = tcx
        .predicates_of(did)
        .predicates
        .iter()
        .map(|(p, _)| J::s(format!("{}", p)))
        .collect();
    o.set("predicates", J::Arr(preds));
    let its: Vec<J> = tcx
        .associated_item_def_ids(did)
        .iter()
        .map(|d| J::s(tcx.def_path_str(*d)))
        .collect();
    o.set("items", J::Arr(its));
    // associated types of the impl (name -> type as written, identity-instantiated) and generic parameter kinds
    let mut ats = J::obj();
    for d in tcx.associated_item_def_ids(did).iter() {
        if matches!(tcx.def_kind(*d), DefKind::AssocTy) {
            let t = tcx.type_of(*d).instantiate_identity().skip_norm_wip();
            ats.set(&tcx.item_name(*d).to_string(), J::s(t.to_string()));
        }
    }
    o.set("assoc_tys", ats);
    let gk: Vec<J> = g
        .own_params
        .iter()
        .map(|p| {
            J::s(match p.kind {
                ty::GenericParamDefKind::Lifetime => "lifetime",
                ty::GenericParamDefKind::Type { .. } => "type",
                ty::GenericParamDefKind::Const { .. } => "const",
            })
        })
        .collect();
    o.set("generic_kinds", J::Arr(gk));
    o
}

struct UnsafeVisitor<'tcx> {
    tcx: TyCtxt<'tcx>,
    sites: Vec<J>,
}

impl<'tcx> Visitor<'tcx> for UnsafeVisitor<'tcx> {
    type NestedFilter = rustc_middle::hir::nested_filter::OnlyBodies;
    fn maybe_tcx(&mut self) -> Self::MaybeTyCtxt {
        self.tcx
    }
    fn visit_block(&mut self, b: &'tcx rustc_hir::Block<'tcx>) {
        if let rustc_hir::BlockCheckMode::UnsafeBlock(src) = b.rules {
            let owner = self.tcx.hir_enclosing_body_owner(b.hir_id);
            let mut o = J::obj();
            o.set("span", span_j(self.tcx, b.span));
            o.set("enclosing", J::s(self.tcx.def_path_str(owner.to_def_id())));
            o.set("user", J::Bool(matches!(src, rustc_hir::UnsafeSource::UserProvided)));
            o.set("expansion", J::Bool(b.span.from_expansion()));
            self.sites.push(o);
        }
        intravisit::walk_block(self, b);
    }
}

// ---------------------------------------------------------------------------
// MIR

struct Cx<'a, 'tcx> {
    tcx: TyCtxt<'tcx>,
    body: &'a Body<'tcx>,
    env: TypingEnv<'tcx>,
}

fn body_j<'tcx>(tcx: TyCtxt<'tcx>, ldid: LocalDefId, body: &Body<'tcx>) -> J {
    let did = ldid.to_def_id();
    let cx = Cx { tcx, body, env: TypingEnv::post_analysis(tcx, did) };
    let mut o = J::obj();
    o.set("id", J::s(tcx.def_path_str(did)));
    o.set("span", span_j(tcx, tcx.def_span(did)));
    let kind = tcx.def_kind(did);
    o.set(
        "kind",
        J::s(match kind {
            DefKind::Closure => "closure",
            DefKind::AssocFn => "method",
            DefKind::Const { .. } | DefKind::AssocConst { .. } => "const",
            _ => "fn",
        }),
    );
    // owner item (strip closures)
    let mut owner = did;
    while tcx.def_kind(owner) == DefKind::Closure {
        owner = tcx.parent(owner);
    }
    o.set("owner_fn", J::s(tcx.def_path_str(owner)));
    o.set("name", J::s(tcx.opt_item_name(owner).map(|s| s.to_string()).unwrap_or_default()));
    if tcx.def_kind(owner) == DefKind::AssocFn {
        let parent = tcx.parent(owner);
        if let DefKind::Impl { .. } = tcx.def_kind(parent) {
            o.set("impl", J::s(tcx.def_path_str(parent)));
            let self_ty = tcx.type_of(parent).instantiate_identity().skip_norm_wip();
            o.set("self_ty", J::s(self_ty.to_string()));
            if let ty::Adt(a, _) = self_ty.kind() {
                o.set("self_adt", J::s(tcx.def_path_str(a.did())));
            }
            if tcx.impl_opt_trait_ref(parent).is_some() {
                let tr = tcx.impl_trait_header(parent).trait_ref.instantiate_identity().skip_norm_wip();
                o.set("impl_trait", J::s(tcx.def_path_str(tr.def_id)));
            }
        } else if let DefKind::Trait = tcx.def_kind(parent) {
            o.set("in_trait", J::s(tcx.def_path_str(parent)));
        }
    }
    if matches!(kind, DefKind::Fn | DefKind::AssocFn) {
        let sig = tcx.fn_sig(did).instantiate_identity().skip_norm_wip();
        o.set("unsafe_fn", J::Bool(sig.safety().is_unsafe()));
        o.set("vis", J::s(vis_str(tcx, tcx.visibility(did))));
    }
    o.set("from_expansion", J::Bool(tcx.def_span(did).from_expansion()));
    o.set("args", J::Int(body.arg_count as i128));
    // locals
    let mut names: Vec<Option<String>> = vec![None; body.local_decls.len()];
    let mut upvar_names = Vec::new();
    for vdi in &body.var_debug_info {
        if let mir::VarDebugInfoContents::Place(p) = &vdi.value {
            if p.projection.is_empty() {
                names[p.local.as_usize()] = Some(vdi.name.to_string());
            } else {
                let mut u = J::obj();
                u.set("name", J::s(vdi.name.to_string()));
                u.set("place", cx.place_j(p.as_ref()));
                upvar_names.push(u);
            }
        }
    }
    let mut locals = Vec::new();
    for (l, decl) in body.local_decls.iter_enumerated() {
        let mut lo = J::obj();
        lo.set("ty", J::s(decl.ty.to_string()));
        if let Some(n) = &names[l.as_usize()] {
            lo.set("name", J::s(n.clone()));
        }
        if let Some(a) = adt_of(tcx, decl.ty) {
            lo.set("adt", J::s(a));
        }
        locals.push(lo);
    }
    o.set("locals", J::Arr(locals));
    o.set("upvars", J::Arr(upvar_names));
    let mut blocks = Vec::new();
    for (_bb, data) in body.basic_blocks.iter_enumerated() {
        blocks.push(cx.block_j(data));
    }
    o.set("blocks", J::Arr(blocks));
    // promoted constants (e.g. `&SchemaNode::String`): their tiny bodies, so that provenance can see through them
    let mut proms = Vec::new();
    for pbody in tcx.promoted_mir(did).iter() {
        let pcx = Cx { tcx, body: pbody, env: TypingEnv::post_analysis(tcx, did) };
        let mut pb = Vec::new();
        for (_bb, data) in pbody.basic_blocks.iter_enumerated() {
            pb.push(pcx.block_j(data));
        }
        proms.push(J::Arr(pb));
    }
    o.set("promoted", J::Arr(proms));
    o
}

fn adt_of<'tcx>(tcx: TyCtxt<'tcx>, ty: Ty<'tcx>) -> Option<String> {
    let t = ty.peel_refs();
    match t.kind() {
        ty::Adt(a, _) => Some(tcx.def_path_str(a.did())),
        _ => None,
    }
}

impl<'a, 'tcx> Cx<'a, 'tcx> {
    fn block_j(&self, data: &BasicBlockData<'tcx>) -> J {
        let mut o = J::obj();
        if data.is_cleanup {
            o.set("cleanup", J::Bool(true));
        }
        let mut stmts = Vec::new();
        for st in &data.statements {
            match &st.kind {
                StatementKind::Assign(b) => {
                    let (place, rv) = &**b;
                    let mut s = J::obj();
                    s.set("assign", self.place_j(place.as_ref()));
                    s.set("rv", self.rvalue_j(rv));
                    s.set("span", span_j(self.tcx, st.source_info.span));
                    stmts.push(s);
                }
                StatementKind::SetDiscriminant { place, variant_index } => {
                    let mut s = J::obj();
                    s.set("set_discr", self.place_j((**place).as_ref()));
                    s.set("variant", J::Int(variant_index.as_u32() as i128));
                    stmts.push(s);
                }
                StatementKind::Intrinsic(i) => {
                    let mut s = J::obj();
                    s.set("intrinsic", J::s(format!("{:?}", i)));
                    stmts.push(s);
                }
                _ => {}
            }
        }
        o.set("stmts", J::Arr(stmts));
        let term = data.terminator();
        o.set("term", self.term_j(term));
        o
    }

    fn term_j(&self, term: &mir::Terminator<'tcx>) -> J {
        let mut o = J::obj();
        let sp = span_j(self.tcx, term.source_info.span);
        match &term.kind {
            TerminatorKind::Goto { target } => {
                o.set("k", J::s("goto"));
                o.set("target", J::Int(target.as_u32() as i128));
            }
            TerminatorKind::SwitchInt { discr, targets } => {
                o.set("k", J::s("switch"));
                o.set("op", self.operand_j(discr));
                o.set("ty", J::s(discr.ty(self.body, self.tcx).to_string()));
                let mut ts = Vec::new();
                for (v, bb) in targets.iter() {
                    let mut t = J::obj();
                    t.set("v", J::Int(v as i128));
                    t.set("bb", J::Int(bb.as_u32() as i128));
                    ts.push(t);
                }
                o.set("targets", J::Arr(ts));
                o.set("otherwise", J::Int(targets.otherwise().as_u32() as i128));
                o.set("span", sp);
            }
            TerminatorKind::Return => {
                o.set("k", J::s("return"));
            }
            TerminatorKind::Unreachable => {
                o.set("k", J::s("unreachable"));
            }
            TerminatorKind::UnwindResume => {
                o.set("k", J::s("resume"));
            }
            TerminatorKind::UnwindTerminate(_) => {
                o.set("k", J::s("terminate"));
            }
            TerminatorKind::Drop { place, target, unwind, .. } => {
                o.set("k", J::s("drop"));
                o.set("place", self.place_j(place.as_ref()));
                o.set("ty", J::s(place.ty(self.body, self.tcx).ty.to_string()));
                o.set("target", J::Int(target.as_u32() as i128));
                if let mir::UnwindAction::Cleanup(bb) = unwind {
                    o.set("unwind", J::Int(bb.as_u32() as i128));
                }
                o.set("span", sp);
            }
            TerminatorKind::Call { func, args, destination, target, unwind, fn_span, .. } => {
                o.set("k", J::s("call"));
                self.callee_j(&mut o, func);
                let a: Vec<J> = args.iter().map(|a| self.operand_j(&a.node)).collect();
                o.set("args", J::Arr(a));
                let at: Vec<J> = args
                    .iter()
                    .map(|a| J::s(a.node.ty(self.body, self.tcx).to_string()))
                    .collect();
                o.set("arg_tys", J::Arr(at));
                o.set("dest", self.place_j(destination.as_ref()));
                if let Some(t) = target {
                    o.set("target", J::Int(t.as_u32() as i128));
                }
                if let mir::UnwindAction::Cleanup(bb) = unwind {
                    o.set("unwind", J::Int(bb.as_u32() as i128));
                }
                o.set("span", sp);
                o.set("fn_span", span_j(self.tcx, *fn_span));
            }
            TerminatorKind::TailCall { func, args, .. } => {
                o.set("k", J::s("tailcall"));
                self.callee_j(&mut o, func);
                let a: Vec<J> = args.iter().map(|a| self.operand_j(&a.node)).collect();
                o.set("args", J::Arr(a));
                o.set("span", sp);
            }
            TerminatorKind::Assert { cond, expected, msg, target, unwind } => {
                o.set("k", J::s("assert"));
                o.set("cond", self.operand_j(cond));
                o.set("expected", J::Bool(*expected));
                let kind = match &**msg {
                    mir::AssertKind::BoundsCheck { .. } => "bounds".to_string(),
                    mir::AssertKind::Overflow(op, _, _) => format!("overflow({:?})", op),
                    mir::AssertKind::OverflowNeg(_) => "neg_overflow".to_string(),
                    mir::AssertKind::DivisionByZero(_) => "div_zero".to_string(),
                    mir::AssertKind::RemainderByZero(_) => "rem_zero".to_string(),
                    mir::AssertKind::MisalignedPointerDereference { .. } => "misaligned".to_string(),
                    mir::AssertKind::NullPointerDereference => "null".to_string(),
                    other => format!("other({:?})", std::mem::discriminant(other)),
                };
                o.set("kind", J::s(kind));
                o.set("target", J::Int(target.as_u32() as i128));
                if let mir::UnwindAction::Cleanup(bb) = unwind {
                    o.set("unwind", J::Int(bb.as_u32() as i128));
                }
                o.set("span", sp);
            }
            other => {
                o.set("k", J::s("other"));
                o.set("text", J::s(format!("{:?}", std::mem::discriminant(other))));
                let succ: Vec<J> =
                    term.successors().map(|b| J::Int(b.as_u32() as i128)).collect();
                o.set("succ", J::Arr(succ));
            }
        }
        o
    }

    fn callee_j(&self, o: &mut J, func: &Operand<'tcx>) {
        let fty = func.ty(self.body, self.tcx);
        if let ty::FnDef(def_id, args) = fty.kind() {
            let def_id = *def_id;
            o.set("callee", J::s(self.tcx.def_path_str(def_id)));
            o.set("callee_full", J::s(self.tcx.def_path_str_with_args(def_id, args)));
            o.set("callee_crate", J::s(self.tcx.crate_name(def_id.krate).to_string()));
            let substs: Vec<J> = args.iter().map(|a| J::s(a.to_string())).collect();
            o.set("substs", J::Arr(substs));
            if let Some(tr) = self.tcx.trait_of_assoc(def_id) {
                o.set("trait", J::s(self.tcx.def_path_str(tr)));
                o.set("method", J::s(self.tcx.opt_item_name(def_id).map(|s| s.to_string()).unwrap_or_default()));
            } else if let Some(imp) = self.tcx.impl_of_assoc(def_id) {
                let st = self.tcx.type_of(imp).instantiate_identity().skip_norm_wip();
                o.set("impl_self", J::s(st.to_string()));
                if let ty::Adt(a, _) = st.kind() {
                    o.set("impl_adt", J::s(self.tcx.def_path_str(a.did())));
                }
                o.set("method", J::s(self.tcx.opt_item_name(def_id).map(|s| s.to_string()).unwrap_or_default()));
            }
            // resolve
            let resolved = std::panic::catch_unwind(std::panic::AssertUnwindSafe(|| {
                Instance::try_resolve(self.tcx, self.env, def_id, args)
            }));
            if let Ok(Ok(Some(inst))) = resolved {
                let rd = inst.def_id();
                if rd != def_id {
                    o.set("resolved", J::s(self.tcx.def_path_str(rd)));
                    if let Some(imp) = self.tcx.impl_of_assoc(rd) {
                        let st = self.tcx.type_of(imp).instantiate_identity().skip_norm_wip();
                        o.set("resolved_self", J::s(st.to_string()));
                    }
                }
                if let ty::InstanceKind::Virtual(..) = inst.def {
                    o.set("virtual", J::Bool(true));
                }
            }
            let sig = self.tcx.fn_sig(def_id).instantiate_identity().skip_norm_wip();
            if sig.safety().is_unsafe() {
                o.set("unsafe_callee", J::Bool(true));
            }
        } else {
            o.set("callee_op", self.operand_j(func));
            o.set("callee_ty", J::s(fty.to_string()));
        }
    }

    fn place_j(&self, p: PlaceRef<'tcx>) -> J {
        let mut o = J::obj();
        o.set("l", J::Int(p.local.as_u32() as i128));
        if !p.projection.is_empty() {
            let mut pr = Vec::new();
            for (base, elem) in p.iter_projections() {
                match elem {
                    ProjectionElem::Deref => pr.push(J::s("*")),
                    ProjectionElem::Field(f, _) => {
                        let bt = base.ty(self.body, self.tcx);
                        let mut fo = J::obj();
                        fo.set("i", J::Int(f.as_u32() as i128));
                        if let ty::Adt(adt, _) = bt.ty.kind() {
                            let vi = bt.variant_index.unwrap_or(rustc_abi::FIRST_VARIANT);
                            if vi.as_usize() < adt.variants().len() {
                                let v = adt.variant(vi);
                                if f.as_usize() < v.fields.len() {
                                    fo.set("f", J::s(v.fields[f].name.to_string()));
                                }
                            }
                            fo.set("of", J::s(self.tcx.def_path_str(adt.did())));
                        }
                        pr.push(fo);
                    }
                    ProjectionElem::Downcast(name, vi) => {
                        let mut d = J::obj();
                        let nm = match name {
                            Some(n) => n.to_string(),
                            None => {
                                let bt = base.ty(self.body, self.tcx);
                                if let ty::Adt(adt, _) = bt.ty.kind() {
                                    adt.variant(vi).name.to_string()
                                } else {
                                    format!("#{}", vi.as_u32())
                                }
                            }
                        };
                        d.set("as", J::s(nm));
                        pr.push(d);
                    }
                    ProjectionElem::Index(l) => {
                        let mut d = J::obj();
                        d.set("idx", J::Int(l.as_u32() as i128));
                        pr.push(d);
                    }
                    ProjectionElem::ConstantIndex { offset, from_end, .. } => {
                        let mut d = J::obj();
                        d.set("cidx", J::Int(offset as i128));
                        d.set("from_end", J::Bool(from_end));
                        pr.push(d);
                    }
                    ProjectionElem::Subslice { from, to, from_end } => {
                        let mut d = J::obj();
                        d.set("sub", J::Arr(vec![J::Int(from as i128), J::Int(to as i128)]));
                        d.set("from_end", J::Bool(from_end));
                        pr.push(d);
                    }
                    _ => pr.push(J::s("?")),
                }
            }
            o.set("p", J::Arr(pr));
        }
        o
    }

    fn operand_j(&self, op: &Operand<'tcx>) -> J {
        let mut o = J::obj();
        match op {
            Operand::Copy(p) => o.set("copy", self.place_j(p.as_ref())),
            Operand::Move(p) => o.set("move", self.place_j(p.as_ref())),
            Operand::Constant(c) => {
                o.set("const", self.const_j(&c.const_));
            }
            _ => o.set("runtime_check", J::Bool(true)),
        }
        o
    }

    fn const_j(&self, c: &mir::Const<'tcx>) -> J {
        let ty = c.ty();
        let mut o = J::obj();
        o.set("ty", J::s(ty.to_string()));
        if let ty::FnDef(d, args) = ty.kind() {
            o.set("fn", J::s(self.tcx.def_path_str(*d)));
            o.set("fn_full", J::s(self.tcx.def_path_str_with_args(*d, args)));
            return o;
        }
        if let mir::Const::Unevaluated(uv, _) = c {
            o.set("named", J::s(self.tcx.def_path_str(uv.def)));
            if let Some(p) = uv.promoted {
                o.set("promoted", J::Int(p.as_u32() as i128));
            }
        }
        let ev = std::panic::catch_unwind(std::panic::AssertUnwindSafe(|| {
            c.eval(self.tcx, self.env, rustc_span::DUMMY_SP)
        }));
        match ev {
            Ok(Ok(v)) => {
                let vj = const_value_j(self.tcx, v, ty);
                o.set("val", vj);
            }
            _ => {
                o.set("text", J::s(format!("{}", c)));
            }
        }
        o
    }

    fn rvalue_j(&self, rv: &Rvalue<'tcx>) -> J {
        let mut o = J::obj();
        match rv {
            Rvalue::Use(op, ..) => {
                o.set("k", J::s("use"));
                o.set("op", self.operand_j(op));
            }
            Rvalue::Repeat(op, n) => {
                o.set("k", J::s("repeat"));
                o.set("op", self.operand_j(op));
                o.set("n", J::s(format!("{}", n)));
            }
            Rvalue::Ref(_, bk, p) => {
                o.set("k", J::s("ref"));
                o.set("mut", J::Bool(matches!(bk, mir::BorrowKind::Mut { .. })));
                o.set("place", self.place_j(p.as_ref()));
            }
            Rvalue::RawPtr(k, p) => {
                o.set("k", J::s("rawptr"));
                o.set("mut", J::Bool(matches!(k, mir::RawPtrKind::Mut)));
                o.set("place", self.place_j(p.as_ref()));
            }
            Rvalue::Cast(kind, op, ty) => {
                o.set("k", J::s("cast"));
                let ck = match kind {
                    CastKind::IntToInt => "IntToInt".to_string(),
                    CastKind::FloatToInt => "FloatToInt".to_string(),
                    CastKind::FloatToFloat => "FloatToFloat".to_string(),
                    CastKind::IntToFloat => "IntToFloat".to_string(),
                    CastKind::PtrToPtr => "PtrToPtr".to_string(),
                    CastKind::FnPtrToPtr => "FnPtrToPtr".to_string(),
                    CastKind::Transmute => "Transmute".to_string(),
                    CastKind::PointerCoercion(pc, _) => format!("Coerce({:?})", pc),
                    CastKind::PointerExposeProvenance => "ExposeProvenance".to_string(),
                    CastKind::PointerWithExposedProvenance => "WithExposedProvenance".to_string(),
                    other => format!("{:?}", other),
                };
                o.set("cast", J::s(ck));
                o.set("op", self.operand_j(op));
                o.set("from", J::s(op.ty(self.body, self.tcx).to_string()));
                o.set("to", J::s(ty.to_string()));
            }
            Rvalue::BinaryOp(op, b) => {
                o.set("k", J::s("bin"));
                o.set("op", J::s(format!("{:?}", op)));
                o.set("l", self.operand_j(&b.0));
                o.set("r", self.operand_j(&b.1));
                o.set("lty", J::s(b.0.ty(self.body, self.tcx).to_string()));
            }
            Rvalue::UnaryOp(op, a) => {
                o.set("k", J::s("un"));
                o.set("op", J::s(format!("{:?}", op)));
                o.set("a", self.operand_j(a));
            }
            Rvalue::Discriminant(p) => {
                o.set("k", J::s("discr"));
                o.set("place", self.place_j(p.as_ref()));
                let pt = p.ty(self.body, self.tcx).ty;
                if let ty::Adt(a, _) = pt.kind() {
                    o.set("adt", J::s(self.tcx.def_path_str(a.did())));
                    if !a.did().is_local() && a.is_enum() {
                        // variant names of foreign enums (codec status enums, Option, ...)
                        let mut vs = Vec::new();
                        for (vi, v) in a.variants().iter_enumerated() {
                            let d = a.discriminant_for_variant(self.tcx, vi);
                            let mut vo = J::obj();
                            vo.set("name", J::s(v.name.to_string()));
                            vo.set("discr", J::Int(d.val as i128));
                            vs.push(vo);
                        }
                        o.set("variants", J::Arr(vs));
                    }
                }
            }
            Rvalue::Aggregate(kind, ops) => {
                o.set("k", J::s("agg"));
                match &**kind {
                    AggregateKind::Array(_) => o.set("agg", J::s("array")),
                    AggregateKind::Tuple => o.set("agg", J::s("tuple")),
                    AggregateKind::Adt(did, vi, _, _, _) => {
                        o.set("agg", J::s("adt"));
                        o.set("adt", J::s(self.tcx.def_path_str(*did)));
                        let adt = self.tcx.adt_def(*did);
                        let v = adt.variant(*vi);
                        o.set("variant", J::s(v.name.to_string()));
                        let fs: Vec<J> =
                            v.fields.iter().map(|f| J::s(f.name.to_string())).collect();
                        o.set("fields", J::Arr(fs));
                    }
                    AggregateKind::Closure(did, _) => {
                        o.set("agg", J::s("closure"));
                        o.set("closure", J::s(self.tcx.def_path_str(*did)));
                    }
                    AggregateKind::RawPtr(..) => o.set("agg", J::s("rawptr")),
                    _ => o.set("agg", J::s("other")),
                }
                let os: Vec<J> = ops.iter().map(|x| self.operand_j(x)).collect();
                o.set("ops", J::Arr(os));
            }
            Rvalue::CopyForDeref(p) => {
                o.set("k", J::s("use"));
                let mut op = J::obj();
                op.set("copy", self.place_j(p.as_ref()));
                o.set("op", op);
            }
            other => {
                o.set("k", J::s("other"));
                o.set("text", J::s(format!("{:?}", other)));
            }
        }
        o
    }
}

fn bytes_hex(b: &[u8]) -> String {
    let mut s = String::with_capacity(b.len() * 2);
    for x in b {
        s.push_str(&format!("{:02x}", x));
    }
    s
}

fn const_value_j<'tcx>(tcx: TyCtxt<'tcx>, v: mir::ConstValue, ty: Ty<'tcx>) -> J {
    let mut o = J::obj();
    match v {
        mir::ConstValue::Scalar(mir::interpret::Scalar::Int(i)) => {
            let size = i.size();
            let bits = i.to_bits(size);
            let signed = matches!(ty.kind(), ty::Int(_));
            let val: i128 = if signed { size.sign_extend(bits) as i128 } else { bits as i128 };
            if bits > i128::MAX as u128 && !signed {
                o.set("uint", J::s(bits.to_string()));
            } else {
                o.set("int", J::Int(val));
            }
        }
        mir::ConstValue::Scalar(mir::interpret::Scalar::Ptr(ptr, _)) => {
            let (prov, off) = ptr.into_raw_parts();
            let aid = prov.alloc_id();
            if let Some(rustc_middle::mir::interpret::GlobalAlloc::Memory(a)) =
                tcx.try_get_global_alloc(aid)
            {
                let a = a.inner();
                let len = a.len();
                if len <= 8192 && a.provenance().ptrs().is_empty() {
                    let bytes = a.inspect_with_uninit_and_ptr_outside_interpreter(0..len);
                    o.set("ptr_bytes", J::s(bytes_hex(bytes)));
                    o.set("off", J::Int(off.bytes() as i128));
                } else {
                    o.set("ptr", J::s("alloc"));
                }
            } else {
                o.set("ptr", J::s("nonmem"));
            }
        }
        mir::ConstValue::ZeroSized => {
            o.set("zst", J::Bool(true));
        }
        mir::ConstValue::Slice { alloc_id, meta } => {
            if let Some(rustc_middle::mir::interpret::GlobalAlloc::Memory(a)) =
                tcx.try_get_global_alloc(alloc_id)
            {
                let a = a.inner();
                let n = (meta as usize).min(a.len());
                let bytes = a.inspect_with_uninit_and_ptr_outside_interpreter(0..n);
                if matches!(ty.peel_refs().kind(), ty::Str) {
                    o.set("str", J::s(String::from_utf8_lossy(bytes).to_string()));
                } else {
                    o.set("bytes", J::s(bytes_hex(bytes)));
                }
            }
        }
        mir::ConstValue::Indirect { alloc_id, offset } => {
            if let Some(rustc_middle::mir::interpret::GlobalAlloc::Memory(a)) =
                tcx.try_get_global_alloc(alloc_id)
            {
                let a = a.inner();
                let len = a.len();
                if len <= 8192 && a.provenance().ptrs().is_empty() {
                    let bytes = a.inspect_with_uninit_and_ptr_outside_interpreter(0..len);
                    o.set("mem", J::s(bytes_hex(bytes)));
                    o.set("off", J::Int(offset.bytes() as i128));
                } else {
                    o.set("mem_opaque", J::Bool(true));
                }
            }
        }
    }
    o
}
