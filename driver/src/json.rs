// Minimal JSON value + writer (the driver has no dependencies).
use std::fmt::Write;

pub enum J {
    Bool(bool),
    Int(i128),
    Str(String),
    Arr(Vec<J>),
    Obj(Vec<(String, J)>),
}

impl J {
    pub fn obj() -> J {
        J::Obj(Vec::new())
    }
    pub fn s<S: Into<String>>(s: S) -> J {
        J::Str(s.into())
    }
    pub fn set(&mut self, k: &str, v: J) {
        if let J::Obj(o) = self {
            o.push((k.to_string(), v));
        }
    }
    pub fn to_string(&self) -> String {
        let mut out = String::new();
        self.write(&mut out);
        out
    }
    fn write(&self, out: &mut String) {
        match self {
            J::Bool(b) => out.push_str(if *b { "true" } else { "false" }),
            J::Int(i) => {
                let _ = write!(out, "{}", i);
            }
            J::Str(s) => esc(s, out),
            J::Arr(a) => {
                out.push('[');
                for (i, x) in a.iter().enumerate() {
                    if i > 0 {
                        out.push(',');
                    }
                    x.write(out);
                }
                out.push(']');
            }
            J::Obj(o) => {
                out.push('{');
                for (i, (k, v)) in o.iter().enumerate() {
                    if i > 0 {
                        out.push(',');
                    }
                    esc(k, out);
                    out.push(':');
                    v.write(out);
                }
                out.push('}');
            }
        }
    }
}

fn esc(s: &str, out: &mut String) {
    out.push('"');
    for c in s.chars() {
        match c {
            '"' => out.push_str("\\\""),
            '\\' => out.push_str("\\\\"),
            '\n' => out.push_str("\\n"),
            '\r' => out.push_str("\\r"),
            '\t' => out.push_str("\\t"),
            c if (c as u32) < 0x20 => {
                let _ = write!(out, "\\u{:04x}", c as u32);
            }
            c => out.push(c),
        }
    }
    out.push('"');
}
