"""Analysis core: fact loading, CFG, dominators, regions, provenance.

Pure Python over the JSON facts written by driver/ (factgen).  Nothing of the
analysed crate is executed.
"""
import json, os, re, sys
from collections import defaultdict


class Inconclusive(Exception):
    """Facts unusable / anchor not found: fail closed without inventing a violation."""


def op_place(op):
    if op is None:
        return None
    return op.get('copy') or op.get('move')


def op_const(op):
    return op.get('const') if op else None


def const_int(op):
    c = op_const(op)
    if c and 'val' in c and 'int' in c['val']:
        return c['val']['int']
    return None


def const_str(op):
    c = op_const(op)
    if c and 'val' in c and 'str' in c['val']:
        return c['val']['str']
    return None


def const_bytes(op):
    """bytes of a const operand that is &[u8;N] / &[u8] / [u8;N] (hex decoded) or None"""
    c = op_const(op)
    if not c or 'val' not in c:
        return None
    v = c['val']
    for k in ('bytes', 'ptr_bytes', 'mem'):
        if k in v:
            return bytes.fromhex(v[k])
    if 'str' in v:
        return v['str'].encode()
    return None


def place_str(p):
    s = '_%d' % p['l']
    for e in p.get('p', []):
        if e == '*':
            s = '(*%s)' % s
        elif isinstance(e, dict):
            if 'f' in e:
                s += '.' + e['f']
            elif 'i' in e:
                s += '.%d' % e['i']
            elif 'as' in e:
                s = '(%s as %s)' % (s, e['as'])
            elif 'idx' in e:
                s += '[_%d]' % e['idx']
            elif 'cidx' in e:
                s += '[%s%d]' % ('-' if e.get('from_end') else '', e['cidx'])
            elif 'sub' in e:
                s += '[%d..%s%d]' % (e['sub'][0], '-' if e.get('from_end') else '', e['sub'][1])
        else:
            s += '?'
    return s


def op_str(op):
    if op is None:
        return '?'
    if 'copy' in op:
        return place_str(op['copy'])
    if 'move' in op:
        return 'move ' + place_str(op['move'])
    c = op.get('const')
    if c:
        if 'fn' in c:
            return 'fn ' + c['fn']
        v = c.get('val', {})
        if 'int' in v:
            return 'const %d%s' % (v['int'], '_' + c['ty'] if c['ty'] else '')
        if 'str' in v:
            return 'const %r' % v['str']
        for k in ('bytes', 'ptr_bytes', 'mem'):
            if k in v:
                return 'const b[%s]' % v[k][:64]
        if 'named' in c:
            return 'const ' + c['named']
        return 'const <%s>' % c['ty']
    return '<rt>'


def rv_str(rv):
    k = rv['k']
    if k == 'use':
        return op_str(rv['op'])
    if k == 'ref':
        return '&%s%s' % ('mut ' if rv['mut'] else '', place_str(rv['place']))
    if k == 'rawptr':
        return '&raw %s%s' % ('mut ' if rv['mut'] else 'const ', place_str(rv['place']))
    if k == 'cast':
        return '%s as %s (%s)' % (op_str(rv['op']), rv['to'], rv['cast'])
    if k == 'bin':
        return '%s(%s, %s)' % (rv['op'], op_str(rv['l']), op_str(rv['r']))
    if k == 'un':
        return '%s(%s)' % (rv['op'], op_str(rv['a']))
    if k == 'discr':
        return 'discriminant(%s)' % place_str(rv['place'])
    if k == 'agg':
        nm = rv['agg']
        if nm == 'adt':
            nm = '%s::%s' % (rv['adt'], rv['variant'])
        elif nm == 'closure':
            nm = 'closure ' + rv['closure']
        return '%s{%s}' % (nm, ', '.join(op_str(o) for o in rv['ops']))
    if k == 'repeat':
        return '[%s; %s]' % (op_str(rv['op']), rv['n'])
    return rv.get('text', k)


def loc(span):
    if not span:
        return '?'
    return span.get('loc', '?')


def short_loc(span):
    l = loc(span)
    if l.startswith('/'):
        # strip the absolute prefix of whatever checkout was analysed
        for marker in ('/serde_avro_fast/', '/serde_avro_derive_macros/', '/serde_avro_derive/'):
            i = l.find(marker)
            if i >= 0:
                return l[i + 1:]
    return l


class Body:
    def __init__(self, facts, j):
        self.facts = facts
        self.j = j
        self.id = j['id']
        self.blocks = j['blocks']
        self.n = len(self.blocks)
        self.locals = j['locals']
        self.nargs = j['args']
        self._succ = None
        self._pred = None
        self._dom = None
        self._pdom = None
        self._defs = None
        self._reach_cache = {}

    # ---- basics
    def __repr__(self):
        return '<Body %s>' % self.id

    @property
    def name(self):
        return self.j.get('name', '')

    @property
    def span(self):
        return self.j.get('span')

    def term(self, bb):
        return self.blocks[bb]['term']

    def stmts(self, bb):
        return self.blocks[bb]['stmts']

    def is_cleanup(self, bb):
        return self.blocks[bb].get('cleanup', False)

    def succs(self, bb):
        """non-unwind successors"""
        if self._succ is None:
            self._succ = []
            for b in self.blocks:
                t = b['term']
                k = t['k']
                if k == 'goto':
                    s = [t['target']]
                elif k == 'switch':
                    s = [x['bb'] for x in t['targets']] + [t['otherwise']]
                elif k in ('call', 'drop', 'assert'):
                    s = [t['target']] if 'target' in t else []
                elif k == 'other':
                    s = list(t.get('succ', []))
                else:
                    s = []
                # dedupe, keep order
                seen = []
                for x in s:
                    if x not in seen:
                        seen.append(x)
                self._succ.append(seen)
        return self._succ[bb]

    def preds(self, bb):
        if self._pred is None:
            self._pred = [[] for _ in range(self.n)]
            for b in range(self.n):
                for s in self.succs(b):
                    self._pred[s].append(b)
        return self._pred[bb]

    def reachable_from(self, start, avoid=()):
        """set of blocks reachable from `start` (a block or iterable) without entering `avoid`"""
        avoid = set(avoid)
        if isinstance(start, int):
            start = [start]
        seen = set()
        st = [s for s in start if s not in avoid]
        while st:
            b = st.pop()
            if b in seen:
                continue
            seen.add(b)
            for s in self.succs(b):
                if s not in seen and s not in avoid:
                    st.append(s)
        return seen

    def live_blocks(self):
        if 'live' not in self._reach_cache:
            self._reach_cache['live'] = self.reachable_from(0)
        return self._reach_cache['live']

    # ---- dominators (Cooper-Harvey-Kennedy)
    def _compute_dom(self, succs, preds, roots, n):
        # virtual root n
        order = []
        seen = set()

        def dfs(r):
            stack = [(r, iter(succs(r)))]
            seen.add(r)
            while stack:
                node, it = stack[-1]
                adv = False
                for s in it:
                    if s not in seen:
                        seen.add(s)
                        stack.append((s, iter(succs(s))))
                        adv = True
                        break
                if not adv:
                    order.append(node)
                    stack.pop()
        for r in roots:
            if r not in seen:
                dfs(r)
        rpo = list(reversed(order))
        idx = {b: i + 1 for i, b in enumerate(rpo)}
        idx[n] = 0
        idom = {n: n}
        rootset = set(roots)

        def intersect(a, b):
            while a != b:
                while idx[a] > idx[b]:
                    a = idom[a]
                while idx[b] > idx[a]:
                    b = idom[b]
            return a
        changed = True
        while changed:
            changed = False
            for b in rpo:
                ps = [p for p in preds(b) if p in idom]
                if b in rootset:
                    ps = ps + [n]
                if not ps:
                    continue
                new = ps[0]
                for p in ps[1:]:
                    new = intersect(new, p)
                if idom.get(b) != new:
                    idom[b] = new
                    changed = True
        return idom

    def idom(self):
        if self._dom is None:
            self._dom = self._compute_dom(self.succs, self.preds, [0], self.n)
        return self._dom

    def dominates(self, a, b):
        """a dominates b (reflexive)"""
        idom = self.idom()
        if b not in idom:
            return False
        x = b
        while True:
            if x == a:
                return True
            nx = idom.get(x)
            if nx is None or nx == x or nx == self.n:
                return False
            x = nx

    def dominated_by(self, a):
        return {b for b in self.live_blocks() if self.dominates(a, b)}

    def exits(self):
        return [b for b in self.live_blocks() if self.term(b)['k'] in ('return', 'tailcall')]

    def ipdom(self):
        if self._pdom is None:
            ex = self.exits()
            self._pdom = self._compute_dom(self.preds, self.succs, ex, self.n)
        return self._pdom

    def postdominates(self, a, b):
        """a post-dominates b (every path from b to a return passes a)"""
        ip = self.ipdom()
        if b not in ip:
            return False
        x = b
        while True:
            if x == a:
                return True
            nx = ip.get(x)
            if nx is None or nx == x or nx == self.n:
                return False
            x = nx

    # ---- definitions
    def defs(self):
        """local -> list of (bb, idx|'term', kind, payload, lhs_place)"""
        if self._defs is None:
            d = defaultdict(list)
            for bb, b in enumerate(self.blocks):
                for i, s in enumerate(b['stmts']):
                    if 'assign' in s:
                        d[s['assign']['l']].append((bb, i, 'assign', s['rv'], s['assign']))
                    elif 'set_discr' in s:
                        d[s['set_discr']['l']].append((bb, i, 'set_discr', s, s['set_discr']))
                t = b['term']
                if t['k'] == 'call':
                    d[t['dest']['l']].append((bb, 'term', 'call', t, t['dest']))
            self._defs = d
        return self._defs

    def calls(self, live_only=True):
        out = []
        for bb, b in enumerate(self.blocks):
            t = b['term']
            if t['k'] in ('call', 'tailcall'):
                if live_only and bb not in self.live_blocks():
                    continue
                out.append((bb, t))
        return out

    def local_ty(self, l):
        return self.locals[l]['ty']

    def local_name(self, l):
        return self.locals[l].get('name')

    # ---- switch decoding
    def switch_info(self, bb):
        """For a switch terminator: returns dict(kind=..., ...)
        kind 'enum': adt path, place scrutinised, {variant: target}, otherwise target + remaining variants
        kind 'bool'/'int': the operand and value->target."""
        t = self.term(bb)
        if t['k'] != 'switch':
            return None
        p = op_place(t['op'])
        info = {'bb': bb, 'op': t['op'], 'targets': {x['v']: x['bb'] for x in t['targets']},
                'otherwise': t['otherwise'], 'ty': t.get('ty'), 'span': t.get('span')}
        if p and not p.get('p'):
            # find the def in this block (discriminant read)
            for s in reversed(self.stmts(bb)):
                if 'assign' in s and s['assign']['l'] == p['l'] and not s['assign'].get('p'):
                    rv = s['rv']
                    if rv['k'] == 'discr':
                        info['kind'] = 'enum'
                        info['adt'] = rv.get('adt')
                        info['place'] = rv['place']
                        adt = self.facts.adts.get(rv.get('adt'))
                        if adt:
                            by_discr = {v.get('discr', v['idx']): v['name'] for v in adt['variants']}
                        elif rv.get('variants'):
                            by_discr = {v['discr']: v['name'] for v in rv['variants']}
                        else:
                            by_discr = self.facts.ext_enum(rv.get('adt'))
                        vt = {}
                        for val, tb in info['targets'].items():
                            vt[by_discr.get(val, '#%d' % val) if by_discr else '#%d' % val] = tb
                        info['variants'] = vt
                        if by_discr:
                            info['otherwise_variants'] = [n for dv, n in by_discr.items() if dv not in info['targets']]
                        else:
                            info['otherwise_variants'] = None
                        return info
                    info['def_rv'] = rv
                    break
        info['kind'] = 'bool' if t.get('ty') == 'bool' else 'int'
        return info

    def switches_on_adt(self, adt):
        out = []
        for bb in sorted(self.live_blocks()):
            if self.term(bb)['k'] == 'switch':
                si = self.switch_info(bb)
                if si and si.get('kind') == 'enum' and si.get('adt') == adt:
                    out.append(si)
        return out

    def arm_region(self, si, target):
        """blocks 'owned' by a switch target: dominated by the target block, provided the
        target's only live predecessor chain comes from the switch (else empty set => shared)."""
        return self.dominated_by(target)

    # ---- pretty
    def dump(self, out=sys.stdout):
        j = self.j
        out.write('fn %s  [%s]\n' % (self.id, short_loc(j.get('span'))))
        for i, l in enumerate(self.locals):
            out.write('  let _%d: %s%s\n' % (i, l['ty'], ('  // ' + l['name']) if l.get('name') else ''))
        for bb, b in enumerate(self.blocks):
            out.write(' bb%d%s:\n' % (bb, ' (cleanup)' if b.get('cleanup') else ''))
            for s in b['stmts']:
                if 'assign' in s:
                    out.write('    %s = %s\n' % (place_str(s['assign']), rv_str(s['rv'])))
                elif 'set_discr' in s:
                    out.write('    discriminant(%s) = %d\n' % (place_str(s['set_discr']), s['variant']))
                else:
                    out.write('    %s\n' % (s,))
            t = b['term']
            k = t['k']
            if k == 'call' or k == 'tailcall':
                nm = t.get('resolved') or t.get('callee') or ('(%s)' % op_str(t.get('callee_op')))
                extra = ''
                if t.get('resolved'):
                    extra = '  {via %s}' % t.get('callee')
                out.write('    %s = %s(%s) -> %s%s   @%s\n' % (
                    place_str(t['dest']) if 'dest' in t else 'tail', nm,
                    ', '.join(op_str(a) for a in t['args']),
                    'bb%d' % t['target'] if 'target' in t else '!', extra, short_loc(t.get('span'))))
            elif k == 'switch':
                si = self.switch_info(bb)
                if si.get('kind') == 'enum':
                    arms = ', '.join('%s=>bb%d' % (v, tb) for v, tb in si['variants'].items())
                    out.write('    switch %s {%s, _=>bb%d}  [%s of %s]\n' % (op_str(t['op']), arms, t['otherwise'], si.get('adt'), place_str(si['place'])))
                else:
                    arms = ', '.join('%d=>bb%d' % (x['v'], x['bb']) for x in t['targets'])
                    out.write('    switch %s {%s, _=>bb%d}\n' % (op_str(t['op']), arms, t['otherwise']))
            elif k == 'goto':
                out.write('    goto bb%d\n' % t['target'])
            elif k == 'drop':
                out.write('    drop(%s) -> bb%d\n' % (place_str(t['place']), t['target']))
            elif k == 'assert':
                out.write('    assert(%s == %s, %s) -> bb%d  @%s\n' % (op_str(t['cond']), t['expected'], t['kind'], t['target'], short_loc(t.get('span'))))
            else:
                out.write('    %s\n' % k)


def _renumber(x, off_l, off_b, off_p=0):
    """deep copy of a piece of body JSON with local indices shifted by off_l, block indices by off_b and references to
    promoted constants by off_p"""
    if isinstance(x, list):
        return [_renumber(v, off_l, off_b, off_p) for v in x]
    if not isinstance(x, dict):
        return x
    out = {}
    for k, v in x.items():
        if k == 'promoted' and isinstance(v, int) and not isinstance(v, bool):
            out[k] = v + off_p                     # index into the body's list of promoted constants
        elif k == 'l' and isinstance(v, int) and not isinstance(v, bool):
            out[k] = v + off_l                     # place local
        elif k == 'idx' and isinstance(v, int) and not isinstance(v, bool) and set(x.keys()) <= {'idx'}:
            out[k] = v + off_l                     # Index(local) projection element
        elif k in ('target', 'unwind', 'otherwise') and isinstance(v, int) and not isinstance(v, bool):
            out[k] = v + off_b
        elif k == 'targets' and isinstance(v, list):
            out[k] = [dict(t, bb=t['bb'] + off_b) for t in v]
        else:
            out[k] = _renumber(v, off_l, off_b, off_p)
    return out


def _thread_result_returns(j, cj, off_b, off_l, call_t):
    """Path sensitivity across an inlined call.  When an inlined return block is known to produce Result::Ok / Result::Err
    (it assigns that aggregate to the callee's return place) and the caller immediately branches on the result - `?`
    (Try::branch followed by the ControlFlow switch) or a match on its discriminant - the return block is redirected to
    a copy of that continuation in which the switch is replaced by the edge that variant takes.  Without this a helper
    returning `Err(..)` would, in the merged CFG, appear to flow into the caller's success path as well."""
    blocks = j['blocks']
    dest = call_t.get('dest') or {}
    if dest.get('p'):
        return
    dl = dest.get('l')
    T = call_t.get('target')
    if dl is None or T is None or T >= len(blocks):
        return
    ret_local = off_l   # callee _0

    # which variant does the callee's return place hold at the end of each of its blocks?  (a tiny forward dataflow:
    # `_0 = Ok(..)` / `_0 = Err(..)` aggregates and `_0 = FromResidual::from_residual(..)` calls - the `?` error path -
    # set it, anything else that writes _0 clears it, joins keep it only if all predecessors agree)
    n_c = len(cj)
    preds = {i: [] for i in range(n_c)}

    def succ_of(tm):
        out = []
        for k in ('target', 'otherwise'):
            if isinstance(tm.get(k), int):
                out.append(tm[k])
        for x in tm.get('targets', []) or []:
            out.append(x['bb'])
        return out
    for i, cb_ in enumerate(cj):
        for sx in succ_of(cb_['term']):
            if off_b <= sx < off_b + n_c:
                preds[sx - off_b].append(i)
    UNK = '?'
    var_out = {i: None for i in range(n_c)}      # None = not computed yet

    def transfer(i, vin):
        v = vin
        for st in cj[i]['stmts']:
            if 'assign' in st and st['assign'].get('l') == ret_local and not st['assign'].get('p'):
                rv = st['rv']
                v = rv.get('variant') if rv.get('k') == 'agg' and rv.get('adt') == 'core::result::Result' and rv.get('variant') in ('Ok', 'Err') else UNK
        tm = cj[i]['term']
        if tm.get('k') == 'call' and (tm.get('dest') or {}).get('l') == ret_local and not (tm.get('dest') or {}).get('p'):
            v = 'Err' if (tm.get('callee') or '').endswith('FromResidual::from_residual') else UNK
        return v
    changed_ = True
    rounds = 0
    while changed_ and rounds < 50:
        changed_ = False
        rounds += 1
        for i in range(n_c):
            ins = [var_out[p_] for p_ in preds[i] if var_out[p_] is not None]
            vin = UNK if not preds[i] else (ins[0] if ins and all(x == ins[0] for x in ins) and len(ins) == len([p_ for p_ in preds[i] if var_out[p_] is not None]) else (UNK if ins else None))
            if vin is None and preds[i]:
                vin = UNK if rounds > 1 else None
            vo = transfer(i, vin if vin is not None else UNK)
            if vo != var_out[i]:
                var_out[i] = vo
                changed_ = True

    def variant_at_end(i):
        v = var_out.get(i)
        return v if v in ('Ok', 'Err') else None

    def thread(block_obj, variant):
        """block_obj ends with `dest = move ret; goto T`: send it to a continuation specialised for `variant`"""
        tb = blocks[T]
        tt = tb['term']
        if tt.get('k') == 'call' and (tt.get('callee') or '').endswith('Try::branch') and tt.get('args') and \
                (tt['args'][0].get('move') or tt['args'][0].get('copy') or {}).get('l') == dl and 'target' in tt:
            sb = blocks[tt['target']]
            st_ = sb['term']
            if st_.get('k') != 'switch':
                return
            want = 0 if variant == 'Ok' else 1          # ControlFlow: Continue = 0, Break = 1
            tg = [x['bb'] for x in st_.get('targets', []) if x['v'] == want]
            edge = tg[0] if tg else st_.get('otherwise')
            s2 = json.loads(json.dumps(sb))
            s2['term'] = {'k': 'goto', 'target': edge, 'span': st_.get('span'), 'threaded': variant}
            t2 = json.loads(json.dumps(tb))
            t2['term']['target'] = len(blocks) + 1
            t2['term']['threaded'] = variant      # this `?` is known to take the Continue (Ok) / Break (Err) edge
            block_obj['term']['target'] = len(blocks)
            blocks.extend([t2, s2])
        elif tt.get('k') == 'switch':
            op = tt.get('op') or {}
            pl = op.get('move') or op.get('copy') or {}
            isd = [x for x in tb['stmts'] if 'assign' in x and x['assign'].get('l') == pl.get('l') and x['rv'].get('k') == 'discr' and
                   x['rv'].get('adt') == 'core::result::Result' and x['rv']['place'].get('l') == dl and not x['rv']['place'].get('p')]
            if not isd:
                return
            want = 0 if variant == 'Ok' else 1
            tg = [x['bb'] for x in tt.get('targets', []) if x['v'] == want]
            edge = tg[0] if tg else tt.get('otherwise')
            t2 = json.loads(json.dumps(tb))
            t2['term'] = {'k': 'goto', 'target': edge, 'span': tt.get('span'), 'threaded': variant}
            block_obj['term']['target'] = len(blocks)
            blocks.append(t2)

    for ci, cblk in enumerate(list(cj)):
        term = cblk['term']
        if term.get('k') != 'goto' or term.get('target') != T or not cblk['stmts']:
            continue
        last = cblk['stmts'][-1]
        if not ('assign' in last and last['assign'].get('l') == dl and last['rv'].get('k') == 'use'):
            continue
        v = variant_at_end(ci)
        if v:
            thread(cblk, v)
            continue
        # the usual shape: several blocks set _0 to Ok(..) / Err(..) and jump to the one `return` block: give each
        # predecessor whose variant is known its own copy of that block
        for pi in preds[ci]:
            pv = variant_at_end(pi)
            if not pv:
                continue
            pblk = cj[pi]
            r2 = json.loads(json.dumps(cblk))
            idx_new = len(blocks)
            blocks.append(r2)
            pt = pblk['term']
            for k in ('target', 'otherwise'):
                if pt.get(k) == off_b + ci:
                    pt[k] = idx_new
            for x in pt.get('targets', []) or []:
                if x['bb'] == off_b + ci:
                    x['bb'] = idx_new
            thread(r2, pv)


def _strip_generic_args(x):
    out, depth = [], 0
    for ch in x:
        if ch == '<':
            depth += 1
        elif ch == '>':
            depth -= 1
        elif depth == 0:
            out.append(ch)
    return ''.join(out).replace('::::', '::')


def _unique_def(j, l):
    """the one statement / call that defines local l as a whole in the (raw) body j, or None"""
    found = []
    for blk in j['blocks']:
        if blk.get('cleanup'):
            continue
        for st in blk['stmts']:
            a = st.get('assign')
            if a is not None and a.get('l') == l and not a.get('p'):
                found.append(('stmt', st))
        tm = blk['term']
        if tm.get('k') == 'call' and (tm.get('dest') or {}).get('l') == l and not (tm.get('dest') or {}).get('p'):
            found.append(('call', tm))
    return found[0] if len(found) == 1 else None


def _closure_call(j, facts, t):
    """(closure body, [rvalue for each of its parameters]) for `FnOnce::call_once(c, (a, b))` when c is, through plain
    moves, a closure built in this body; None otherwise"""
    if len(t.get('args', [])) != 2:
        return None
    pl = (t['args'][0].get('move') or t['args'][0].get('copy')) if isinstance(t['args'][0], dict) else None
    env_place, cl = None, None
    for _ in range(8):
        if pl is None or pl.get('p'):
            return None
        d = _unique_def(j, pl['l'])
        if d is None or d[0] != 'stmt':
            return None
        rv = d[1]['rv']
        if rv.get('k') == 'agg' and rv.get('agg') == 'closure':
            env_place, cl = {'l': pl['l']}, rv
            break
        if rv.get('k') == 'use':
            pl = (rv['op'].get('move') or rv['op'].get('copy')) if isinstance(rv.get('op'), dict) else None
            continue
        return None
    if cl is None:
        return None
    cb = facts.bodies.get(cl.get('closure'))
    if cb is None or any(x['term'].get('k') == 'call' and (x['term'].get('resolved') or x['term'].get('callee')) == cb.id for x in cb.blocks):
        return None
    n = cb.nargs - 1
    ty1 = cb.local_ty(1) or ''
    if ty1.startswith('&'):
        rvs = [{'k': 'ref', 'mut': ty1.startswith('&mut') or ty1.startswith("&'") and ' mut ' in ty1[:24], 'place': env_place}]
    else:
        rvs = [{'k': 'use', 'op': {'move': env_place}}]
    if n:
        tp = (t['args'][1].get('move') or t['args'][1].get('copy')) if isinstance(t['args'][1], dict) else None
        if tp is None or tp.get('p'):
            return None
        d = _unique_def(j, tp['l'])
        if d is None or d[0] != 'stmt' or d[1]['rv'].get('k') != 'agg' or d[1]['rv'].get('agg') != 'tuple' or len(d[1]['rv'].get('ops', [])) != n:
            return None
        rvs += [{'k': 'use', 'op': o} for o in d[1]['rv']['ops']]
    return cb, rvs


def _generic_instance(facts, fn_id, substs):
    """{type parameter name: concrete type} for a call of the generic function fn_id with `substs` (positional, as rustc
    lists them: lifetimes and types together); only parameters instantiated with something that is not itself a bare
    generic parameter name are mapped"""
    fn = facts.fns.get(fn_id) or {}
    params = {n_: i for i, n_ in enumerate(fn.get('generics') or []) if isinstance(n_, str) and not n_.startswith("'")}
    out = {}
    for name, i in params.items():
        if i < len(substs):
            v = substs[i]
            if isinstance(v, str) and v != name and not re.fullmatch(r'[A-Z]\w{0,2}', v) and not v.startswith("'"):
                out[name] = v
    return out


def inline_helpers(body, is_helper, depth=2, max_blocks=4000):
    """A copy of `body` in which every call to a crate-local function accepted by `is_helper(callee_body)` is replaced
    by the callee's own blocks (arguments assigned to the callee's parameters, its return value assigned to the call's
    destination), recursively up to `depth`.  Lets a rule see through `extract function` refactors.  Calls to
    recursive functions and to functions without a body in the facts are left alone."""
    facts = body.facts
    j = json.loads(json.dumps(body.j))
    changed = False
    work = list(range(len(j['blocks'])))
    budget = {'d': {}}
    level = {i: 0 for i in work}
    while work:
        bi = work.pop(0)
        blk = j['blocks'][bi]
        t = blk['term']
        if t.get('k') != 'call' or 'target' not in t:
            continue
        cid = t.get('resolved') or t.get('callee')
        cb = facts.bodies.get(cid)
        arg_rvs = None
        if blk.get('inlined_from') and (t.get('callee') or '').endswith(('function::FnOnce::call_once', 'function::FnMut::call_mut', 'function::Fn::call')) \
                and level[bi] < depth + 1:
            # a spliced helper calling a closure it was handed (`NameKey::parse(name, || default)`): the closure is part
            # of the caller too - splice its body, with its environment and its (tupled) arguments bound
            cc = _closure_call(j, facts, t)
            if cc is not None and len(cc[0].blocks) + len(j['blocks']) <= max_blocks:
                cb, arg_rvs = cc
        if arg_rvs is None:
            if cb is None or cb.id == body.id or cb.j.get('kind') == 'closure' or level[bi] >= depth:
                continue
            if len(cb.blocks) + len(j['blocks']) > max_blocks or not is_helper(cb):
                continue
            # no self-recursion in the callee
            if any((x['term'].get('resolved') or x['term'].get('callee')) == cb.id for x in cb.blocks if x['term'].get('k') == 'call'):
                continue
            if len(t['args']) != cb.nargs:
                continue
        off_l, off_b = len(j['locals']), len(j['blocks'])
        off_p = len(j.setdefault('promoted', []))
        j['promoted'].extend(json.loads(json.dumps(cb.j.get('promoted', []))))
        cj = _renumber(cb.j['blocks'], off_l, off_b, off_p)
        new_locals = json.loads(json.dumps(cb.j['locals']))
        # a generic helper is spliced as the instance this call site names: `read_identifier::<i32, _>(..)` reads an i32
        gmap = _generic_instance(facts, cb.id, t.get('substs') or [])
        if gmap:
            rx = re.compile(r'(?<![\w:])(%s)(?![\w])' % '|'.join(re.escape(k) for k in gmap))
            sub = lambda x: rx.sub(lambda m: gmap[m.group(1)], x) if isinstance(x, str) else x
            for cblk in cj:
                ct = cblk['term']
                if ct.get('k') == 'call':
                    if ct.get('substs'):
                        ct['substs'] = [sub(x) for x in ct['substs']]
                    if ct.get('arg_tys'):
                        ct['arg_tys'] = [sub(x) for x in ct['arg_tys']]
            for lc in new_locals:
                if isinstance(lc, dict) and 'ty' in lc:
                    lc['ty'] = sub(lc['ty'])
        j['locals'].extend(new_locals)
        sp = t.get('span')
        if arg_rvs is not None:
            for i, rv_ in enumerate(arg_rvs):
                blk['stmts'].append({'assign': {'l': off_l + 1 + i}, 'rv': rv_, 'span': sp})
        else:
            for i, a in enumerate(t['args']):
                blk['stmts'].append({'assign': {'l': off_l + 1 + i}, 'rv': {'k': 'use', 'op': a}, 'span': sp})
        for ci, cblk in enumerate(cj):
            ct = cblk['term']
            if ct.get('k') == 'return':
                cblk['stmts'].append({'assign': t['dest'], 'rv': {'k': 'use', 'op': {'move': {'l': off_l}}}, 'span': sp})
                cblk['term'] = {'k': 'goto', 'target': t['target'], 'span': sp}
            cblk['inlined_from'] = cb.id
            cblk['inlined_bb'] = '%s#%d' % (cb.id, ci)
            j['blocks'].append(cblk)
            level[off_b + ci] = level[bi] + 1
            work.append(off_b + ci)
        blk['term'] = {'k': 'goto', 'target': off_b, 'span': sp, 'inlined_call': cb.id}
        changed = True
        _thread_result_returns(j, cj, off_b, off_l, t)
    if not changed:
        return body
    _thread_known_values(j)
    nb = Body(facts, j)
    nb.inlined = True
    return nb


def _thread_known_values(j, max_chain=12, max_clones=120):
    """Path sensitivity across a spliced call, second part.  A helper that returns `Ok(None)` on one path and
    `Ok(Some(x))` on another (or `Ok(true)` / `Ok(false)`) joins those paths in its return block, and the caller
    immediately matches on the payload: in the merged flow graph the `None` path would appear to reach the caller's
    `Some` arm.  For every edge P -> M into a join M, the straight-line chain from M (gotos, `?` plumbing) is walked with
    the values P itself establishes (constants, enum aggregates, moves, variant fields, discriminant reads); if it ends
    in a switch whose scrutinee is thereby known, P gets its own copy of that chain ending in the edge actually taken.
    Only chains without real calls are copied (no call site is duplicated)."""
    blocks = j['blocks']
    n0 = len(blocks)

    def succs(tm):
        out = []
        for k in ('target', 'otherwise'):
            if isinstance(tm.get(k), int):
                out.append(tm[k])
        for x in tm.get('targets', []) or []:
            out.append(x['bb'])
        return out
    npred = {}
    for b in blocks:
        for sx in set(succs(b['term'])):
            npred[sx] = npred.get(sx, 0) + 1

    def opval(env, op):
        if not isinstance(op, dict):
            return None
        if 'const' in op:
            v = (op['const'].get('val') or {})
            if 'int' in v:
                return ('const', v['int'])
            return None
        pl = op.get('move') or op.get('copy')
        if pl is None:
            return None
        return placeval(env, pl)

    def placeval(env, pl):
        v = env.get(pl.get('l'))
        pr = pl.get('p') or []
        i = 0
        while v is not None and i < len(pr):
            e = pr[i]
            if isinstance(e, dict) and 'as' in e and v[0] == 'agg' and v[2] == e['as'] and i + 1 < len(pr) and isinstance(pr[i + 1], dict) and 'i' in pr[i + 1]:
                k = pr[i + 1]['i']
                v = v[3][k] if k < len(v[3]) else None
                i += 2
                continue
            if isinstance(e, dict) and 'i' in e and v[0] == 'agg' and len(pr) == 1 and e['i'] < len(v[3]) and False:
                v = v[3][e['i']]
                i += 1
                continue
            return None
        return v

    def step(env, st):
        if 'assign' not in st:
            return
        tgt = st['assign']
        l = tgt.get('l')
        if tgt.get('p'):
            env.pop(l, None)      # a store into part of it: no longer known as a whole
            return
        rv = st['rv']
        k = rv.get('k')
        v = None
        if k == 'use':
            v = opval(env, rv.get('op'))
        elif k == 'agg' and rv.get('agg') == 'adt' and rv.get('variant'):
            v = ('agg', rv.get('adt'), rv.get('variant'), [opval(env, o) for o in rv.get('ops', [])])
        elif k == 'discr':
            pv = placeval(env, rv.get('place') or {})
            if pv is not None and pv[0] == 'agg':
                for vv in rv.get('variants', []):
                    if vv.get('name') == pv[2]:
                        v = ('const', vv.get('discr'))
        if v is None:
            env.pop(l, None)
        else:
            env[l] = v
    clones = 0
    for P in range(n0):
        pt = blocks[P]['term']
        for M in set(succs(pt)):
            if npred.get(M, 0) < 2 or clones >= max_clones or pt.get('k') == 'call' and M == pt.get('unwind'):
                continue
            env = {}
            for st in blocks[P]['stmts']:
                step(env, st)
            if not env:
                continue
            chain, cur, resolved = [], M, None
            while len(chain) < max_chain and cur not in chain and cur < len(blocks):
                blk = blocks[cur]
                if blk.get('cleanup'):
                    break
                for st in blk['stmts']:
                    step(env, st)
                chain.append(cur)
                tm = blk['term']
                if tm.get('k') == 'goto':
                    cur = tm['target']
                    continue
                if tm.get('k') == 'call' and (tm.get('callee') or '').endswith('Try::branch') and 'target' in tm and not (tm.get('dest') or {}).get('p'):
                    av = opval(env, tm['args'][0]) if tm.get('args') else None
                    dl = (tm.get('dest') or {}).get('l')
                    if av is not None and av[0] == 'agg' and av[1] == 'core::result::Result':
                        env[dl] = ('agg', 'core::ops::control_flow::ControlFlow', 'Continue' if av[2] == 'Ok' else 'Break', [av[3][0] if av[3] else None])
                    elif av is not None and av[0] == 'agg' and av[1] == 'core::option::Option':
                        env[dl] = ('agg', 'core::ops::control_flow::ControlFlow', 'Continue' if av[2] == 'Some' else 'Break', [av[3][0] if av[3] else None])
                    else:
                        env.pop(dl, None)
                    cur = tm['target']
                    continue
                if tm.get('k') == 'switch':
                    sv = opval(env, tm.get('op'))
                    if sv is not None and sv[0] == 'const':
                        tg = [x['bb'] for x in tm.get('targets', []) if x['v'] == sv[1]]
                        resolved = tg[0] if tg else tm.get('otherwise')
                break
            if resolved is None or len(chain) < 1:
                continue
            base = len(blocks)
            for i, cb in enumerate(chain):
                c2 = json.loads(json.dumps(blocks[cb]))
                if i + 1 < len(chain):
                    if c2['term'].get('k') == 'goto':
                        c2['term']['target'] = base + i + 1
                    else:
                        c2['term']['target'] = base + i + 1
                else:
                    c2['term'] = {'k': 'goto', 'target': resolved, 'span': c2['term'].get('span'), 'threaded_value': True}
                blocks.append(c2)
            clones += 1
            for k in ('target', 'otherwise'):
                if pt.get(k) == M:
                    pt[k] = base
            for x in pt.get('targets', []) or []:
                if x['bb'] == M:
                    x['bb'] = base


_FIELD_TABLE = None


def _field_table():
    global _FIELD_TABLE
    if _FIELD_TABLE is None:
        p = os.path.join(os.path.dirname(os.path.abspath(__file__)), 'tables', 'private_fields.json')
        try:
            with open(p) as f:
                _FIELD_TABLE = json.load(f)
        except OSError:
            _FIELD_TABLE = {}
    return _FIELD_TABLE


def apply_field_aliases(j):
    """Rename-proofing.  For every ADT variant listed in tables/private_fields.json (the reviewed tree's non-public
    fields): if the tree under analysis declares the same variant with the same number of fields and the same field
    *types in the same order*, non-public fields whose name differs are read under the reviewed name (ADT facts, place
    projections and aggregates).  Public fields are never aliased (renaming one is an API change), and a variant whose
    shape changed is left as it is.  Returns {adt: {variant: {actual: reviewed}}} for the evidence."""
    tab = _field_table().get(j.get('crate'), {})
    amap = {}
    for a in j['adts']:
        rv = tab.get(a['path'])
        if not rv:
            continue
        for v in a['variants']:
            want = rv.get(v['name'])
            if not want or len(want) != len(v['fields']):
                continue
            if any(w[1] != f['ty'] for w, f in zip(want, v['fields'])):
                continue
            ren = {}
            for w, f in zip(want, v['fields']):
                if w[0] != f['name'] and not w[2] and f['vis'] != 'pub':
                    ren[f['name']] = w[0]
            # refuse if the renaming would collide with a name that stays
            stay = {f['name'] for f in v['fields'] if f['name'] not in ren}
            if ren and not (set(ren.values()) & stay):
                amap.setdefault(a['path'], {})[v['name']] = ren
                for f in v['fields']:
                    if f['name'] in ren:
                        f['actual_name'] = f['name']
                        f['name'] = ren[f['name']]
    if not amap:
        return amap

    def fix_proj(proj):
        var = None
        for e in proj:
            if isinstance(e, dict):
                if 'as' in e:
                    var = e['as']
                elif 'f' in e and e.get('of') in amap:
                    vm = amap[e['of']]
                    ren = vm.get(var) if var is not None else (next(iter(vm.values())) if len(vm) == 1 else None)
                    if ren and e['f'] in ren:
                        e['f'] = ren[e['f']]
                    var = None
                else:
                    var = None

    def walk(x):
        if isinstance(x, dict):
            if 'p' in x and isinstance(x['p'], list):
                fix_proj(x['p'])
            if x.get('k') == 'agg' and x.get('adt') in amap and isinstance(x.get('fields'), list):
                ren = amap[x['adt']].get(x.get('variant'))
                if ren:
                    x['fields'] = [ren.get(n, n) for n in x['fields']]
            for v in x.values():
                walk(v)
        elif isinstance(x, list):
            for v in x:
                walk(v)
    for b in j['bodies']:
        walk(b)
    return amap


def apply_regroup_aliases(j):
    """Regroup-proofing.  A reviewed variant `V { a, b, c }` (tables/private_fields.json) that now holds ONE value of a
    struct S unknown to the reviewed tree, S having exactly the fields a, b, c: `V(S { a, b, c })`.  The variant is
    read as before: the ADT facts list S's fields for V, a place `(x as V).0.a` is `(x as V).a`, and an aggregate
    `V(s)` is `V { a: s.a, b: s.b, c: s.c }` (s itself - built here, or returned whole by a call - keeps its own
    definition, which the provenance follows member by member).  Returns {adt: {variant: S}} for the evidence."""
    tab = _field_table().get(j.get('crate'), {})
    adts = {a['path']: a for a in j['adts']}
    known_adts = set((_adt_table().get(j.get('crate')) or {}).keys()) if '_adt_table' in globals() else set()
    rmap = {}
    for a in j['adts']:
        rv = tab.get(a['path'])
        if not rv:
            continue
        for v in a['variants']:
            want = rv.get(v['name'])
            if not want or len(want) < 2 or len(v['fields']) != 1:
                continue
            sty = re.sub(r'<.*$', '', v['fields'][0].get('ty') or '')
            S = adts.get(sty)
            if S is None or S.get('kind') != 'struct' or not S.get('variants') or sty in tab or sty in known_adts:
                continue
            sf = S['variants'][0]['fields']
            if sorted(x['name'] for x in sf) != sorted(w[0] for w in want):
                continue
            rmap.setdefault(a['path'], {})[v['name']] = {'S': sty, 'fields': [x['name'] for x in sf]}
            v['regrouped_from'] = sty
            v['fields'] = [dict(x) for x in sf]
    if not rmap:
        return rmap

    def fix_proj(proj):
        out, i, var = [], 0, None
        while i < len(proj):
            e = proj[i]
            if isinstance(e, dict) and 'as' in e:
                var = e['as']
                out.append(e); i += 1
                continue
            if isinstance(e, dict) and e.get('of') in rmap and e.get('i') == 0:
                vm = rmap[e['of']]
                g = vm.get(var) if var is not None else (next(iter(vm.values())) if len(vm) == 1 else None)
                nx = proj[i + 1] if i + 1 < len(proj) else None
                if g and isinstance(nx, dict) and nx.get('of') == g['S'] and nx.get('f') in g['fields']:
                    out.append({'f': nx['f'], 'i': nx.get('i'), 'of': e['of']})
                    i += 2
                    var = None
                    continue
            var = None
            out.append(e); i += 1
        proj[:] = out

    def walk(x):
        if isinstance(x, dict):
            if 'p' in x and isinstance(x['p'], list):
                fix_proj(x['p'])
            if x.get('k') == 'agg' and x.get('adt') in rmap and len(x.get('ops') or []) == 1:
                g = rmap[x['adt']].get(x.get('variant'))
                pl = (x['ops'][0].get('move') or x['ops'][0].get('copy')) if g and isinstance(x['ops'][0], dict) else None
                if g and pl is not None:
                    x['fields'] = list(g['fields'])
                    x['ops'] = [{'copy': {'l': pl['l'], 'p': list(pl.get('p', [])) + [{'f': n_, 'i': k_, 'of': g['S']}]}} for k_, n_ in enumerate(g['fields'])]
                    x['regrouped'] = True
            for v in x.values():
                walk(v)
        elif isinstance(x, list):
            for v in x:
                walk(v)
    for b in j['bodies']:
        walk(b)
    return rmap


_FN_TABLE = None


def _fn_table():
    global _FN_TABLE
    if _FN_TABLE is None:
        p = os.path.join(os.path.dirname(os.path.abspath(__file__)), 'tables', 'private_fns.json')
        try:
            with open(p) as f:
                _FN_TABLE = json.load(f)
        except OSError:
            _FN_TABLE = {}
    return _FN_TABLE


def apply_fn_aliases(j):
    """Rename-proofing for private functions (see tools/mkfntable.py).  Returns {actual path: reviewed path}."""
    tab = _fn_table().get(j.get('crate'), {})
    if not tab:
        return {}
    present = {fn['path']: fn for fn in j['fns']}
    missing = [p for p in tab if p not in present]
    if not missing:
        return {}
    amap = {}
    taken = set()
    for p in sorted(missing):
        parent = p.rsplit('::', 1)[0]
        want = tab[p]
        cands = [q for q, fn in present.items() if q not in tab and q not in taken and fn.get('vis') != 'pub' and '{' not in q and
                 q.rsplit('::', 1)[0] == parent and fn.get('inputs', []) == want['inputs'] and fn.get('output', '') == want['output']]
        # the reviewed name must be unambiguous too: no other missing function with the same parent and signature
        rivals = [m for m in missing if m != p and m.rsplit('::', 1)[0] == parent and tab[m] == want]
        if len(cands) == 1 and not rivals:
            amap[cands[0]] = p
            taken.add(cands[0])
            continue
        if cands:
            continue
        # moved to another module (same name, same signature), unambiguously
        name = p.rsplit('::', 1)[1]
        import re as _re

        def short_sig(ins, out):
            # types compared by their last path segment: the function may have moved together with its type
            return [_re.sub(r'(?:[A-Za-z_][A-Za-z0-9_]*::)+', '', x) for x in list(ins) + [out]]
        wsig = short_sig(want['inputs'], want['output'])
        # `Type::method`: the type's name must stay the same too
        owner = p.rsplit('::', 2)[-2] if p.count('::') >= 1 else ''
        moved = [q for q, fn in present.items() if q not in tab and q not in taken and fn.get('vis') != 'pub' and '{' not in q and
                 q.rsplit('::', 1)[1] == name and short_sig(fn.get('inputs', []), fn.get('output', '')) == wsig and
                 (not owner[:1].isupper() or (q.rsplit('::', 2)[-2] if q.count('::') >= 1 else '').split('<')[0] == owner.split('<')[0])]
        same_name_missing = [m for m in missing if m != p and m.rsplit('::', 1)[1] == name and tab[m] == want]
        if len(moved) == 1 and not same_name_missing:
            amap[moved[0]] = p
            taken.add(moved[0])
            continue
        if moved:
            continue
        # same name, same module, different signature (a free function that became a method of a new state struct, or
        # gained / lost a parameter): the one non-reviewed private function of that name in that module
        def module_of(path):
            segs = path.split('::')[:-1]
            while segs and (segs[-1][:1].isupper() or segs[-1].startswith('<')):
                segs.pop()
            return '::'.join(segs)
        resig = [q for q, fn in present.items() if q not in tab and q not in taken and fn.get('vis') != 'pub' and '{' not in q and
                 q.rsplit('::', 1)[1] == name and module_of(q) == module_of(p)]
        if len(resig) == 1 and not [m for m in missing if m != p and m.rsplit('::', 1)[1] == name]:
            amap[resig[0]] = p
            taken.add(resig[0])
            continue
        if resig:
            continue
        # renamed AND re-typed (e.g. `&mut Vec<bool>` parameters turned into `&mut [bool]`): the one reviewed function missing
        # from its parent and the one unknown private function there, with the same number of parameters and the same return type
        lost = [m for m in missing if m.rsplit('::', 1)[0] == parent]
        found = [q for q, fn in present.items() if q not in tab and q not in taken and fn.get('vis') != 'pub' and '{' not in q and
                 q.rsplit('::', 1)[0] == parent]
        if len(lost) == 1 and len(found) == 1 and len(present[found[0]].get('inputs', [])) == len(want['inputs']) and \
                present[found[0]].get('output', '') == want['output']:
            amap[found[0]] = p
            taken.add(found[0])
            continue
        if found:
            continue
        # a free function that became a method of a new state struct under a new name (`inner(schema, idx, &mut a, &mut b)`
        # -> `Search::visit(&mut self, idx)`): the one reviewed function missing from the MODULE and the one unknown
        # private function of that module, returning the same type
        lost_m = [m for m in missing if module_of(m) == module_of(p)]
        found_m = [q for q, fn in present.items() if q not in tab and q not in taken and fn.get('vis') != 'pub' and '{' not in q and
                   module_of(q) == module_of(p)]
        if len(lost_m) == 1 and len(found_m) == 1 and present[found_m[0]].get('output', '') == want['output'] and want['output'] not in ('()', ''):
            amap[found_m[0]] = p
            taken.add(found_m[0])
            continue
        # a function nested in another one, hoisted to the module AND renamed: the one unknown private function of the
        # enclosing module with exactly the reviewed signature (and no other missing function with that signature)
        if parent in tab or parent in present:
            outer = parent.rsplit('::', 1)[0]
            hoisted = [q for q, fn in present.items() if q not in tab and q not in taken and fn.get('vis') != 'pub' and '{' not in q and
                       q.rsplit('::', 1)[0] == outer and fn.get('inputs', []) == want['inputs'] and fn.get('output', '') == want['output']]
            if len(hoisted) == 1 and not [m for m in missing if m != p and tab[m] == want]:
                amap[hoisted[0]] = p
                taken.add(hoisted[0])
    if not amap:
        return {}

    def ren(v):
        if not isinstance(v, str):
            return v
        for q, p in amap.items():
            if v == q:
                return p
            if v.startswith(q + '::{'):
                return p + v[len(q):]
        return v
    # generics-free forms for callee_full (lifetimes printed as '_)
    def strip(x):
        out, depth = [], 0
        for ch in x:
            if ch == '<':
                depth += 1
            elif ch == '>':
                depth -= 1
            elif depth == 0:
                out.append(ch)
        return ''.join(out).replace('::::', '::')
    short = {strip(q): (q, p) for q, p in amap.items()}
    for fn in j['fns']:
        if fn['path'] in amap:
            fn['actual_path'] = fn['path']
            fn['path'] = amap[fn['path']]

    def walk(x):
        if isinstance(x, dict):
            for k in ('id', 'owner_fn', 'callee', 'resolved', 'closure', 'fn', 'fn_full'):
                if k in x:
                    x[k] = ren(x[k])
            cf = x.get('callee_full')
            if isinstance(cf, str) and strip(cf) in short:
                q, p = short[strip(cf)]
                x['callee_full'] = cf.rsplit('::', 1)[0] + '::' + p.rsplit('::', 1)[1]
                if x.get('method') == q.rsplit('::', 1)[1]:
                    x['method'] = p.rsplit('::', 1)[1]
            for v in x.values():
                walk(v)
        elif isinstance(x, list):
            for v in x:
                walk(v)
    for b in j['bodies']:
        old_id = b.get('id')
        walk(b)
        if b.get('id') != old_id and b.get('kind') != 'closure' and 'name' in b:
            b['name'] = b['id'].rsplit('::', 1)[1]
    for im in j.get('impls', []):
        if isinstance(im.get('items'), list):
            im['items'] = [ren(v) for v in im['items']]
    return amap


_ADT_TABLE = None


def _adt_table():
    global _ADT_TABLE
    if _ADT_TABLE is None:
        p = os.path.join(os.path.dirname(os.path.abspath(__file__)), 'tables', 'private_adts.json')
        try:
            with open(p) as f:
                _ADT_TABLE = json.load(f)
        except OSError:
            _ADT_TABLE = {}
    return _ADT_TABLE


def type_aliases(j):
    """Renamed private types (see tools/mkadttable.py): a reviewed non-public ADT that is absent, while the same module
    now holds exactly one non-public ADT that the table does not know, of the same kind and with the same variants /
    field types (its own name aside).  Returns {actual path: reviewed path}."""
    tab = _adt_table().get(j.get('crate'), {})
    if not tab:
        return {}
    present = {a['path']: a for a in j['adts']}
    missing = [p for p in tab if p not in present]
    out = {}
    for p in sorted(missing):
        parent, pname = p.rsplit('::', 1) if '::' in p else ('', p)
        want = {k_: v_ for k_, v_ in tab[p].items() if k_ != 'pub'}
        is_pub = bool(tab[p].get('pub'))
        cands = []
        for q, a in present.items():
            if is_pub:
                break       # a public type keeps its name
            if q in tab or a.get('vis') == 'pub' or (q.rsplit('::', 1)[0] if '::' in q else '') != parent or a['kind'] != want['kind']:
                continue
            qname = q.rsplit('::', 1)[-1]
            shape = [[v['name'] if a['kind'] == 'enum' else '', [f['ty'].replace(q, p) for f in v['fields']]] for v in a['variants']]
            if shape == want['variants']:
                cands.append(q)
        rivals = [m for m in missing if m != p and (m.rsplit('::', 1)[0] if '::' in m else '') == parent and {k_: v_ for k_, v_ in tab[m].items() if k_ != 'pub'} == want]
        if len(cands) == 1 and not rivals:
            out[cands[0]] = p
            continue
        if cands:
            continue
        # moved to another module under the same name, same shape
        moved = []
        for q, a in present.items():
            if q in tab or (a.get('vis') == 'pub') != is_pub or q.rsplit('::', 1)[-1] != pname or a['kind'] != want['kind']:
                continue
            shape = [[v['name'] if a['kind'] == 'enum' else '', [f['ty'].replace(q, p) for f in v['fields']]] for v in a['variants']]
            if shape == want['variants']:
                moved.append(q)
        same_name_missing = [m for m in missing if m != p and m.rsplit('::', 1)[-1] == pname]
        if len(moved) == 1 and not same_name_missing:
            out[moved[0]] = p
    return out


def _load_with_type_aliases(path):
    with open(path) as f:
        text = f.read()
    j = json.loads(text)
    ta = type_aliases(j)
    if ta:
        import re as _re
        for q, p in sorted(ta.items(), key=lambda kv: -len(kv[0])):
            text = _re.sub(_re.escape(q) + r'(?![A-Za-z0-9_])', p.replace('\\', '\\\\'), text)
        j = json.loads(text)
    return j, ta


class Facts:
    def __init__(self, path):
        self.j, self.type_aliases = _load_with_type_aliases(path)
        self.field_aliases = apply_field_aliases(self.j)
        self.regroup_aliases = apply_regroup_aliases(self.j)
        self.fn_aliases = apply_fn_aliases(self.j)
        self.path = path
        self.crate = self.j['crate']
        self.features = self.j.get('features', [])
        self.adts = {a['path']: a for a in self.j['adts']}
        self.impls = self.j['impls']
        self.fns = {f['path']: f for f in self.j['fns']}
        self.consts = {c['path']: c for c in self.j['consts']}
        self.unsafe_blocks = self.j['unsafe_blocks']
        self.bodies = {}
        self.body_list = []
        for b in self.j['bodies']:
            # `if matches!(x, A | B) { .. } else { .. }` (and any other flag set to a constant on each side of a join and
            # switched on right after) is the same dispatch as the `match` it abbreviates: give each side its own edge
            _thread_known_values(b)
            bd = Body(self, b)
            # closures in different impls can share def_path_str only if identical; keep first, list all
            self.bodies.setdefault(bd.id, bd)
            self.body_list.append(bd)
        self.pre_inline = {}
        self.new_helpers = set()
        self.inlined_helpers = self._inline_new_helpers()

    def _inline_new_helpers(self):
        """Hoist-proofing.  A non-public function that did not exist on the reviewed tree (not in tables/private_fns.json,
        after rename aliasing) is treated as part of its callers: its blocks are spliced into every caller before any
        rule runs, so `extract function` does not move code out of a rule's sight.  On the reviewed tree there is no such
        function and nothing changes."""
        tab = _fn_table().get(self.crate)
        if tab is None:
            return []
        new = set()
        for path, fn in self.fns.items():
            if fn.get('vis') != 'pub' and '{' not in path and path not in tab and path in self.bodies:
                b = self.bodies[path]
                if b.j.get('kind') != 'closure' and not b.j.get('impl_trait'):
                    # a new function that itself dispatches on the schema node is a cell table of its own: the dispatch
                    # matrices follow calls to it (nesting its match inside a caller's arm would blur both)
                    # (a `matches!(node, SchemaNode::Enum(..))` test is not a dispatch: two or more explicit arms are)
                    dispatches = any(blk['term'].get('k') == 'switch' and len(blk['term'].get('targets', []) or []) >= 2 and
                                     any('assign' in st and st['rv'].get('k') == 'discr' and (st['rv'].get('adt') or '').endswith('self_referential::SchemaNode') for st in blk['stmts'])
                                     for blk in b.blocks)
                    # ... and one whose arms only build a value (`fn decimal_mode(&self) -> Option<DecimalMode>`: no call
                    # anywhere) is a classifier, not a dispatch: its caller does the work, on the value it returns
                    does_work = any(blk['term'].get('k') == 'call' and not blk.get('cleanup') for blk in b.blocks)
                    # ... nor is one that only LOOKS at the node (`fn schema_type_name(node: &SchemaNode) -> &str`, calling
                    # getters): a dispatch that does work is handed something to work on - a reader / writer / state, or
                    # anything by `&mut`
                    ptys = [b.local_ty(i) or '' for i in range(1, b.nargs + 1)]
                    handed_state = any(t_.startswith('&mut ') or re.match(r"&'\w+ mut ", t_) or
                                       re.search(r'State|Deserializer|Serializer|Reader|Writer|Read\b|Write\b|Visitor|Access', t_) for t_ in ptys) or \
                        any(re.fullmatch(r'[A-Z]\w{0,2}', t_) for t_ in ptys)      # (a generic parameter may be any of those)
                    does_work = does_work and handed_state
                    if not (dispatches and does_work):
                        new.add(path)
        if not new:
            return []
        self.new_helpers = set(new)
        for h in new:
            self.pre_inline[h] = self.bodies[h]
        for i, b in enumerate(list(self.body_list)):
            if any((blk['term'].get('resolved') or blk['term'].get('callee')) in new for blk in b.blocks if blk['term'].get('k') == 'call'):
                nb = inline_helpers(b, lambda cb: cb.id in new, depth=3)
                if nb is not b:
                    self.pre_inline.setdefault(b.id, b)
                    self.body_list[i] = nb
                    if self.bodies.get(b.id) is b:
                        self.bodies[b.id] = nb
        # a helper that is now part of all its callers is no longer a function of its own for the inventories
        still_called = set()
        for b in self.body_list:
            for blk in b.blocks:
                t = blk['term']
                if t.get('k') == 'call':
                    c = t.get('resolved') or t.get('callee')
                    if c in new and b.id != c and not b.id.startswith(c + '::{'):
                        still_called.add(c)
        # (a helper handed over as a function value - `.map(Slot::into_option)` - is never called by name: it stays)
        by_value = set()
        if new - still_called:
            def scan(x):
                if isinstance(x, dict):
                    c = x.get('const')
                    if isinstance(c, dict) and isinstance(c.get('fn'), str):
                        for h in new:
                            if c['fn'] == h or c['fn'].startswith(h + '::<') or _strip_generic_args(c['fn']) == _strip_generic_args(h):
                                by_value.add(h)
                    for v in x.values():
                        scan(v)
                elif isinstance(x, list):
                    for v in x:
                        scan(v)
            for b in self.body_list:
                scan(b.j.get('blocks'))
        gone = new - still_called - by_value
        self.body_list = [b for b in self.body_list if b.id not in gone]
        return sorted(new)

    def with_units(self, body, keep):
        """(body, units): `body` with every new helper spliced in EXCEPT those accepted by keep(helper_body), which are
        returned as units of their own.  For rules that reason about a callable unit (a guard that used to be a closure
        and may now be a method): they look at the unit and at its call sites instead of at one merged flow graph."""
        orig = self.pre_inline.get(body.id)
        if orig is None:
            return body, []
        kept = [self.pre_inline[h] for h in sorted(self.new_helpers) if keep(self.pre_inline[h])]
        if not kept:
            return body, []
        kept_ids = {k.id for k in kept}
        nb = inline_helpers(orig, lambda cb: cb.id in self.new_helpers and cb.id not in kept_ids, depth=3)
        return nb, kept

    _EXT = {
        'core::option::Option': {0: 'None', 1: 'Some'},
        'core::result::Result': {0: 'Ok', 1: 'Err'},
        'core::ops::control_flow::ControlFlow': {0: 'Continue', 1: 'Break'},
        'core::cmp::Ordering': {-1: 'Less', 0: 'Equal', 1: 'Greater', 255: 'Less'},
    }

    def ext_enum(self, path):
        return self._EXT.get(path)

    def adt_by_label(self, label):
        from .lib import strip_generics
        if not hasattr(self, '_adt_labels'):
            self._adt_labels = {}
            for path in self.adts:
                self._adt_labels.setdefault(strip_generics(path), path)
        return self._adt_labels.get(label)

    def body(self, id_):
        b = self.bodies.get(id_)
        if b is None:
            raise Inconclusive('anchor function not found: %s' % id_)
        return b

    def find_bodies(self, pred):
        return [b for b in self.body_list if pred(b)]

    def bodies_by_suffix(self, suffix):
        return [b for b in self.body_list if b.id.endswith(suffix)]

    def closures_of(self, body):
        """closures defined in the body - and in the helpers that were spliced into it (see _inline_new_helpers)"""
        pres = [body.id + '::{closure#']
        spliced = set()
        for blk in body.blocks:
            src = blk.get('inlined_from')
            if src and src + '::{closure#' not in pres:
                pres.append(src + '::{closure#')
            if src and '::{closure#' in src:
                spliced.add(src)     # a closure whose body is part of this body now (see _closure_call): not listed twice
        return [b for b in self.body_list if b.id.startswith(tuple(pres)) and b.id not in spliced]


def callee_name(t):
    return t.get('resolved') or t.get('callee') or ''


def is_call_to(t, *names):
    """match a call terminator against names: exact def path of callee or resolved, or 'Trait::method' suffix"""
    c = t.get('callee') or ''
    r = t.get('resolved') or ''
    for n in names:
        if c == n or r == n:
            return True
        if n.startswith('*') and (c.endswith(n[1:]) or r.endswith(n[1:])):
            return True
    return False
