"""C20 - derived schemas fit their types (structural part; library side here, macro side in c20gen.py).

  REGFIRST   find_or_build registers the type's key (the position its node will take) before recursing into the
             type's own append_schema: recursive types terminate and refer to themselves; nothing else runs a type's
             append_schema except wrappers' own append_schema and build_duplicate (the entry point registers the root:
             found F15)
  OWNFIRST   every hand-written container impl (Vec, Option, HashMap) reserves its own node before building its
             children and fills the reserved slot afterwards; forwarders forward
  CONTAIN    integer / primitive mapping table: the Avro type's range contains the Rust type's, except the rows the
             property names (u64, usize -> long)
  SHAPES     Option<T> is the union [null, T] in that order; [u8; N] is fixed(N); Vec<u8>/[u8] is bytes; pointer
             wrappers forward both the schema and the type-lookup key; maps have string keys
  REGOWNER   find_or_build is the only function that references the type registry (already_built_types)
  HASHFN     hash_type_id feeds its hasher from the TypeId only and writes finish() of that hasher into the name
  GEN-*      see c20gen.py (expansion of the derive macro over /verif/corpus)
  SHAPES     ... Option<T> splices the branches of a union-typed T in instead of nesting unions (found F25), dropping
             the null branch by KEY, never by looking at possibly unfinished nodes (F42)
  shared     NEWTYPE (c03: F17), NAMEPAIR incl. the unit variant Null (c01: F24), NAMESPACE (c09), canonical-form and JSON
             guards (c19: F16)
  SHAPES     ... the filter of the Option<union> flattening keeps every variant whose key differs from the null key
It does NOT decide what the proc-macro generates for user types outside the corpus' shapes, nor any value-level claim.
"""
from ..lib import *
from ..core import short_loc, op_place, const_int
from . import c20gen

EXPLANATION = ("Derived schemas, library side only: registration-before-recursion in the builder, own-node-first in the "
               "container impls, integer mapping containment, Option/array/map/fixed shapes. Everything that depends on the "
               "proc-macro's expansion for arbitrary user types, and every value-level claim, is declined.")

RANGE = {'i8': (-2**7, 2**7 - 1), 'i16': (-2**15, 2**15 - 1), 'i32': (-2**31, 2**31 - 1), 'i64': (-2**63, 2**63 - 1),
         'u8': (0, 2**8 - 1), 'u16': (0, 2**16 - 1), 'u32': (0, 2**32 - 1), 'u64': (0, 2**64 - 1), 'usize': (0, 2**64 - 1), 'isize': (-2**63, 2**63 - 1)}
AVRO = {'Int': RANGE['i32'], 'Long': RANGE['i64']}
NAMED_EXCEPTIONS = {'u64', 'usize'}
PRIMS = {'()': 'Null', 'bool': 'Boolean', 'i32': 'Int', 'i64': 'Long', 'f32': 'Float', 'f64': 'Double',
         'alloc::string::String': 'String', 'alloc::vec::Vec<u8>': 'Bytes'}


def run(ctx):
    f = ctx.facts('serde_avro_derive')
    imp = {}
    for b in f.body_list:
        if b.name == 'append_schema' and b.j['kind'] != 'closure' and b.j.get('self_ty'):
            imp[b.j['self_ty']] = b
    ctx.floor('SHAPES', 'hand-written BuildSchema impls', len(imp), 29)

    # ---- REGFIRST
    fb = None
    for b in f.body_list:
        if fn_label(b) == 'SchemaBuilder::find_or_build':
            fb = b
    if fb is None:
        ctx.ob('REGFIRST', 'anchor', False, None, 'SchemaBuilder::find_or_build not found')
    else:
        ctx.touched(fb, len(fb.calls()))
        # accepted registration idioms: entry(k) -> Vacant(e) => e.insert(key), or get(&k) / insert(k, key)
        def on_registry(t, argi=0):
            return 'already_built_types' in origin(fb, t['args'][argi]).fields
        vins = [(bb, t) for bb, t in fb.calls() if strip_generics(cname(t)).endswith('VacantEntry::insert')]
        mins = [(bb, t) for bb, t in fb.calls() if strip_generics(cname(t)).endswith('HashMap::insert') and on_registry(t)]
        ins = vins + mins
        keyarg = (lambda t: t['args'][1]) if vins else (lambda t: t['args'][2])
        rec = [(bb, t) for bb, t in fb.calls() if (t.get('callee') or '').endswith('BuildSchema::append_schema')]
        via_dup = False
        if not rec:
            # `entry.insert(from_idx(len)); self.build_duplicate::<T>()`: the recursion (and the key it returns, read from
            # the same, not yet changed nodes.len()) is build_duplicate's
            rec = [(bb, t) for bb, t in fb.calls() if strip_generics(cname(t)).endswith('SchemaBuilder::build_duplicate')]
            via_dup = bool(rec)
        ok = len(ins) == 1 and len(rec) == 1 and fb.dominates(ins[0][0], rec[0][0])
        ctx.ob('REGFIRST', 'insert-dominates-recursion', ok, short_loc(fb.span), 'the key is inserted into already_built_types before T::append_schema runs: %s' % ok)
        okk = False
        if len(ins) == 1:
            ko = origin(fb, keyarg(ins[0][1]))
            fi = [c for c in ko.calls if strip_generics(cname(c)).endswith('SchemaKey::from_idx')]
            if fi:
                lo = origin(fb, fi[0]['args'][0])
                okk = 'nodes' in lo.fields and 'len' in lo.flags and not lo.has_arith()
                # the len() is read before the recursion
                lens = [bb for bb, t in fb.calls() if call_matches(t, ['Vec::<T, A>::len']) and any(c is t for c in lo.calls)]
                okk = okk and bool(lens) and bool(rec) and all(fb.dominates(x, rec[0][0]) for x in lens)
        # every other way into a type's append_schema is a wrapper's own append_schema (same lookup key: the caller
        # registered it) or build_duplicate (a private copy by design): an entry point that builds its root type without
        # registering it builds a recursive root a second time when the recursion comes back to it
        unreg = []
        n_callers = 0
        for b2 in f.body_list:
            if b2.j['kind'] == 'closure':
                continue
            cs2 = [(bb, t) for bb, t in b2.calls() if (t.get('callee') or '').endswith('BuildSchema::append_schema') and not b2.is_cleanup(bb)]
            if not cs2:
                continue
            n_callers += 1
            fl2 = fn_label(b2)
            if b2 is fb or fl2 == 'SchemaBuilder::build_duplicate' or b2.name == 'append_schema':
                continue
            unreg.append('%s at %s' % (fl2, short_loc(cs2[0][1].get('span'))))
        ctx.ob('REGFIRST', 'entry-points-register-the-root', not unreg and n_callers >= 3, short_loc(fb.span),
               'functions that run a type\'s append_schema without registering the type first: %s (%d caller(s) of append_schema seen)' % (unreg or 'none', n_callers))
        ctx.ob('REGFIRST', 'key-is-next-node-index', okk, short_loc(fb.span), 'the key registered is SchemaKey::from_idx(nodes.len()) read before recursing: %s' % okk)
        # the returned key is that key (vacant) or the stored one (occupied)
        ro = return_origin(fb)
        stored = [c for c in ro.calls if strip_generics(cname(c)).endswith('OccupiedEntry::get') or (strip_generics(cname(c)).endswith('HashMap::get') and on_registry(c))]
        inserted = []
        if len(ins) == 1:
            inserted = [c for c in origin(fb, keyarg(ins[0][1])).calls if strip_generics(cname(c)).endswith('SchemaKey::from_idx')]
        ret_keys = [c for c in ro.calls if strip_generics(cname(c)).endswith('SchemaKey::from_idx')]
        okr = bool(ret_keys) and all(any(c is i_ for i_ in inserted) for c in ret_keys) and bool(stored) and not ro.has_arith()
        if not okr and ret_keys and inserted and bool(stored) and not ro.has_arith():
            # the key returned is computed again (by a spliced `append` helper) as SchemaKey::from_idx(nodes.len()): the same
            # value as the one registered iff nothing was appended to `nodes` in between
            def blk_of(c):
                return [bb for bb, t in fb.calls() if t is c][0]
            grow = [bb for bb, t in fb.calls() if not fb.is_cleanup(bb) and (call_matches(t, ['Vec::<T, A>::push']) or
                    strip_generics(cname(t)).endswith(('SchemaBuilder::reserve', 'BuildSchema::append_schema')) or (t.get('callee') or '').endswith('BuildSchema::append_schema'))]
            same = True
            for c in ret_keys:
                if any(c is i_ for i_ in inserted):
                    continue
                ao = origin(fb, c['args'][0])
                rb_, ib_ = blk_of(c), blk_of(inserted[0])
                from_len = 'len' in ao.flags and 'nodes' in ao.fields and not ao.has_arith()
                between = [m for m in grow if m in fb.reachable_from(ib_) and rb_ in fb.reachable_from(m)]
                if not (from_len and rb_ in fb.reachable_from(ib_) and not between):
                    same = False
            okr = same
        if via_dup and not okr:
            # returns what build_duplicate returns (the index the node took), with nothing appended to `nodes` between the
            # registration and that call
            pushes = [bb for bb, t in fb.calls() if call_matches(t, ['Vec::<T, A>::push']) or strip_generics(cname(t)).endswith('SchemaBuilder::reserve')]
            okr = len(rec) == 1 and any(c is rec[0][1] for c in ro.calls) and bool(stored) and not ro.has_arith() and not pushes
        ctx.ob('REGFIRST', 'returns-registered-key', okr, short_loc(fb.span), 'returns the registered key (new) or the stored key (already built): %s' % okr)
        # keyed by the TypeLookup type id: every lookup / registration key comes from TypeId::of::<T::TypeLookup>()
        keyed = [(t, 1) for bb, t in fb.calls() if strip_generics(cname(t)).endswith(('HashMap::entry', 'HashMap::get', 'HashMap::insert', 'HashMap::contains_key')) and on_registry(t)]
        tid = [t for bb, t in fb.calls() if cname(t).endswith('TypeId::of')]
        okt = bool(keyed) and len(tid) >= 1 and all('TypeLookup' in ' '.join(t.get('substs', [])) for t in tid)
        for t, ai in keyed:
            ko = origin(fb, t['args'][ai])
            okt = okt and any(c in tid for c in ko.calls)
        ctx.ob('REGFIRST', 'keyed-by-type-lookup', okt, short_loc(fb.span), 'already_built_types is keyed by TypeId::of::<T::TypeLookup>() at each of its %d access(es): %s' % (len(keyed), okt))

    # ---- OWNFIRST
    containers = {'alloc::vec::Vec<T>': 'Array', 'core::option::Option<T>': 'Union', 'std::collections::hash::map::HashMap<S, V>': 'Map'}
    for ty, node in containers.items():
        b = imp.get(ty)
        if b is None:
            ctx.ob('OWNFIRST', ty, False, None, 'impl BuildSchema for %s not found' % ty)
            continue
        ctx.touched(b, len(b.calls()))
        rs = [(bb, t) for bb, t in b.calls() if strip_generics(cname(t)).endswith('SchemaBuilder::reserve')]
        ch = [(bb, t) for bb, t in b.calls() if strip_generics(cname(t)).endswith('SchemaBuilder::find_or_build')]
        ix = [(bb, t) for bb, t in b.calls() if call_matches(t, ['IndexMut::index_mut', 'IndexMut<I>>::index_mut'])]
        ok = len(rs) == 1 and len(ch) >= 1 and len(ix) == 1 and all(b.dominates(rs[0][0], c[0]) for c in ch) and all(b.dominates(c[0], ix[0][0]) for c in ch)
        det = 'reserve: %d, children: %d, slot writes: %d' % (len(rs), len(ch), len(ix))
        if ok:
            io = origin(b, ix[0][1]['args'][1])
            slot = any(c is rs[0][1] for c in io.calls) and not io.has_arith()
            # what is stored in the slot is the container node built from the children keys
            st = None
            for bb in sorted(b.live_blocks()):
                for s in b.stmts(bb):
                    if 'assign' in s and s['assign'].get('p') and s['assign']['p'][0] == '*':
                        po = origin(b, s['assign'])
                        if any(c is ix[0][1] for c in po.calls):
                            st = origin(b, s['rv'].get('op') or s['assign'])
            built = st is not None and any(strip_generics(cname(c)).endswith('safe::%s::new' % node) for c in st.calls + []) or \
                (st is not None and any(strip_generics(n_).endswith('safe::%s::new' % node) for n_ in deep_call_names(b, {'copy': {'l': 0}}) | {strip_generics(cname(t)) for bb, t in b.calls()}))
            ok = slot and built
            det = 'own node reserved before the children are built, then nodes[reserved] = %s::new(children): slot is the reserved one: %s, node built: %s' % (node, slot, built)
        ctx.ob('OWNFIRST', ty, ok, short_loc(b.span), det)
    # reserve pushes a placeholder and returns its index
    rb = [b for b in f.body_list if fn_label(b) == 'SchemaBuilder::reserve']
    ok = False
    if rb:
        b = rb[0]
        ln = [(bb, t) for bb, t in b.calls() if call_matches(t, ['Vec::<T, A>::len'])]
        ps = [(bb, t) for bb, t in b.calls() if call_matches(t, ['Vec::<T, A>::push'])]
        ro = return_origin(b)
        ok = len(ln) == 1 and len(ps) == 1 and b.dominates(ln[0][0], ps[0][0]) and any(c is ln[0][1] for c in ro.calls) and not ro.has_arith()
    ctx.ob('OWNFIRST', 'reserve', ok, short_loc(rb[0].span) if rb else None, 'reserve() returns nodes.len() read before pushing the placeholder: %s' % ok)

    # ---- CONTAIN + SHAPES: forwards and primitives
    def forward_target(b):
        cs = [t for bb, t in b.calls() if (t.get('callee') or '').endswith('BuildSchema::append_schema')]
        if len(cs) == 1 and len(b.calls()) == 1:
            return cs[0]['substs'][0] if cs[0].get('substs') else None
        return None

    def primitive_of(ty, depth=0):
        if ty in PRIMS:
            b = imp.get(ty)
            if b is None:
                return None
            aggs = set()
            for bb in b.live_blocks():
                for s in b.stmts(bb):
                    if 'assign' in s and s['rv']['k'] == 'agg' and s['rv'].get('adt') == 'serde_avro_fast::schema::safe::RegularType':
                        aggs.add(s['rv']['variant'])
            return list(aggs)[0] if len(aggs) == 1 else None
        b = imp.get(ty)
        if b is None or depth > 3:
            return None
        tgt = forward_target(b)
        return primitive_of(tgt, depth + 1) if tgt else None
    for ty, want in PRIMS.items():
        got = primitive_of(ty)
        ctx.ob('SHAPES', 'primitive/%s' % ty, got == want, short_loc(imp[ty].span) if ty in imp else None, '%s builds RegularType::%s (expected %s)' % (ty, got, want))
    n = 0
    for ty in sorted(imp):
        if ty in RANGE:
            n += 1
            av = primitive_of(ty)
            ok = av in AVRO and (AVRO[av][0] <= RANGE[ty][0] and RANGE[ty][1] <= AVRO[av][1] or ty in NAMED_EXCEPTIONS)
            exc = ' (named exception: values above i64::MAX are out of range by the property\'s own text)' if ty in NAMED_EXCEPTIONS and av == 'Long' else ''
            if ty in NAMED_EXCEPTIONS:
                ok = av == 'Long'
            ctx.ob('CONTAIN', ty, ok, short_loc(imp[ty].span), 'Rust %s maps to Avro %s: range %s%s' % (ty, av, 'contained' if ok and not exc else ('-' if not ok else 'not contained'), exc))
    ctx.floor('CONTAIN', 'integer rows', n, 8)
    for ty, want in (('str', 'String'), ('[u8]', 'Bytes')):
        ctx.ob('SHAPES', 'forward/%s' % ty, primitive_of(ty) == want, short_loc(imp[ty].span) if ty in imp else None, '%s builds %s' % (ty, primitive_of(ty)))
    # pointer wrappers forward to T and share T's lookup key
    for ty in ('alloc::boxed::Box<T>', 'alloc::sync::Arc<T>', 'alloc::rc::Rc<T>', '&T', '&mut T', 'core::cell::RefCell<T>', 'core::cell::Cell<T>'):
        b = imp.get(ty)
        ok = b is not None and forward_target(b) == 'T'
        ctx.ob('SHAPES', 'wrapper/%s' % ty, ok, short_loc(b.span) if b else None, '%s forwards append_schema to T: %s' % (ty, ok))
    lookups = {i['self_ty']: (i.get('assoc_tys') or {}).get('TypeLookup') for i in f.impls if (i.get('trait') or '').endswith('BuildSchema')}
    for ty in ('alloc::boxed::Box<T>', 'alloc::sync::Arc<T>', 'alloc::rc::Rc<T>', '&T', '&mut T', 'core::cell::RefCell<T>', 'core::cell::Cell<T>'):
        tl = lookups.get(ty)
        ctx.ob('SHAPES', 'wrapper-lookup/%s' % ty, tl == '<T as BuildSchema>::TypeLookup', short_loc(imp[ty].span) if ty in imp else None,
               '%s shares T\'s type-lookup key (a type reached through a wrapper and directly is one node): TypeLookup = %s' % (ty, tl))
    for ty, want in (('alloc::vec::Vec<T>', 'alloc::vec::Vec<<T as BuildSchema>::TypeLookup>'), ('core::option::Option<T>', 'core::option::Option<<T as BuildSchema>::TypeLookup>'),
                     ('std::collections::hash::map::HashMap<S, V>', 'std::collections::hash::map::HashMap<alloc::string::String, <V as BuildSchema>::TypeLookup>')):
        tl = lookups.get(ty)
        ctx.ob('SHAPES', 'container-lookup/%s' % ty, tl == want, short_loc(imp[ty].span) if ty in imp else None,
               '%s is keyed by its element\'s key (not by the element type itself): TypeLookup = %s' % (ty, tl))
    for ty, tgt in (('[T]', 'alloc::vec::Vec<T>'), ('alloc::collections::btree::map::BTreeMap<S, V>', 'std::collections::hash::map::HashMap<alloc::string::String, V>')):
        b = imp.get(ty)
        ft = forward_target(b) if b else None
        ctx.ob('SHAPES', 'forward/%s' % ty, ft == tgt, short_loc(b.span) if b else None, '%s forwards to %s' % (ty, ft))
    # Option<T> = [null, T]
    b = imp.get('core::option::Option<T>')
    ok = False
    if b is not None:
        ch = [(bb, t) for bb, t in b.calls() if strip_generics(cname(t)).endswith('SchemaBuilder::find_or_build')]
        if len(ch) == 2:
            # array aggregate [first, second]
            for bb in sorted(b.live_blocks()):
                for s in b.stmts(bb):
                    if 'assign' in s and s['rv']['k'] == 'agg' and s['rv'].get('agg') == 'array' and len(s['rv']['ops']) == 2:
                        o0, o1 = origin(b, s['rv']['ops'][0]), origin(b, s['rv']['ops'][1])
                        c0 = [c for c in o0.calls if strip_generics(cname(c)).endswith('find_or_build')]
                        c1 = [c for c in o1.calls if strip_generics(cname(c)).endswith('find_or_build')]
                        if c0 and c1:
                            ok = c0[0].get('substs', [''])[0] == '()' and c1[0].get('substs', [''])[0] == 'T'
                    # ... or `vec![null]` followed by `push(inner)`: the first element is still null, T comes after it
                    if 'assign' in s and s['rv']['k'] == 'agg' and s['rv'].get('agg') == 'array' and len(s['rv']['ops']) == 1:
                        c0 = [c for c in origin(b, s['rv']['ops'][0]).calls if strip_generics(cname(c)).endswith('find_or_build')]
                        if c0 and c0[0].get('substs', [''])[0] == '()':
                            pushes = [(pb, pt) for pb, pt in b.calls() if not b.is_cleanup(pb) and strip_generics(cname(pt)).endswith(('Vec::push', 'Vec::<T, A>::push'))]
                            pushed = [[c for c in origin(b, pt['args'][1]).calls if strip_generics(cname(c)).endswith('find_or_build')] for pb, pt in pushes]
                            if len(pushes) == 1 and b.dominates(bb, pushes[0][0]) and pushed[0] and pushed[0][0].get('substs', [''])[0] == 'T':
                                ok = True
    # ... unless T's own node is a union (an enum of newtype variants): "Unions may not immediately contain other unions",
    # so the branches of T's union are spliced in after null - Option::append_schema looks at the kind of the node it
    # built for T and has an arm for Union
    flat = False
    if b is not None:
        for r_ in enum_regions(b, 'serde_avro_fast::schema::safe::RegularType') + enum_regions(b, 'schema::safe::RegularType'):
            if 'Union' in r_.variants and not {'Int', 'Record'} <= set(r_.variants):
                flat = True
    # ... and what is dropped while splicing is the null KEY (the one node `()` builds), recognised by identity: looking at
    # the kind of each variant's node would also drop every variant whose node is still the `Null` placeholder that
    # reserve() leaves for a type under construction (a recursive enum variant: `Node(Box<Node>)`)
    peeks = []
    if b is not None:
        for cb_ in f.closures_of(b):
            for bb_, t_ in cb_.calls():
                if not cb_.is_cleanup(bb_) and call_matches(t_, ['Index::index', 'Index<I>>::index']) and 'nodes' in origin(cb_, t_['args'][0]).fields | {x for a in origin(cb_, t_['args'][0]).atoms for x in ()}:
                    peeks.append(short_loc(t_.get('span')))
            for bb_ in cb_.live_blocks():
                for s_ in cb_.stmts(bb_):
                    if 'assign' in s_ and s_['rv'].get('k') == 'discr' and (s_['rv'].get('adt') or '').endswith('RegularType'):
                        peeks.append(short_loc(s_.get('span')))
    # ... and what the filter keeps is every variant whose key *differs* from the null key
    keeps_others = False
    if b is not None:
        for cb_ in f.closures_of(b):
            cl_ = [(bb_, t_) for bb_, t_ in cb_.calls() if not cb_.is_cleanup(bb_)]
            ne_ = [t_ for _, t_ in cl_ if (t_.get('callee') or '').endswith('PartialEq::ne')]
            eq_ = [t_ for _, t_ in cl_ if (t_.get('callee') or '').endswith('PartialEq::eq')]
            nots_ = [1 for bb_ in cb_.live_blocks() for s_ in cb_.stmts(bb_) if 'assign' in s_ and s_['rv'].get('k') == 'un' and s_['rv'].get('op') == 'Not']
            if cb_.local_ty(0) == 'bool' and (ne_ or eq_):
                keeps_others = (len(ne_) == 1 and not eq_ and not nots_) or (len(eq_) == 1 and not ne_ and len(nots_) == 1)
    if b is not None and not keeps_others:
        # the loop spelling: `for &v in &union.variants { if v != null { variants.push(v) } }` - the push sits on the
        # "differs from null" edge of the one test of keys, written as `!=`, `!(==)` or through a small predicate
        # closure (`let is_null = |k| k == null; if !is_null(v) { push }`)
        def pred_polarity(t_):
            """True if the call's result means "same key as null", False if it means "differs", None if it is not a key test"""
            c_ = t_.get('callee') or ''
            if c_.endswith('PartialEq::eq'):
                return True
            if c_.endswith('PartialEq::ne'):
                return False
            if c_.endswith(('Fn::call', 'FnMut::call_mut', 'FnOnce::call_once')):
                for a_ in origin(b, t_['args'][0]).atoms:
                    cb2 = f.bodies.get(a_[1]) if a_[0] == 'closure' else None
                    if cb2 is not None and cb2.local_ty(0) == 'bool':
                        cl2 = [(t2.get('callee') or '') for bb2, t2 in cb2.calls() if not cb2.is_cleanup(bb2)]
                        n2 = sum(1 for bb2 in cb2.live_blocks() for s2 in cb2.stmts(bb2) if 'assign' in s2 and s2['rv'].get('k') == 'un' and s2['rv'].get('op') == 'Not')
                        if len(cl2) == 1 and cl2[0].endswith('PartialEq::eq'):
                            return (n2 % 2) == 0
                        if len(cl2) == 1 and cl2[0].endswith('PartialEq::ne'):
                            return (n2 % 2) == 1
            return None
        pushes_ = [bb_ for bb_, t_ in b.calls() if not b.is_cleanup(bb_) and call_matches(t_, ['Vec::<T, A>::push'])]
        tests_ = []
        for sb_ in sorted(b.live_blocks()):
            if b.term(sb_)['k'] != 'switch' or b.is_cleanup(sb_):
                continue
            si_ = b.switch_info(sb_)
            if si_.get('kind') == 'enum':
                continue
            cond_ = switch_condition(b, si_)
            neg_ = False
            while cond_[0] == 'not':
                neg_, cond_ = not neg_, cond_[1]
            if cond_[0] != 'call':
                continue
            pol_ = pred_polarity(cond_[2])
            if pol_ is None:
                continue
            z_ = [x['bb'] for x in b.term(sb_)['targets'] if x['v'] == 0]
            true_edge, false_edge = b.term(sb_)['otherwise'], (z_[0] if z_ else None)
            same_means_true = (pol_ != neg_)
            tests_.append((false_edge, true_edge) if same_means_true else (true_edge, false_edge))     # (differs edge, same edge)
        if len(tests_) == 1:
            differs, same = tests_[0]
            inner_push = [p_ for p_ in pushes_ if differs is not None and b.dominates(differs, p_)]
            keeps_others = bool(inner_push) and same is not None and not any(b.dominates(same, p_) for p_ in pushes_)
    ctx.ob('SHAPES', 'Option-flatten-keeps-every-other-variant', flat and keeps_others, short_loc(b.span) if b else None,
           'the filter over the inner union\'s variants keeps those whose key is not the null key: %s' % keeps_others)
    ctx.ob('SHAPES', 'Option-flatten-drops-null-by-key', flat and not peeks, short_loc(b.span) if b else None,
           'while splicing, variants are judged by the kind of their (possibly unfinished) node at: %s' % (sorted(set(peeks)) or 'nowhere (by key)'))
    ctx.ob('SHAPES', 'Option-of-union-is-flattened', flat, short_loc(b.span) if b else None,
           'Option<T> inspects the node built for T and splices a union\'s branches in instead of nesting it: %s' % flat)
    ctx.ob('SHAPES', 'Option-is-null-then-T', ok, short_loc(b.span) if b else None, 'Option<T> builds the union [find_or_build::<()>(), find_or_build::<T>()] in that order: %s' % ok)
    # [u8; N] = fixed of size N
    b = imp.get('[u8; N]')
    ok = False
    if b is not None:
        fx = [(bb, t) for bb, t in b.calls() if strip_generics(cname(t)).endswith('schema::Fixed::new')]
        if len(fx) == 1:
            so = origin(b, fx[0][1]['args'][1])
            ok = any(a[0] == 'const' and (str(a[1]) == 'usize' or 'N' in str(a[1])) for a in so.atoms) and not so.has_arith() and not so.params()
    # ... and its fullname carries N (fixed nodes of different sizes must not share a fullname)
    okn = False
    if b is not None:
        nm = [(bb, t) for bb, t in b.calls() if strip_generics(cname(t)).endswith('schema::Name::from_fully_qualified_name')]
        if len(nm) == 1:
            sl = c20gen.slice_back(b, nm[0][1]['args'][0])
            shown = [c[2] for c in sl.calls if 'fmt::rt::Argument' in cname(c[2]) and strip_generics(cname(c[2])).rsplit('::', 1)[-1] == 'new_display']
            okn = len(shown) == 1 and (shown[0].get('arg_tys') or [''])[0] == '&usize' and not [c for c in sl.calls if 'len' in cname(c[2])] and not origin(b, shown[0]['args'][0]).has_arith()
            # the displayed constant is N itself: the promoted constant it refers to is `&N`, nothing computed
            for pr in b.j.get('promoted', []):
                for blk in pr:
                    if blk['term'].get('k') not in ('return',):
                        okn = False
                    for st_ in blk['stmts']:
                        if 'assign' in st_ and st_['rv']['k'] not in ('use', 'ref'):
                            okn = False
                        if 'assign' in st_ and st_['rv']['k'] == 'use' and 'const' in st_['rv']['op'] and st_['rv']['op']['const'].get('text') not in (None, 'N') and st_['rv']['op']['const'].get('ty') == 'usize':
                            okn = False
    ctx.ob('SHAPES', 'byte-array-name-carries-N', okn, short_loc(b.span) if b else None, 'the fullname of the fixed built for [u8; N] is formatted from N: %s' % okn)
    ctx.ob('SHAPES', 'byte-array-is-fixed-N', ok, short_loc(b.span) if b else None, '[u8; N] builds Fixed::new(name, N): %s' % ok)
    # maps: key type is a string deref
    mi = [i for i in f.impls if i.get('trait') == 'BuildSchema' and 'HashMap<S, V>' in i['self_ty']]
    ok = bool(mi) and any('Deref' in p and 'str' in p for p in mi[0]['predicates'])
    ctx.ob('SHAPES', 'map-keys-are-strings', ok, short_loc(mi[0]['span']) if mi else None, 'HashMap<S, V>: S: Deref<Target = str>: %s' % (mi[0]['predicates'] if mi else None))

    # ---- REGOWNER: only find_or_build touches the type registry (a node registered there must never be the copy that
    # build_logical_type annotates / renames afterwards)
    touch = []
    for b in f.body_list:
        own = fn_label(b) == 'SchemaBuilder::find_or_build' or b.id.startswith('serde_avro_derive::SchemaBuilder::find_or_build::')
        for bb in sorted(b.live_blocks()):
            if b.is_cleanup(bb):
                continue
            for s in b.stmts(bb):
                if 'assign' not in s:
                    continue
                rv = s['rv']
                places = [s['assign']] + ([rv['place']] if rv['k'] in ('ref', 'rawptr') else []) + [op_place(o) for o in ([rv['op']] if rv['k'] in ('use', 'cast') else [])]
                for p in places:
                    if p and any(isinstance(e, dict) and e.get('f') == 'already_built_types' for e in p.get('p', [])):
                        touch.append((b, bb, own))
    outside = sorted({fn_label(b) for b, bb, own in touch if not own})
    inside = [1 for b, bb, own in touch if own]
    ctx.ob('REGOWNER', 'only-find_or_build', not outside and bool(inside), short_loc(fb.span) if fb else None,
           'functions other than find_or_build that reference SchemaBuilder::already_built_types: %s (find_or_build references: %d)' % (outside or 'none', len(inside)))

    # ---- HASHFN: hash_type_id appends a digest of the TypeId (and of nothing else) to the name it is given
    hb = [b for b in f.body_list if fn_label(b) == 'hash_type_id' and b.j['kind'] != 'closure']
    ok = False
    det = 'hash_type_id not found'
    if hb:
        b = hb[0]
        ctx.touched(b, len(b.calls()))
        hcalls = [(bb, t) for bb, t in b.calls() if (t.get('callee') or '') == 'core::hash::Hash::hash']
        fin = [(bb, t) for bb, t in b.calls() if (t.get('callee') or '') == 'core::hash::Hasher::finish']
        wr = [(bb, t) for bb, t in b.calls() if (t.get('callee') or cname(t)).endswith(('Write::write_fmt', 'String::push_str', 'Write::write_str'))]
        fed_by_tid = len(hcalls) == 1 and (b.id, 2) in c20gen.slice_back(b, hcalls[0][1]['args'][0]).params
        same_hasher = bool(hcalls) and len(fin) == 1 and c20gen.ref_base(b, hcalls[0][1]['args'][1]) == c20gen.ref_base(b, fin[0][1]['args'][0]) \
            and b.dominates(hcalls[0][0], fin[0][0])
        written = False
        for bb, t in wr:
            tgt = c20gen.slice_back(b, t['args'][0])
            src = c20gen.slice_back(b, t['args'][1])
            if (b.id, 1) in tgt.params and fin and any(c[2] is fin[0][1] for c in src.calls):
                written = True
        whole = True
        for bb, t in b.calls():
            if strip_generics(cname(t)).rsplit('::', 1)[-1].startswith('new_') and 'fmt::rt::Argument' in cname(t):
                ao = origin(b, t['args'][0])
                if narrowing_casts(ao) or ao.has_arith():
                    whole = False
        ok = fed_by_tid and same_hasher and written and whole
        det = 'hasher fed by the TypeId argument only: %s; finish() of that hasher after feeding: %s; digest written into the name argument: %s; all 64 bits (no narrowing cast / arithmetic): %s' % (fed_by_tid, same_hasher, written, whole)
    ctx.ob('HASHFN', 'hash_type_id', ok, short_loc(hb[0].span) if hb else None, det)

    # ---- "building its schema succeeds": derived schemas share unnamed nodes (the same Vec<T> / HashMap<_, T> type used
    # twice is one node), so the freeze-time traversals must treat a node reached twice as a DAG, not as a cycle: the
    # in-progress guards of the canonical form and of the JSON renderer bracket exactly the node's own children (shared
    # with C08 / C09 / C19)
    from . import c19
    scope19 = [b for b in ctx.f.body_list if c19.in_scope(b)]
    c19.canon_guard_semantics(ctx, scope19)
    c19.json_recursion(ctx)
    # ---- "is a valid Avro schema with one definition per fullname": derived types nest names of different namespaces
    # ([u8; N] is a fixed in the null namespace inside a record named after its module), so the JSON the frozen schema
    # reports depends on the renderer's namespace threading (shared with C09)
    from . import c09
    c09.namespace(ctx)
    # ---- "newtype structs ... deserializes back to an equal value": the codec is transparent for them on both sides
    from .c03 import newtype_rule
    newtype_rule(ctx)
    # ---- "at most one unit variant ... carry the branch's Avro name": the names the decoder proposes for union branches are
    # the names under which the encoder finds them, the unit variant Null included (shared with C01)
    from .c01 import name_pair
    name_pair(ctx)

    # ---- macro side, on the corpus
    c20gen.run(ctx)
