"""C09 - schema JSON: preserved when parsed, regenerated equivalently when built/edited (structural part).

  STALE    every mutable access path to the node vector of the builder type clears the stored JSON first; constructors
           from nodes store None; parsing stores the transcoded original
  FREEZE   the frozen schema's JSON is the stored text when present, else the regenerated one (error propagated), and
           the field is never written afterwards
  PAIR     JSON keys written by the renderer == keys the raw parser reads; type-name strings per kind == the parser's;
           logical-type names: as_str(V) is mapped back to V by the parser for every known variant; decimal's
           parameters are written under the keys the parser reads
  CYCLE    array / map / union arms take the cycle guard before rendering children and release it on every path after
           the container is rendered; the guard errs when the node is met again with no name written in between
           (equal generations included); the written-as-reference test separates the table's initial value from
           every generation and only its never-written edge marks the node (shared with C19)
  NAMESPACE the renderer threads namespaces as the parser does: record fields get the record's namespace (exactly the
           one passed: no fallback to the enclosing namespace for a null-namespace record), other children inherit; a reference to a null-namespace name from inside a namespace is written ".name"
  REQUIRED every key the parser requires for a kind / logical type is written on every path of its arm; every "type"
           entry is written together with the logical type (after the logicalType entry, or where it is None)
  shared   c07.resolution_rules (what the regenerated text parses back to); the cycle guard's release resets the node
           unconditionally (c19)
It does NOT decide isomorphism of the re-parsed graph for every built graph.
"""
from ..lib import *
from ..core import short_loc, op_place, const_int, const_str
from .c03 import fn_by_label
from .c08 import schema_state_rule

EXPLANATION = ("Schema JSON, structural part: mutable access to the node vector clears the stored JSON; freeze uses the stored "
               "text or regenerates it; JSON key / type-name / logical-type-name tables agree between renderer and parser; cycle "
               "guard before every recursive render; namespace threading mirrors the parser's. Isomorphism of re-parsed graphs "
               "is not decided.")

SM = 'schema::safe::SchemaMut'
SER = 'schema::safe::serialize::'
LT = 'schema::safe::LogicalType'
REG = 'schema::safe::RegularType'

SPEC_TYPE_NAMES = {'Null': 'null', 'Boolean': 'boolean', 'Int': 'int', 'Long': 'long', 'Float': 'float', 'Double': 'double',
                   'Bytes': 'bytes', 'String': 'string', 'Array': 'array', 'Map': 'map', 'Record': 'record', 'Enum': 'enum', 'Fixed': 'fixed'}
SPEC_LOGICAL = {'Decimal': 'decimal', 'Uuid': 'uuid', 'Date': 'date', 'TimeMillis': 'time-millis', 'TimeMicros': 'time-micros',
                'TimestampMillis': 'timestamp-millis', 'TimestampMicros': 'timestamp-micros', 'Duration': 'duration', 'BigDecimal': 'big-decimal'}


def strs_of(b, blocks=None):
    out = set()
    for bb in (blocks if blocks is not None else b.live_blocks()):
        for s in b.stmts(bb):
            if 'assign' in s and s['rv']['k'] == 'use':
                v = const_str(s['rv']['op'])
                if v is not None:
                    out.add(v)
        t = b.term(bb)
        if t['k'] == 'call':
            for a in t['args']:
                v = const_str(a)
                if v is not None:
                    out.add(v)
    return out


def run(ctx):
    f = ctx.f
    stale(ctx)
    freeze(ctx)
    pair(ctx)
    required_keys(ctx)
    type_entry_rule(ctx)
    from .c19 import json_recursion
    json_recursion(ctx)
    namespace(ctx)
    schema_state_rule(ctx)
    # "parses back to an isomorphic graph ... every namespace arrangement": the renderer's namespace threading is judged
    # above against the parser's protocol; that protocol itself (name keys, enclosing-namespace threading, the parser's
    # tables, late binding) is C07's, shared here
    from .c07 import resolution_rules
    resolution_rules(ctx)


def stale(ctx):
    f = ctx.f
    n = 0
    for b in f.body_list:
        if b.j.get('from_expansion'):
            continue
        for bb in sorted(b.live_blocks()):
            if b.is_cleanup(bb):
                continue
            for s in b.stmts(bb):
                if 'assign' not in s:
                    continue
                rv = s['rv']
                # &mut <SchemaMut>.nodes (or an element of it), or an assignment into .nodes
                target = None
                if rv['k'] in ('ref', 'rawptr') and rv.get('mut'):
                    target = rv['place']
                elif any(isinstance(e, dict) and e.get('f') == 'nodes' and e.get('of') == SM for e in s['assign'].get('p', [])):
                    target = s['assign']
                if target is None:
                    continue
                if not any(isinstance(e, dict) and e.get('f') == 'nodes' and e.get('of') == SM for e in target.get('p', [])):
                    continue
                n += 1
                ctx.touched(b)
                # schema_json = None on the same object, dominating
                ok = False
                for bb2 in sorted(b.live_blocks()):
                    for s2 in b.stmts(bb2):
                        if 'assign' in s2 and any(isinstance(e, dict) and e.get('f') == 'schema_json' and e.get('of') == SM for e in s2['assign'].get('p', [])):
                            o = origin(b, s2['rv'].get('op') or s2['assign']) if s2['rv']['k'] != 'agg' else None
                            is_none = (s2['rv']['k'] == 'agg' and s2['rv'].get('variant') == 'None') or (o is not None and {a[2] for a in o.atoms if a[0] == 'agg'} == {'None'})
                            if is_none and s2['assign']['l'] == target['l'] and (b.dominates(bb2, bb) and (bb2 != bb or b.stmts(bb).index(s2) < b.stmts(bb).index(s))):
                                ok = True
                ctx.ob('STALE', '%s#%d' % (fn_label(b), n), ok, short_loc(s.get('span')),
                       'mutable access to SchemaMut.nodes in %s: stored JSON cleared first on the same path: %s' % (fn_label(b), ok))
    ctx.floor('STALE', 'mutable access paths to the node vector', n, 1)
    # public mutable API surface of SchemaMut: functions returning &mut into it
    muts = [p for p, fn in f.fns.items() if strip_generics(p).startswith('schema::safe::SchemaMut::') and fn.get('reachable') and '&mut' in fn.get('output', '')]
    ctx.ob('STALE', 'public-mutators', sorted(strip_generics(m).rsplit('::', 1)[1] for m in muts) == ['nodes_mut'], None,
           'public functions handing out &mut into a SchemaMut: %s' % sorted(strip_generics(m).rsplit('::', 1)[1] for m in muts))
    # fields are not public
    a = f.adts.get(SM)
    vis = {x['name']: x['vis'] for x in a['variants'][0]['fields']} if a else {}
    ctx.ob('STALE', 'fields-not-public', bool(vis) and all(v != 'pub' for v in vis.values()), None, 'field visibilities: %s' % vis)
    # constructors
    fnodes = fn_by_label(f, 'schema::safe::SchemaMut::from_nodes')
    ok = False
    if fnodes is not None:
        for bb in fnodes.live_blocks():
            for s in fnodes.stmts(bb):
                if 'assign' in s and s['rv']['k'] == 'agg' and s['rv'].get('adt') == SM:
                    o = origin(fnodes, s['rv']['ops'][s['rv']['fields'].index('schema_json')])
                    ok = {a[2] for a in o.atoms if a[0] == 'agg'} == {'None'}
    ctx.ob('STALE', 'from_nodes-stores-none', ok, short_loc(fnodes.span) if fnodes else None, 'from_nodes stores no JSON: %s' % ok)
    fs = fn_by_label(f, '<schema::safe::SchemaMut as core::str::traits::FromStr>::from_str') or fn_by_label(f, 'schema::safe::parsing::from_str')
    ok = False
    if fs is not None:
        ctx.touched(fs)
        for bb in fs.live_blocks():
            for s in fs.stmts(bb):
                if 'assign' in s and s['rv']['k'] == 'agg' and s['rv'].get('adt') == SM:
                    names = deep_call_names(fs, s['rv']['ops'][s['rv']['fields'].index('schema_json')])
                    ok = any('transcode' in n_ for n_ in names) or any('String::from_utf8' in n_ or 'from_utf8' in n_ for n_ in names)
        tc = [(bb, t) for bb, t in fs.calls() if cname(t).endswith('serde_transcode::transcode')]
        ok = ok and len(tc) == 1
        if ok:
            # transcodes the *original* text
            d = [(bb, t) for bb, t in fs.calls() if 'Deserializer' in cname(t) and cname(t).endswith('from_str')]
            ok = any(origin(fs, t['args'][0]).params() == {1} for bb, t in d)
    ctx.ob('STALE', 'from_str-stores-original', ok, short_loc(fs.span) if fs else None, 'parsing stores the original text transcoded (minified) by serde_json: %s' % ok)


def freeze(ctx):
    f = ctx.f
    tf = fn_by_label(f, '<schema::self_referential::Schema as core::convert::TryFrom>::try_from')
    if tf is None:
        ctx.ob('FREEZE', 'anchor', False, None, 'freeze not found')
        return
    ctx.touched(tf)
    ok = False
    det = 'Schema aggregate not found'
    for bb in sorted(tf.live_blocks()):
        for s in tf.stmts(bb):
            if 'assign' in s and s['rv']['k'] == 'agg' and s['rv'].get('adt') == 'schema::self_referential::Schema':
                jop = s['rv']['ops'][s['rv']['fields'].index('schema_json')]
                p = op_place(jop)
                # the local is assigned in the two arms of a match on safe.schema_json
                arms = {}
                for d in tf.defs().get(p['l'], []) if p else []:
                    if d[0] not in tf.live_blocks() or tf.is_cleanup(d[0]):
                        continue
                    og = option_guards(tf, d[0])
                    which = None
                    for names, adt, oo, d_, oth in og:
                        if adt == 'core::option::Option' and 'schema_json' in oo.fields:
                            which = names[0]
                    if d[2] == 'assign':
                        arms[which] = origin(tf, d[3].get('op') or d[4])
                    elif d[2] == 'call':
                        arms[which] = ('call', d[3])
                # some arm: the stored text; none arm: serialize_to_json()?
                some_ok = 'Some' in arms and not isinstance(arms['Some'], tuple) and 'schema_json' in arms['Some'].fields and not arms['Some'].call_names()
                none_ok = False
                if 'None' in arms:
                    o = arms['None']
                    if isinstance(o, tuple):
                        none_ok = strip_generics(cname(o[1])).endswith('serialize_to_json')
                    else:
                        none_ok = any(strip_generics(cname(c)).endswith('serialize_to_json') for c in o.calls) and 'try' in o.flags
                ok = some_ok and none_ok
                det = 'stored JSON used when present: %s; otherwise serialize_to_json()? : %s' % (some_ok, none_ok)
    ctx.ob('FREEZE', 'json-source', ok, short_loc(tf.span), det)
    n_assign = 0
    for b in f.body_list:
        for bb in b.live_blocks():
            for s in b.stmts(bb):
                if 'assign' in s and any(isinstance(e, dict) and e.get('f') == 'schema_json' and e.get('of') == 'schema::self_referential::Schema' for e in s['assign'].get('p', [])):
                    n_assign += 1
    ctx.ob('FREEZE', 'json-never-rewritten', n_assign == 0, None, '%d assignment(s) to Schema.schema_json outside its construction' % n_assign)
    js = fn_by_label(f, 'schema::self_referential::Schema::json')
    ok = False
    if js is not None:
        ro = return_origin(js)
        ok = ro.fields == {'schema_json'} and ro.params() == {1}
    ctx.ob('FREEZE', 'json-accessor', ok, short_loc(js.span) if js else None, 'Schema::json returns the stored field: %s' % ok)
    sj = fn_by_label(f, SER + 'serialize_to_json')
    ok = False
    if sj is not None:
        cs = [(bb, t) for bb, t in sj.calls() if cname(t).endswith('serde_json::ser::to_string') or cname(t).endswith('serde_json::to_string')]
        ok = len(cs) == 1 and origin(sj, cs[0][1]['args'][0]).params() == {1}
    ctx.ob('FREEZE', 'regeneration-renders-self', ok, short_loc(sj.span) if sj else None, 'serialize_to_json = serde_json::to_string(self): %s' % ok)


def pair(ctx):
    f = ctx.f
    # keys
    wkeys = set()
    ser_bodies = [b for b in f.body_list if fn_label(b).startswith(SER) or fn_label(b).startswith('<' + SER)]
    for b in ser_bodies:
        ctx.touched(b)
        for bb, t in b.calls():
            if (t.get('callee') or '').endswith('SerializeMap::serialize_entry'):
                o = origin(b, t['args'][1])
                wkeys |= {x for x in o.consts() if isinstance(x, str)}
    rkeys_obj, rkeys_field, rtypes = set(), set(), set()
    for b in f.body_list:
        if 'schema::safe::parsing::raw::_::' in b.id and b.name == 'visit_str' and '__FieldVisitor' in b.id:
            st = strs_of(b)
            if 'logicalType' in st or 'items' in st:
                rkeys_obj = st
            elif st == {'name', 'type'}:
                rkeys_field = st
            elif 'null' in st:
                rtypes = st
    ctx.ob('PAIR', 'keys', bool(wkeys) and wkeys <= (rkeys_obj | rkeys_field) and {'type', 'name', 'fields', 'symbols', 'items', 'values', 'size', 'logicalType', 'namespace'} <= wkeys, None,
           'renderer writes keys %s; parser reads %s' % (sorted(wkeys), sorted(rkeys_obj)))
    ctx.ob('PAIR', 'record-field-keys', rkeys_field == {'name', 'type'}, None, 'record fields are parsed from keys %s' % sorted(rkeys_field))
    # type names per kind in the renderer
    kb = None
    for b in ser_bodies:
        if b.name == 'serialize' and b.j['kind'] != 'closure' and 'SchemaKey>' in (b.j.get('self_ty') or ''):
            kb = b
    tn = {}
    if kb is not None:
        fam = [kb] + f.closures_of(kb)
        for r in enum_regions(kb, REG):
            st = set()
            for bb in sorted(r.blocks):
                t = kb.term(bb)
                if t['k'] == 'call':
                    for a in t['args']:
                        o = origin(kb, a)
                        st |= {x for x in o.consts() if isinstance(x, str) and x in SPEC_TYPE_NAMES.values()}
            for v in r.variants:
                tn[v] = st
    for kind, nm in SPEC_TYPE_NAMES.items():
        if kind == 'Union':
            continue
        ctx.ob('PAIR', 'type-name/%s' % kind, tn.get(kind) == {nm} and nm in rtypes, short_loc(kb.span) if kb else None,
               'renderer writes %s for %s; parser accepts it: %s (spec: "%s")' % (sorted(tn.get(kind, [])), kind, nm in rtypes, nm))
    ctx.ob('PAIR', 'type-names-closed', rtypes == set(SPEC_TYPE_NAMES.values()), None, 'type names accepted by the parser: %s' % sorted(rtypes))
    logical_pair(ctx, 'PAIR')
    rn = fn_by_label(f, 'schema::safe::parsing::SchemaConstructionState::register_node')
    # decimal parameters under the keys the parser reads: precision & scale in both
    ctx.ob('PAIR', 'decimal-keys', {'precision', 'scale'} <= wkeys and {'precision', 'scale'} <= rkeys_obj, None, 'decimal parameters written/read under precision, scale')
    # each decimal key carries the right field
    # (every site: a writer duplicated by inlining or split over helpers is judged site by site)
    seen_d = {'scale': [], 'precision': []}
    for b in ser_bodies:
        for bb, t in b.calls():
            if (t.get('callee') or '').endswith('SerializeMap::serialize_entry') and not b.is_cleanup(bb):
                k = origin(b, t['args'][1])
                v = origin(b, t['args'][2])
                ks = {x for x in k.consts() if isinstance(x, str)}
                for mine, other in (('scale', 'precision'), ('precision', 'scale')):
                    if ks == {mine}:
                        seen_d[mine].append(mine in v.fields and other not in v.fields)
    okd = sum(1 for k in seen_d if seen_d[k] and all(seen_d[k]))
    ctx.ob('PAIR', 'decimal-values', okd == 2, None, '"scale" carries decimal.scale and "precision" carries decimal.precision at every site: %d of 2 keys (%d sites)' % (okd, sum(len(v) for v in seen_d.values())))
    # parser side: Decimal{precision: field!(precision), scale: field!(scale)}
    okp = False
    if rn is not None:
        for bb in rn.live_blocks():
            for st in rn.stmts(bb):
                if 'assign' in st and st['rv']['k'] == 'agg' and st['rv'].get('adt') == 'schema::safe::Decimal':
                    po = origin(rn, st['rv']['ops'][st['rv']['fields'].index('precision')])
                    so = origin(rn, st['rv']['ops'][st['rv']['fields'].index('scale')])
                    okp = 'precision' in po.fields and 'scale' not in po.fields and 'scale' in so.fields and 'precision' not in so.fields
    ctx.ob('PAIR', 'decimal-parsed', okp, short_loc(rn.span) if rn else None, 'parser builds Decimal{precision <- "precision", scale <- "scale"}: %s' % okp)


def logical_pair(ctx, rule):
    """renderer's logical-type names map back to their own variant in the parser; unknown names are kept verbatim
    (shared: C09 PAIR, C07 PRESERVE)"""
    f = ctx.f
    # logical types: as_str(V)
    a = fn_by_label(f, 'schema::safe::LogicalType::as_str')
    w = {}
    if a is not None:
        ctx.touched(a)
        for r in enum_regions(a, LT):
            st = strs_of(a, r.blocks)
            for v in r.variants:
                w[v] = st
    rn = fn_by_label(f, 'schema::safe::parsing::SchemaConstructionState::register_node')
    back = {}
    if rn is not None:
        ctx.touched(rn)
        for bb, t in rn.calls():
            if (t.get('callee') or '') == 'core::cmp::PartialEq::eq' and 'str' in cname(t):
                s_ = None
                for arg in t['args']:
                    o = origin(rn, arg)
                    cs = [x for x in o.consts() if isinstance(x, str)]
                    if len(cs) == 1 and len(o.atoms) == 1:
                        s_ = cs[0]
                sw = t.get('target')
                if s_ is None or sw is None or rn.term(sw)['k'] != 'switch':
                    continue
                true_bb = rn.term(sw)['otherwise']
                vs = set()
                for x in rn.dominated_by(true_bb):
                    for st in rn.stmts(x):
                        if 'assign' in st and st['rv']['k'] == 'agg' and st['rv'].get('adt') == LT:
                            vs.add(st['rv']['variant'])
                back[s_] = vs
    for v, nm in SPEC_LOGICAL.items():
        ctx.ob(rule, 'logical/%s' % v, w.get(v) == {nm} and back.get(nm) == {v}, short_loc(a.span) if a else None,
               'LogicalType::%s is rendered as %s; the parser maps "%s" back to %s (spec name "%s")' % (v, sorted(w.get(v, [])), nm, sorted(back.get(nm, [])), nm))
    ctx.floor(rule, 'logical type names mapped by the parser', len(back), 9)
    # an unknown logical type keeps its text exactly (no case folding / trimming on the way into the node)
    uk = []
    if rn is not None:
        for b in [rn] + f.closures_of(rn):
            for bb, t in b.calls():
                if strip_generics(cname(t)).endswith('UnknownLogicalType::new'):
                    uk.append((b, t))
    okv = len(uk) >= 1
    for b, t in uk:
        o = origin(b, t['args'][0])
        okv = okv and not [a for a in o.atoms if a[0] == 'call'] and not o.has_arith()
    ctx.ob(rule, 'logical/unknown-verbatim', okv, short_loc(rn.span) if rn else None,
           'the text of an unknown logicalType reaches UnknownLogicalType::new untransformed: %s' % okv)


def t_span(b, bb):
    return b.term(bb).get('span')


def type_entry_rule(ctx):
    """every node's "type" (and with it its logicalType and the logical type's parameters) is written by the one writer
    that emits both; the renderer's own arms never write a bare "type" entry (an arm that did would drop the logical
    type of that kind of node)"""
    f = ctx.f
    kb = None
    for b in f.body_list:
        if fn_label(b) == '<' + SER + 'SerializeSchema as serde_core::ser::Serialize>::serialize' and 'SchemaKey>' in (b.j.get('self_ty') or ''):
            kb = b
    if kb is None:
        return
    bare, writers = [], 0
    for b in [kb] + f.closures_of(kb):
        sites = []
        for bb, t in b.calls():
            if (t.get('callee') or '').endswith('SerializeMap::serialize_entry') and not b.is_cleanup(bb):
                ks = {x for x in origin(b, t['args'][1]).consts() if isinstance(x, str)}
                sites.append((bb, ks))
        lt_blocks = [bb for bb, ks in sites if 'logicalType' in ks]
        for bb, ks in sites:
            if 'type' not in ks:
                continue
            # accepted forms: after the logicalType entry on the same path, or where the node's logical type is None
            after_lt = any(x != bb and b.dominates(x, bb) for x in lt_blocks)
            none_arm = any('None' in names and 'logical_type' in o.fields for names, adt, o, d, others in option_guards(b, bb))
            if after_lt or none_arm:
                writers += 1
            else:
                bare.append(short_loc(t_span(b, bb)))
    ctx.ob('REQUIRED', 'type-only-with-logical-type', not bare and writers >= 1, short_loc(kb.span),
           'bare "type" entries (neither after the logicalType entry nor where the logical type is None): %s; "type" entries written together with the logical type: %d' % (bare or 'none', writers))


def namespace(ctx):
    f = ctx.f
    kb = None
    for b in f.body_list:
        if fn_label(b) == '<' + SER + 'SerializeSchema as serde_core::ser::Serialize>::serialize' and 'SchemaKey>' in (b.j.get('self_ty') or ''):
            kb = b
    if kb is None:
        ctx.ob('NAMESPACE', 'anchor', False, None, 'renderer not found')
        return
    regs = {}
    for r in enum_regions(kb, REG):
        for v in r.variants:
            regs[v] = r
    r = regs.get('Record')
    ok = False
    if r is not None:
        cs = [(bb, kb.term(bb)) for bb in sorted(r.blocks) if kb.term(bb)['k'] == 'call' and strip_generics(cname(kb.term(bb))).endswith('SerializeSchema::serializable_with_namespace')]
        if len(cs) == 1:
            no = origin(kb, cs[0][1]['args'][2])
            ko = origin(kb, cs[0][1]['args'][1])
            nsc = [c for c in no.calls if strip_generics(cname(c)).endswith('Name::namespace')]
            ok = bool(nsc) and 'name' in origin(kb, nsc[0]['args'][0]).fields and 'fields' in ko.fields
    ctx.ob('NAMESPACE', 'record-fields-get-record-namespace', ok, short_loc(kb.span), 'record fields are rendered with the record\'s own namespace: %s' % ok)
    for kind in ('Array', 'Map', 'Union'):
        r = regs.get(kind)
        ok = False
        if r is not None:
            a = [bb for bb in sorted(r.blocks) if kb.term(bb)['k'] == 'call' and strip_generics(cname(kb.term(bb))).endswith('SerializeSchema::serializable')]
            b_ = [bb for bb in sorted(r.blocks) if kb.term(bb)['k'] == 'call' and strip_generics(cname(kb.term(bb))).endswith('SerializeSchema::serializable_with_namespace')]
            ok = len(a) >= 1 and not b_
        ctx.ob('NAMESPACE', '%s-children-inherit' % kind, ok, short_loc(kb.span), '%s children inherit the enclosing namespace: %s' % (kind, ok))
    s1 = fn_by_label(f, SER + 'SerializeSchema::serializable')
    ok = False
    if s1 is not None:
        for bb in s1.live_blocks():
            for s in s1.stmts(bb):
                if 'assign' in s and s['rv']['k'] == 'agg' and (s['rv'].get('adt') or '').endswith('SerializeSchema'):
                    o = origin(s1, s['rv']['ops'][s['rv']['fields'].index('parent_namespace')])
                    ok = 'parent_namespace' in o.fields and o.params() == {1}
    if s1 is not None and not ok:
        # or it delegates: serializable_with_namespace(key, self.parent_namespace)
        for bb, t in s1.calls():
            if strip_generics(cname(t)).endswith('SerializeSchema::serializable_with_namespace') and len(t['args']) == 3:
                o = origin(s1, t['args'][2])
                ok = 'parent_namespace' in o.fields and o.params() == {1} and origin(s1, t['args'][0]).params() == {1}
    ctx.ob('NAMESPACE', 'serializable-copies-namespace', ok, short_loc(s1.span) if s1 else None, 'serializable() copies parent_namespace: %s' % ok)
    # serializable_with_namespace hands the children exactly the namespace it was given (a record in the null namespace
    # puts its children in the null namespace - falling back to the enclosing namespace would write their names relative
    # to a namespace the reader will not resolve them in)
    s2 = fn_by_label(f, SER + 'SerializeSchema::serializable_with_namespace')
    ok, det = False, 'serializable_with_namespace not found'
    if s2 is not None:
        ctx.touched(s2)
        nsp = [i for i in range(1, s2.nargs + 1) if 'Option<&' in (s2.local_ty(i) or '') and 'str' in (s2.local_ty(i) or '')]
        aggs = [s_ for bb in sorted(s2.live_blocks()) if not s2.is_cleanup(bb) for s_ in s2.stmts(bb)
                if 'assign' in s_ and s_['rv']['k'] == 'agg' and (s_['rv'].get('adt') or '').endswith('SerializeSchema') and 'parent_namespace' in (s_['rv'].get('fields') or [])]
        if len(nsp) == 1 and aggs:
            o = origin(s2, aggs[-1]['rv']['ops'][aggs[-1]['rv']['fields'].index('parent_namespace')])
            ok = o.atoms == {('param', nsp[0])} and 'parent_namespace' not in o.fields and not [c for c in o.calls if not transparent(c)]
            det = 'children get the namespace passed in, unmodified: %s (%s)' % (ok, o.describe()[:100])
    ctx.ob('NAMESPACE', 'with-namespace-sets-exactly-it', ok, short_loc(s2.span) if s2 else None, det)
    # the three-way choice when writing a name / a reference compares with the parent namespace
    for nm in ('serialize_name', 'str_for_ref'):
        b = fn_by_label(f, SER + 'SerializeSchema::' + nm)
        ok = False
        if b is not None:
            ctx.touched(b)
            eqs = [(bb, t) for bb, t in b.calls() if (t.get('callee') or '') in ('core::cmp::PartialEq::eq', 'core::cmp::PartialEq::ne')]
            for bb, t in eqs:
                a0, a1 = origin(b, t['args'][0]), origin(b, t['args'][1])
                if ('parent_namespace' in a0.fields or 'parent_namespace' in a1.fields) and any(strip_generics(cname(c)).endswith('Name::namespace') for c in a0.calls + a1.calls):
                    ok = True
        ctx.ob('NAMESPACE', '%s-compares-parent' % nm, ok, short_loc(b.span) if b else None, '%s compares the name\'s namespace with the parent namespace: %s' % (nm, ok))
    # a reference to a name in the null namespace from inside another namespace is written ".name": the only formatted
    # string of str_for_ref is "." followed by the full name
    b = fn_by_label(f, SER + 'SerializeSchema::str_for_ref')
    ok, det = False, 'str_for_ref not found'
    if b is not None:
        fm = [(bb, t) for bb, t in b.calls() if strip_generics(cname(t)).endswith(('fmt::Arguments::new', 'fmt::Arguments::new_v1'))]
        det = '%d formatted string(s)' % len(fm)
        if len(fm) == 1:
            lit = fmt_template_literals(b, fm[0][1]['args'][0])
            shown = [t for bb, t in b.calls() if strip_generics(cname(t)).endswith('Argument::new_display')]
            full = len(shown) == 1 and any(strip_generics(cname(c)).endswith('Name::fully_qualified_name') for c in origin(b, shown[0]['args'][0]).calls)
            # reached only when the name has no namespace
            none_guard = any('None' in names or 'is_none' in ' '.join(cname(c) for c in origin(b, oo).calls) for names, adt, oo, d_, oth in option_guards(b, fm[0][0])) or \
                any(strip_generics(cname(c)).endswith('Option::is_none') for d, si, taken in dominating_switches(b, fm[0][0]) for c in origin(b, si.get('op') or si.get('place')).calls)
            ok = lit == ('.', False) and full and none_guard
            det = 'null-namespace reference is formatted as %r + fully_qualified_name(): %s, under namespace().is_none(): %s' % (lit[0] if lit else None, full, none_guard)
    ctx.ob('NAMESPACE', 'null-namespace-ref-has-leading-dot', ok, short_loc(b.span) if b else None, det)
    # ... and a DEFINITION of a name in the null namespace inside another namespace writes "namespace": "" (a fixed
    # without namespace inside a namespaced record - what the derive macro makes of [u8; N] - would otherwise be read
    # back inside the record's namespace)
    b = fn_by_label(f, SER + 'SerializeSchema::serialize_name')
    ok, det = False, 'serialize_name not found'
    if b is not None:
        sites = [(bb, t) for bb, t in b.calls() if (t.get('callee') or '').endswith('SerializeMap::serialize_entry') and not b.is_cleanup(bb) and
                 {x for x in origin(b, t['args'][1]).consts() if isinstance(x, str)} == {'namespace'}]
        det = '%d "namespace" entry site(s)' % len(sites)
        if len(sites) >= 1:
            empty = all({x for x in origin(b, t['args'][2]).consts() if isinstance(x, str)} == {''} for bb, t in sites)
            guarded = all(any('None' in names for names, adt, oo, d_, oth in option_guards(b, bb)) or
                          any(strip_generics(cname(c)).endswith('Option::is_none') for d, si, taken in dominating_switches(b, bb) for c in origin(b, si.get('op') or si.get('place')).calls)
                          for bb, t in sites)
            named = all(any((t2.get('callee') or '').endswith('SerializeMap::serialize_entry') and {x for x in origin(b, t2['args'][1]).consts() if isinstance(x, str)} == {'name'}
                            for bb2, t2 in b.calls() if bb2 in b.reachable_from(bb)) for bb, t in sites)
            ok = empty and guarded and named
            det = '"namespace": "" written where the name has no namespace (and the enclosing one differs), followed by the name: empty %s, under is_none %s, name follows %s' % (empty, guarded, named)
    ctx.ob('NAMESPACE', 'null-namespace-definition-restored', ok, short_loc(b.span) if b else None, det)


def key_sites(b, key):
    out = []
    for bb, t in b.calls():
        if (t.get('callee') or '').endswith('SerializeMap::serialize_entry'):
            o = origin(b, t['args'][1])
            if {x for x in o.consts() if isinstance(x, str)} == {key} and len(o.atoms) == 1:
                out.append(bb)
    return out


def required_keys(ctx):
    """keys the parser requires are written unconditionally by the arm that owns them"""
    f = ctx.f
    kb = None
    for b in f.body_list:
        if fn_label(b) == '<' + SER + 'SerializeSchema as serde_core::ser::Serialize>::serialize' and 'SchemaKey>' in (b.j.get('self_ty') or ''):
            kb = b
    if kb is None:
        ctx.ob('REQUIRED', 'anchor', False, None, 'renderer not found')
        return
    regs = {}
    for r in enum_regions(kb, REG):
        for v in r.variants:
            regs[v] = r
    want = {'Array': ['items'], 'Map': ['values'], 'Record': ['fields'], 'Enum': ['symbols'], 'Fixed': ['size']}
    for kind, keys in want.items():
        r = regs.get(kind)
        for k in keys:
            ok = False
            if r is not None:
                sites = [bb for bb in key_sites(kb, k) if bb in r.blocks]
                oks = [x for x in kb.exits()]
                # every way out of the arm that does not error passes the key (named arms: on the not-a-reference path)
                ends = [x for x in kb.live_blocks() if kb.term(x)['k'] == 'call' and (kb.term(x).get('callee') or '').endswith('SerializeMap::end') and x in r.blocks]
                ok = bool(sites) and bool(ends) and all(must_pass(kb, r.entry, [e], sites) for e in ends)
            ctx.ob('REQUIRED', '%s/%s' % (kind, k), ok, short_loc(kb.span), 'every completed JSON object of a %s carries "%s": %s' % (kind, k, ok))
    # the closure writing type + logical type: "type" on every path; decimal: scale and precision on every path
    for cb in f.closures_of(kb):
        ts = key_sites(cb, 'type')
        if not ts:
            continue
        oks = ok_return_blocks(cb)
        okt = bool(oks) and all(must_pass(cb, 0, [o], ts) for o in oks)
        ctx.ob('REQUIRED', 'type', okt, short_loc(cb.span), '"type" is written on every successful path: %s' % okt)
        for r in enum_regions(cb, LT):
            if 'Decimal' in r.variants:
                for k in ('scale', 'precision'):
                    ks = [bb for bb in key_sites(cb, k) if bb in r.blocks]
                    okk = bool(ks) and bool(oks) and all(must_pass(cb, r.entry, [o], ks) for o in oks)
                    ctx.ob('REQUIRED', 'decimal/%s' % k, okk, short_loc(cb.span), 'a decimal always carries "%s" (the parser requires it): %s' % (k, okk))
