"""C20, macro side - rules on the *expansion* of #[derive(BuildSchema)] over /verif/corpus (one type per supported
shape: named structs, newtypes, unit enums, newtype-variant enums, namespaces, logical types, skip, lifetimes, type and
const generics).  The corpus is compiled against the derive crates of the tree under analysis by the fact extractor;
nothing is executed.  The rules are ordering / provenance / arity rules on the generated MIR, with every slot (field
names, variant names, generic parameters, which local holds the type name) read from the facts, never from a frozen
expected output.

  GEN-RESERVE  record / union expansions reserve their own node before building any child and write exactly that slot
               at the end (recursion terminates, root stays first)
  GEN-FIELDS   one RecordField / enum symbol / union branch per non-skipped field / variant, same names, same order;
               the unit variant of a union is find_or_build::<()>
  GEN-HASH     in the expansion of a type with type or const parameters, EVERY fullname it defines (its own and those
               of the named sub-nodes it owns: fixed of newtype variants, logical-type duplicates) derives from a string
               that went through hash_type_id(.., TypeId::of::<Self::TypeLookup>()) before being read: distinct
               instantiations get distinct fullnames, one definition per fullname
  GEN-LOOKUP   the TypeLookup key of a generic type mentions every type / const parameter; of a non-generic named type
               it is the type itself (lifetimes erased to 'static); forwarding newtypes forward the inner key
  GEN-LOGICAL  a logical type annotates a node built for the primitive the specification gives it (date / time-millis: i32;
               time-micros / timestamp-*: i64; uuid: String)
  GEN-OWNED    named sub-nodes pushed inline are keyed by nodes.len() read before the push; logical types annotate a
               build_duplicate copy (never the shared find_or_build node)
  GEN-NAMES    the name constants of each expansion have the form the attributes give: `<namespace>.<name>`, no dot for an
               empty namespace, `<module path>.<type>` without the attribute, sub-nodes `<fullname>.<variant or field>`
               (expected strings computed from the attributes in /verif/corpus/src/lib.rs)
Corpus conventions (internal to /verif/corpus): fields named `skipped*` and variants named `Hidden*` carry
`#[avro_schema(skip)]`.
"""
from ..lib import *
from ..core import short_loc, op_place

BS = 'serde_avro_derive::BuildSchema'


# Rust type whose node each logical type annotates in generated code (Avro: date, time-millis over int; time-micros,
# timestamp-* over long; uuid over string)
LOGICAL_PRIMITIVE = {'Date': ('i32',), 'TimeMillis': ('i32',), 'TimeMicros': ('i64',), 'TimestampMillis': ('i64',),
                     'TimestampMicros': ('i64',), 'Uuid': ('alloc::string::String',)}


def _ops_of_rv(rv):
    k = rv['k']
    if k == 'use' or k == 'cast' or k == 'repeat':
        return [rv['op']]
    if k in ('ref', 'rawptr', 'discr', 'len'):
        return [{'copy': rv['place']}]
    if k == 'bin':
        return [rv['l'], rv['r']]
    if k == 'un':
        return [rv['a']]
    if k == 'agg':
        return list(rv.get('ops', []))
    return []


class Slice:
    def __init__(self):
        self.locals = set()      # (body id, local)
        self.reads = {}          # (body id, local) -> set of bb where a statement of the slice reads it
        self.calls = []          # (body, bb, term)
        self.consts = []         # const payloads
        self.params = set()


def slice_back(body, op, at_bb=None):
    """flow-insensitive backward slice through assignments, aggregates, *all* call arguments and closure captures"""
    s = Slice()
    work = []

    def push(b, o, bb):
        if 'const' in o:
            s.consts.append(o['const'])
            return
        p = op_place(o)
        if p is None:
            return
        key = (b.id, p['l'])
        s.reads.setdefault(key, set())
        if bb is not None:
            s.reads[key].add(bb)
        if key not in s.locals:
            s.locals.add(key)
            work.append((b, p))
    push(body, op, at_bb)
    while work:
        b, p = work.pop()
        l = p['l']
        if 1 <= l <= b.nargs:
            if b.j['kind'] == 'closure' and l == 1:
                parent = b.facts.bodies.get(b.id.rsplit('::{closure#', 1)[0])
                if parent is not None:
                    for pbb in sorted(parent.live_blocks()):
                        for st in parent.stmts(pbb):
                            if 'assign' in st and st['rv']['k'] == 'agg' and st['rv'].get('agg') == 'closure' and st['rv']['closure'] == b.id:
                                for o in st['rv']['ops']:
                                    push(parent, o, pbb)
            else:
                s.params.add((b.id, l))
            continue
        for (bb, idx, kind, payload, lhs) in b.defs().get(l, []):
            if bb not in b.live_blocks() or b.is_cleanup(bb):
                continue
            if kind == 'assign':
                for o in _ops_of_rv(payload):
                    push(b, o, bb)
            elif kind == 'call':
                s.calls.append((b, bb, payload))
                for o in payload['args']:
                    push(b, o, bb)
    return s


def ref_base(body, op):
    """the local a chain of reborrows / moves bottoms out at (x in `&mut *(&mut x)`)"""
    p = op_place(op)
    seen = set()
    while p is not None and p['l'] not in seen:
        seen.add(p['l'])
        ds = [d for d in body.defs().get(p['l'], []) if d[2] == 'assign' and not d[4].get('p')]
        if len(ds) == 1 and ds[0][3]['k'] in ('ref', 'rawptr'):
            p = ds[0][3]['place']
        elif len(ds) == 1 and ds[0][3]['k'] == 'use' and op_place(ds[0][3]['op']) is not None:
            p = op_place(ds[0][3]['op'])
        else:
            return p['l']
    return None


def _printable(c):
    v = c.get('val')
    if isinstance(v, dict):
        if 'str' in v:
            return v['str']
        if 'ptr_bytes' in v:
            try:
                raw = bytes.fromhex(v['ptr_bytes'])
            except ValueError:
                return None
            txt = ''.join(chr(x) for x in raw if 32 <= x < 127)
            return txt or None
    if isinstance(v, str):
        return v
    return None


def _const_strs(sl):
    out = []
    for c in sl.consts:
        t = _printable(c)
        if t is not None and c.get('ty', '').startswith('&'):
            out.append(t)
    return out


def _ends(t, suffix):
    return strip_generics(cname(t)).endswith(suffix)


def _order(b, items):
    """sort (bb, term) pairs of straight-line generated code by dominance depth"""
    idom = b.idom()

    def depth(bb):
        d, x = 0, bb
        while x in idom and idom[x] is not None and idom[x] != x and idom[x] != b.n:
            x = idom[x]
            d += 1
        return d
    return sorted(items, key=lambda it: depth(it[0]))


def _str_consts(x, acc):
    if isinstance(x, dict):
        c = x.get('const')
        if isinstance(c, dict):
            v = c.get('val') or {}
            if isinstance(v, dict) and 'str' in v:
                acc.add(v['str'])
        for y in x.values():
            _str_consts(y, acc)
    elif isinstance(x, list):
        for y in x:
            _str_consts(y, acc)


def gen_names(ctx, f):
    """GEN-NAMES: the fullname a derived type defines is `<namespace>.<name>` - the namespace and name of its
    `#[avro_schema(..)]` attribute when given (an empty namespace means no dot at all), `<module path with dots>.<type>`
    otherwise; the named sub-nodes it owns are `<that fullname>.<variant or field>`.  The expected strings are computed
    from the attributes in /verif/corpus/src/lib.rs (the corpus is this repository's own file), the found ones are the
    string constants of the expansion."""
    import os, re
    src = open(os.path.join(os.path.dirname(os.path.dirname(os.path.dirname(os.path.abspath(__file__)))), 'corpus', 'src', 'lib.rs')).read()
    attrs = {}
    for m in re.finditer(r'((?:#\[[^\]]*\]\s*)+)(?:pub\s+)?(struct|enum)\s+(\w+)', src):
        ns = re.search(r'namespace\s*=\s*"([^"]*)"', m.group(1))
        nm = re.search(r'[(,]\s*name\s*=\s*"([^"]*)"', m.group(1))
        if 'BuildSchema' in m.group(1):
            attrs[m.group(3)] = (ns.group(1) if ns else None, nm.group(1) if nm else m.group(3), m.group(2))
    adts = {a['path']: a for a in f.j['adts']}
    n = 0
    for im in sorted([i for i in f.j['impls'] if i.get('trait') == BS and i.get('self_adt') in adts], key=lambda i: i['self_adt']):
        T = im['self_adt']
        short = T.rsplit('::', 1)[-1]
        b = f.bodies.get(im['id'] + '::append_schema')
        if b is None or short not in attrs:
            continue
        ns, name, kind = attrs[short]
        acc = set()
        _str_consts(b.j['blocks'], acc)
        for c in f.body_list:
            if c.id.startswith(b.id + '::{closure#'):
                _str_consts(c.j['blocks'], acc)
        named = {x for x in acc if name in x.split('.')}
        if not named:
            continue        # forwards to another type's node (transparent newtypes, pointers): defines no name of its own
        n += 1
        if ns is None:
            ok = all(x.startswith('.' + name) for x in named)
            want = '<module path>.%s[.<sub-node>]' % name
        elif ns == '':
            ok = all(x == name or x.startswith(name + '.') for x in named)
            want = '%s[.<sub-node>]' % name
        else:
            full = ns + '.' + name
            ok = all(x == full or x.startswith(full + '.') for x in named)
            want = '%s[.<sub-node>]' % full
        ctx.ob('GEN-NAMES', short, ok, short_loc(adts[T]['span']), 'name constants of the expansion %s (expected form: %s)' % (sorted(named), want))
    ctx.floor('GEN-NAMES', 'corpus types that define a name', n, 12)


def run(ctx):
    f = ctx.corpus()
    gen_names(ctx, f)
    adts = {a['path']: a for a in f.j['adts']}
    impls = [i for i in f.j['impls'] if i.get('trait') == BS and i.get('self_adt') in adts]
    ctx.floor('GEN-FIELDS', 'corpus types with a derived BuildSchema impl', len(impls), 21)
    n_hash_sinks = 0
    n_named_generic = 0
    for im in sorted(impls, key=lambda i: i['self_adt']):
        T = im['self_adt']
        adt = adts[T]
        b = f.bodies.get(im['id'] + '::append_schema')
        if b is None:
            ctx.ob('GEN-FIELDS', T + '/anchor', False, short_loc(im['span']), 'generated append_schema of %s not found' % T)
            continue
        closures = [c for c in f.body_list if c.id.startswith(b.id + '::{closure#')]
        ctx.touched(b, len(b.calls()))
        for c in closures:
            ctx.touched(c, len(c.calls()))
        loc = short_loc(adt['span'])
        calls = b.calls()
        non_lt = [g for g, k in zip(im['generics'], im['generic_kinds']) if k != 'lifetime']
        is_enum = adt['kind'] == 'enum'
        variants = adt['variants']
        if is_enum:
            live = [v for v in variants if not v['name'].startswith('Hidden')]
            unit_only = all(not v['fields'] for v in live)
            shape = 'enum' if unit_only else 'union'
        else:
            fields = [x for x in variants[0]['fields'] if not x['name'].startswith('skipped')]
            newtype = len(variants[0]['fields']) == 1 and variants[0]['fields'][0]['name'] == '0'
            shape = 'newtype' if newtype else 'record'
        reserve = [(bb, t) for bb, t in calls if _ends(t, 'SchemaBuilder::reserve')]
        children = [(bb, t) for bb, t in calls if _ends(t, 'SchemaBuilder::find_or_build') or _ends(t, 'SchemaBuilder::build_logical_type')
                    or _ends(t, 'SchemaBuilder::build_duplicate') or call_matches(t, ['Vec::<T, A>::push'])]
        slotw = [(bb, t) for bb, t in calls if call_matches(t, ['IndexMut::index_mut', 'IndexMut<I>>::index_mut'])]

        # ---- GEN-RESERVE
        if shape in ('record', 'union'):
            ok = len(reserve) == 1 and len(slotw) == 1 and all(b.dominates(reserve[0][0], c[0]) for c in children) \
                and all(b.dominates(c[0], slotw[0][0]) for c in children)
            det = 'reserve calls: %d, children: %d, slot writes: %d' % (len(reserve), len(children), len(slotw))
            if ok:
                io = origin(b, slotw[0][1]['args'][1])
                vo = origin(b, slotw[0][1]['args'][0])
                ok = any(c is reserve[0][1] for c in io.calls) and not io.has_arith() and 'nodes' in vo.fields
                rets = [bb for bb in b.live_blocks() if b.term(bb)['k'] == 'return']
                ok = ok and bool(rets) and all(must_pass(b, 0, [r], [slotw[0][0]]) for r in rets)
                det = 'own node reserved first, nodes[reserved] written last on every path: %s' % ok
            ctx.ob('GEN-RESERVE', T, ok, loc, det)

        # ---- GEN-FIELDS
        arrays = []
        for bb in sorted(b.live_blocks()):
            if b.is_cleanup(bb):
                continue
            for st in b.stmts(bb):
                if 'assign' in st and st['rv']['k'] == 'agg' and st['rv'].get('agg') == 'array':
                    arrays.append(st['rv']['ops'])

        def elems(pred):
            """the vec![..] literal whose every element comes from a call satisfying pred: [call term per element]"""
            for ops in arrays:
                row = []
                for o in ops:
                    sl = slice_back(b, o)
                    cs = [c[2] for c in sl.calls if pred(c[2])]
                    row.append(cs)
                if row and all(row):
                    return row
            return None
        if shape == 'record':
            row = elems(lambda t: _ends(t, 'safe::RecordField::new'))
            got = None
            if row is not None and all(len(r) == 1 for r in row):
                got = []
                for (t,) in row:
                    cs = [_printable(t['args'][0]['const'])] if 'const' in t['args'][0] else _const_strs(slice_back(b, t['args'][0]))
                    got.append(cs[0] if len(cs) == 1 else None)
            want = [x['name'] for x in fields]
            ctx.ob('GEN-FIELDS', T + '/names', got == want, loc, 'record fields generated: %s; declared (skip removed): %s' % (got, want))
            rec = [(bb, t) for bb, t in calls if _ends(t, 'safe::Record::new')]
            nrf = len([1 for bb, t in calls if _ends(t, 'safe::RecordField::new')])
            ctx.ob('GEN-FIELDS', T + '/one-record', len(rec) == 1 and nrf == len(want), loc, 'Record::new calls: %d; RecordField::new calls: %d for %d declared fields' % (len(rec), nrf, len(want)))
        elif shape == 'enum':
            row = elems(lambda t: call_matches(t, ['ToOwned::to_owned', 'to_owned']))
            got = None
            if row is not None and all(len(r) == 1 for r in row):
                got = []
                for (t,) in row:
                    cs = _const_strs(slice_back(b, t['args'][0]))
                    got.append(cs[0] if len(cs) == 1 else None)
            want = [v['name'] for v in live]
            en = [(bb, t) for bb, t in calls if _ends(t, 'safe::Enum::new')]
            ctx.ob('GEN-FIELDS', T + '/symbols', got == want and len(en) == 1, loc, 'enum symbols generated: %s; declared (skip removed): %s' % (got, want))
        elif shape == 'union':
            un = [(bb, t) for bb, t in calls if _ends(t, 'safe::Union::new')]
            row = elems(lambda t: _ends(t, 'SchemaBuilder::find_or_build') or _ends(t, 'SchemaKey::from_idx') or _ends(t, 'SchemaBuilder::build_logical_type'))
            n_br = len(row) if row is not None else None
            unit_ok = True
            if row is not None and n_br == len(live):
                for v, cs in zip(live, row):
                    if not v['fields']:
                        unit_ok = unit_ok and len(cs) == 1 and _ends(cs[0], 'SchemaBuilder::find_or_build') and cs[0].get('substs', [''])[0] == '()'
            ctx.ob('GEN-FIELDS', T + '/branches', len(un) == 1 and n_br == len(live) and unit_ok, loc,
                   'union branches generated: %s; declared (skip removed): %d; unit variant is find_or_build::<()>: %s' % (n_br, len(live), unit_ok))

        # ---- GEN-LOOKUP
        tl = im['assoc_tys'].get('TypeLookup')
        if non_lt:
            import re as _re
            toks = set(_re.findall(r"[A-Za-z_][A-Za-z0-9_]*", tl or ''))
            missing = [g for g in non_lt if g not in toks]
            ctx.ob('GEN-LOOKUP', T, tl is not None and not missing, loc, 'TypeLookup of generic %s = %s; parameters not mentioned: %s' % (T, tl, missing))
        elif shape == 'newtype' and tl is not None and tl.endswith('::TypeLookup'):
            inner = variants[0]['fields'][0]['ty']
            ok = tl.startswith('<') and ' as ' + BS + '>::TypeLookup' in tl
            ctx.ob('GEN-LOOKUP', T, ok, loc, 'forwarding newtype %s(%s): TypeLookup = %s' % (T, inner, tl))
        else:
            import re as _re
            want = _re.sub(r"'[a-z_]+", "'static", im['self_ty'])
            ctx.ob('GEN-LOOKUP', T, tl == want, loc, 'TypeLookup of %s = %s (expected %s)' % (T, tl, want))

        # ---- GEN-OWNED
        for bb, t in calls:
            if _ends(t, 'schema::Fixed::new'):
                # inline fixed: key = from_idx(nodes.len()) read before the push of this node
                ps = [(pb, pt) for pb, pt in calls if call_matches(pt, ['Vec::<T, A>::push']) and b.dominates(bb, pb)]
                ps = _order(b, ps)[:1]
                ks = [(kb, kt) for kb, kt in calls if _ends(kt, 'SchemaKey::from_idx') and b.dominates(kb, bb)]
                ok = bool(ps) and bool(ks)
                if ok:
                    kb, kt = _order(b, ks)[-1]
                    lo = origin(b, kt['args'][0])
                    ok = 'nodes' in lo.fields and 'len' in lo.flags and not lo.has_arith()
                    so = slice_back(b, ps[0][1]['args'][1])
                    ok = ok and any(c[2] is t for c in so.calls)
                lab = '+'.join(_const_strs(slice_back(b, t['args'][0]))) or 'fixed'
                ctx.ob('GEN-OWNED', '%s/inline-fixed/%s' % (T, lab), ok, loc, 'inline fixed node keyed by nodes.len() read before its push: %s' % ok)
            if _ends(t, 'SchemaBuilder::build_logical_type'):
                co = origin(b, t['args'][2])
                cl = [a[1] for a in co.atoms if a[0] == 'closure']
                ok = len(cl) == 1 and cl[0] in f.bodies
                # GEN-LOGICAL: the node a logical type annotates is the primitive the specification gives it (the
                # serializer writes an `int` node on 32 bits: a time-micros over int loses every value above i32::MAX)
                lts = sorted({a[2] for a in origin(b, t['args'][1]).atoms if a[0] == 'agg' and a[1].endswith('LogicalType')})
                if ok and len(lts) == 1 and lts[0] in LOGICAL_PRIMITIVE:
                    dups = [ct.get('substs', [''])[0] for cbb, ct in f.bodies[cl[0]].calls() if _ends(ct, 'SchemaBuilder::build_duplicate')]
                    ctx.ob('GEN-LOGICAL', '%s/%s#%d' % (T, lts[0], len([1 for xb, xt in calls if _ends(xt, 'SchemaBuilder::build_logical_type') and b.dominates(xb, bb)])),
                           len(dups) == 1 and dups[0] in LOGICAL_PRIMITIVE[lts[0]], loc,
                           'logical type %s annotates a node built for %s (specification: %s)' % (lts[0], dups, ' or '.join(LOGICAL_PRIMITIVE[lts[0]])))
                if ok:
                    cb = f.bodies[cl[0]]
                    names = {strip_generics(cname(ct)) for cbb, ct in cb.calls()}
                    ok = any(n.endswith('SchemaBuilder::build_duplicate') for n in names) and not any(n.endswith('SchemaBuilder::find_or_build') for n in names)
                ctx.ob('GEN-OWNED', '%s/logical-duplicate#%d' % (T, len([1 for xb, xt in calls if _ends(xt, 'SchemaBuilder::build_logical_type') and b.dominates(xb, bb)])), ok, loc,
                       'the node annotated with a logical type is a build_duplicate copy: %s' % ok)
        if shape == 'newtype' and not (tl or '').endswith('::TypeLookup'):
            # non-forwarding newtype: the node it creates is the first one it appends (assert_eq!(n_nodes, key.idx()))
            ln = [(bb, t) for bb, t in calls if call_matches(t, ['Vec::<T, A>::len'])]
            ok = bool(ln) and all(b.dominates(_order(b, ln)[0][0], c[0]) for c in children)
            ctx.ob('GEN-OWNED', T + '/newtype-node-first', ok, loc, 'nodes.len() is read before the newtype builds its node: %s' % ok)

        # ---- GEN-HASH
        sinks = []
        for body in [b] + closures:
            for bb, t in body.calls():
                if _ends(t, 'schema::Name::from_fully_qualified_name'):
                    sinks.append((body, bb, t['args'][0], 'name'))
        for bb, t in calls:
            if _ends(t, 'SchemaBuilder::build_logical_type'):
                co = origin(b, t['args'][3])
                for a in co.atoms:
                    if a[0] == 'closure' and a[1] in f.bodies:
                        cb = f.bodies[a[1]]
                        sinks.append((cb, None, {'copy': {'l': 0}}, 'override'))
        if non_lt and shape != 'newtype' or (non_lt and sinks):
            n_named_generic += 1
            hashed = []   # (body, bb of the hash call, local holding the hashed String, TypeId is Self::TypeLookup)
            for hb in [b] + closures:
                for bb, t in hb.calls():
                    if _ends(t, 'serde_avro_derive::hash_type_id'):
                        tid = slice_back(hb, t['args'][1])
                        tid_ok = any(_ends(c[2], 'TypeId::of') and 'TypeLookup' in ' '.join(c[2].get('substs', [])) for c in tid.calls)
                        hashed.append((hb, bb, ref_base(hb, t['args'][0]), tid_ok))
            if hashed:
                ctx.ob('GEN-HASH', T + '/hash-of-type-lookup', all(h[3] and h[2] is not None for h in hashed), loc,
                       'every hash_type_id call of %s hashes TypeId::of::<Self::TypeLookup>() into a named local: %d call(s)' % (T, len(hashed)))
            for body, sbb, op, kind in sinks:
                sl = slice_back(body, op, sbb)
                ok = False
                why = 'does not derive from any string passed to hash_type_id'
                for hb, hbb, hl, tid_ok in hashed:
                    if hl is None or (hb.id, hl) not in sl.locals:
                        continue
                    reads = sl.reads.get((hb.id, hl), set())
                    before = [r for r in reads if not (hb.dominates(hbb, r) and r != hbb)]
                    if not before:
                        ok = True
                    else:
                        why = 'reads the name at bb%s, not after the hash_type_id call at bb%d' % (sorted(before), hbb)
                lab = '+'.join(sorted(set(x for x in _const_strs(sl) if x not in ('::', '.', 'savf_corpus')))) or 'self'
                n_hash_sinks += 1
                ctx.ob('GEN-HASH', '%s/%s:%s' % (T, kind, lab), ok, loc,
                       'fullname defined by the expansion of generic %s (%s %s): %s' % (T, kind, lab, 'derives from the hashed type name' if ok else why))
    ctx.floor('GEN-HASH', 'fullname sinks in generic corpus types', n_hash_sinks, 6)
    ctx.floor('GEN-HASH', 'generic corpus types', n_named_generic, 5)
