"""C18 - single-object encoding: marker + schema fingerprint + datum, verified on read (structural part; small
functions - decided almost completely).

  ORDER    to_single_object writes [0xC3, 0x01], then the configuration schema's rabin_fingerprint(), then the datum on
           the same writer and configuration; to_single_object_vec delegates
  CHECK    check_header compares bytes 0..2 with the marker and 2..10 with the supplied schema's fingerprint, each
           mismatch returning Err; both readers call it (with ?) before any datum decoding and hand over exactly the
           remainder (shared with C11/HEADER)
  PAIR     marker constant identical on both sides and equal to the spec's C3 01; fingerprint is 8 bytes
  shared   C08's canonical-form writer and CRC rules, C07's resolution rules: the eight bytes compared are the CRC-64-AVRO of
           the canonical form of the schema the text denotes
The fingerprint value is C08's, datum bytes C01/C02, slice/reader equivalence C11.
"""
import re
from ..lib import *
from ..core import short_loc, op_place, const_int
from .c03 import fn_by_label
from .c11 import header_rule

EXPLANATION = ("Single-object encoding: emission order marker -> fingerprint -> datum; header length and constants agree on both "
               "sides and with the spec; both entry points check the header before decoding and hand over exactly the remainder. "
               "The fingerprint value itself (C08) and the datum (C01/C02) are decided elsewhere.")


def marker_consts(b, op):
    o = origin(b, op)
    ints = sorted(x for x in o.consts() if isinstance(x, int))
    raw = [str(x)[6:] for x in o.consts() if isinstance(x, str) and str(x).startswith('bytes ')]
    return ints, raw, o


def tuple_field_of_call(body, op, call_t, depth=8):
    """which member (.0 / .1) of the tuple returned by call_t does the operand come from?"""
    p = op_place(op)
    for _ in range(depth):
        if p is None:
            return None
        if p['l'] == call_t['dest']['l']:
            for e in p.get('p', []):
                if isinstance(e, dict) and 'i' in e:
                    return e['i']
            return None
        ds = [d for d in body.defs().get(p['l'], []) if d[0] in body.live_blocks() and not body.is_cleanup(d[0])]
        if len(ds) != 1:
            return None
        d = ds[0]
        if d[2] == 'assign' and d[3]['k'] == 'use':
            np_ = op_place(d[3]['op'])
        elif d[2] == 'assign' and d[3]['k'] in ('ref', 'rawptr'):
            np_ = d[3]['place']
        elif d[2] == 'call' and d[3].get('args'):
            np_ = op_place(d[3]['args'][0])
        else:
            return None
        if np_ is None:
            return None
        # keep looking at the same member if the projection was on this hop
        for e in (p.get('p') or []):
            if isinstance(e, dict) and 'i' in e and np_['l'] == call_t['dest']['l'] and not any(isinstance(x, dict) and 'i' in x for x in np_.get('p', [])):
                np_ = dict(np_, p=list(np_.get('p', [])) + [e])
        p = np_
    return None


def run(ctx):
    # the fingerprint in the header is the fingerprint of the fullnames the parser resolves (shared with C07 / C08)
    from . import c07
    c07.resolution_rules(ctx)
    f = ctx.f
    w = fn_by_label(f, 'single_object_encoding::to_single_object')
    if w is None:
        ctx.ob('ORDER', 'anchor', False, None, 'to_single_object not found')
    else:
        ctx.touched(w, len(w.calls()))
        was = [(bb, t) for bb, t in w.calls() if (t.get('callee') or '') == 'std::io::Write::write_all']
        td = [(bb, t) for bb, t in w.calls() if strip_generics(cname(t)) == 'to_datum']
        ok = len(was) == 2 and len(td) == 1
        det = '%d write_all call(s), %d to_datum call(s)' % (len(was), len(td))
        if ok:
            a, b_ = sorted(was, key=lambda x: 0 if w.dominates(x[0], was[0][0]) and w.dominates(x[0], was[1][0]) else 1)
            ints, raw, o1 = marker_consts(w, a[1]['args'][1])
            m_ok = (ints == [1, 195] or raw == ['c301']) and not o1.params()
            o2 = origin(w, b_[1]['args'][1])
            fp_ok = any(cname(c).endswith('Schema::rabin_fingerprint') for c in o2.calls) or any(a_[0] == 'call' and a_[1].endswith('Schema::rabin_fingerprint') for a_ in o2.atoms)
            # ... written as returned: no local the bytes pass through is ever borrowed mutably (reversed, patched, ...)
            from .c20gen import slice_back
            sl = slice_back(w, b_[1]['args'][1])
            chain = {l for (bid, l) in sl.locals if bid == w.id}
            patched = []
            for xb in sorted(w.live_blocks()):
                for st_ in w.stmts(xb):
                    if 'assign' in st_ and st_['rv']['k'] in ('ref', 'rawptr') and st_['rv'].get('mut') and st_['rv']['place']['l'] in chain \
                            and not w.local_ty(st_['rv']['place']['l']).startswith('&'):
                        patched.append(st_['rv']['place']['l'])
            fp_ok = fp_ok and not patched and not o2.has_arith()
            names = deep_call_names(w, b_[1]['args'][1])
            cfg_ok = any(strip_generics(n_).endswith('SerializerConfig::schema') for n_ in names)
            ta, tb = try_edges(w, a[0]), try_edges(w, b_[0])
            seq = ta is not None and tb is not None and w.dominates(ta[0], b_[0]) and w.dominates(tb[0], td[0][0])
            same = origin(w, a[1]['args'][0]).params() == {2} and origin(w, b_[1]['args'][0]).params() == {2} and origin(w, td[0][1]['args'][1]).params() == {2} \
                and origin(w, td[0][1]['args'][2]).params() == {3} and origin(w, td[0][1]['args'][0]).params() == {1}
            ok = m_ok and fp_ok and cfg_ok and seq and same
            det = 'marker C3 01 first: %s; then serializer_config.schema().rabin_fingerprint(): %s/%s; then to_datum; each step after the previous one succeeded: %s; same writer/config/value: %s' % (m_ok, fp_ok, cfg_ok, seq, same)
        ctx.ob('ORDER', 'to_single_object', ok, short_loc(w.span), det)
    v = fn_by_label(f, 'single_object_encoding::to_single_object_vec')
    if v is None:
        ctx.ob('ORDER', 'to_single_object_vec', False, None, 'anchor not found')
    else:
        ctx.touched(v)
        cs = [(bb, t) for bb, t in v.calls() if strip_generics(cname(t)) == 'single_object_encoding::to_single_object']
        ok = len(cs) == 1 and origin(v, cs[0][1]['args'][0]).params() == {1} and origin(v, cs[0][1]['args'][2]).params() == {2}
        ctx.ob('ORDER', 'to_single_object_vec', ok, short_loc(v.span), 'delegates to to_single_object with the same value and configuration: %s' % ok)

    ch = fn_by_label(f, 'single_object_encoding::check_header')
    if ch is None:
        ctx.ob('CHECK', 'check_header', False, None, 'anchor not found')
    else:
        ctx.touched(ch, len(ch.calls()))
        cmps = [(bb, t) for bb, t in ch.calls() if (t.get('callee') or '') in ('core::cmp::PartialEq::ne', 'core::cmp::PartialEq::eq')]
        got = {}
        for bb, t in cmps:
            a0, a1 = origin(ch, t['args'][0]), origin(ch, t['args'][1])
            sides = [(a0, t['args'][0]), (a1, t['args'][1])]
            rng = None
            for o, op in sides:
                for c in o.calls:
                    if call_matches(c, ['Index::index', 'Index<I>>::index', 'index::Index<I>>::index']):
                        ro = origin(ch, c['args'][1])
                        if o.params() == {1}:
                            rng = tuple(sorted(x for x in ro.consts() if isinstance(x, int)))
                            if len(rng) < 2 and 'len' in ro.flags and not ro.has_arith():
                                # a bound is the length of a constant byte string (`MARKER.len()`), the other (if any) a number
                                bs_ = [x for x in ro.consts() if isinstance(x, str) and x.startswith('bytes ')]
                                if len(bs_) == 1 and len(ro.consts()) == 1 + len(rng):
                                    rng = tuple(sorted(rng + (len(bs_[0][6:]) // 2,)))
                            # `header[..k]` / `header[k..]` on the 10-byte header: the missing end is the array's
                            kinds_ = {a[1].rsplit('::', 1)[-1] for a in ro.atoms if a[0] == 'agg'}
                            hl_ = re.search(r'\[u8; (\d+)\]', ch.local_ty(1) or '')
                            if len(rng) == 1 and kinds_ == {'RangeTo'}:
                                rng = (0, rng[0])
                            elif len(rng) == 1 and kinds_ == {'RangeFrom'} and hl_:
                                rng = (rng[0], int(hl_.group(1)))
            # the same two ranges obtained with `header.split_at(k)`: .0 is 0..k, .1 is k..10
            via_split = None
            if rng is None:
                for o, op in sides:
                    for c in o.calls:
                        if call_matches(c, ['slice::<impl [T]>::split_at']) and origin(ch, c['args'][0]).params() == {1}:
                            ko = origin(ch, c['args'][1])
                            ks = [x for x in ko.consts() if isinstance(x, int)]
                            k = ks[0] if len(ks) == 1 and not ko.params() else (2 if 'len' in ko.flags and not ko.params() and any('c301' in str(a[1]) or a[1] in (195, 1) for a in ko.atoms if a[0] == 'const') else None)
                            fi = tuple_field_of_call(ch, op, c)
                            if k is not None and fi in (0, 1):
                                rng = (0, k) if fi == 0 else (k, 10)
                                via_split = o
            other = [o for o, op in sides if o is not via_split and (not o.params() == {1} or not any(call_matches(c, ['Index::index', 'Index<I>>::index', 'index::Index<I>>::index']) for c in o.calls))]
            sw = t.get('target')
            while sw is not None and ch.term(sw)['k'] == 'goto':
                sw = ch.term(sw)['target']
            errs = False
            if sw is not None and ch.term(sw)['k'] == 'switch':
                ne = (t.get('callee') or '').endswith('::ne')
                t0 = [x['bb'] for x in ch.term(sw)['targets'] if x['v'] == 0][0]
                diff = ch.term(sw)['otherwise'] if ne else t0
                errs = all_paths_err(ch, diff)
            got[rng] = (other[0] if other else None, errs)
        m = got.get((0, 2))
        fp = got.get((2, 10))
        m_ok = False
        if m and m[0] is not None:
            ints = sorted(x for x in m[0].consts() if isinstance(x, int))
            raw = [str(x)[6:] for x in m[0].consts() if isinstance(x, str) and str(x).startswith('bytes ')]
            for x in m[0].consts():
                # a named constant (`const MARKER: [u8; 2] = [0xC3, 0x01]`): its evaluated value
                if isinstance(x, str) and x.startswith('named '):
                    cv = (f.consts.get(x[6:]) or {}).get('value') or {}
                    hx = cv.get('bytes') or cv.get('mem') or cv.get('ptr_bytes')
                    if hx:
                        raw.append(hx)
            m_ok = (ints == [1, 195] or raw == ['c301']) and m[1] and not m[0].params()
        ctx.ob('CHECK', 'check_header/marker', m_ok, short_loc(ch.span), 'bytes 0..2 compared with C3 01, mismatch => Err: %s' % m_ok)
        fp_ok = False
        fp_is_param = False
        if fp and fp[0] is not None:
            fp_ok = (any(cname(c).endswith('Schema::rabin_fingerprint') for c in fp[0].calls) or any(a[0] == 'call' and a[1].endswith('Schema::rabin_fingerprint') for a in fp[0].atoms)) and fp[1]
            if fp_ok:
                fpc = [c for c in fp[0].calls if cname(c).endswith('Schema::rabin_fingerprint')]
                fp_ok = not fpc or origin(ch, fpc[0]['args'][0]).params() == {2}
            elif fp[1] and fp[0].params() == {2} and not fp[0].call_names() and not fp[0].has_arith() and '[u8; 8]' in (ch.local_ty(2) or ''):
                # the caller hands the fingerprint itself (`check_header(header, schema.rabin_fingerprint())`): judged at
                # the call sites below
                fp_ok = True
                fp_is_param = True
        ctx.ob('CHECK', 'check_header/fingerprint', fp_ok, short_loc(ch.span), 'bytes 2..10 compared with the supplied schema\'s rabin_fingerprint(), mismatch => Err: %s' % fp_ok)
        ctx.ob('CHECK', 'check_header/two-comparisons', len(cmps) == 2 and set(got) == {(0, 2), (2, 10)}, short_loc(ch.span), 'ranges compared: %s' % sorted(k for k in got if k), nontrivial=False)
        # Ok only after both
        oks = ok_return_blocks(ch)
        ctx.ob('CHECK', 'check_header/ok-after-both', bool(oks) and all(all(ch.dominates(bb, o) for bb, _ in cmps) for o in oks), short_loc(ch.span), 'Ok(()) is dominated by both comparisons')
    for nm, dec in (('from_single_object_slice', 'from_datum_slice'), ('from_single_object_reader', 'from_datum_reader')):
        b = fn_by_label(f, 'single_object_encoding::' + nm)
        if b is None:
            ctx.ob('CHECK', nm, False, None, 'anchor not found')
            continue
        ctx.touched(b, len(b.calls()))
        cc = [(bb, t) for bb, t in b.calls() if strip_generics(cname(t)) == 'single_object_encoding::check_header']
        dd = [(bb, t) for bb, t in b.calls() if strip_generics(cname(t)) == dec]
        ok = len(cc) == 1 and len(dd) == 1
        if ok:
            te = try_edges(b, cc[0][0])
            a1 = origin(b, cc[0][1]['args'][1])
            fpc = [c for c in a1.calls if cname(c).endswith('Schema::rabin_fingerprint')]
            if fpc:
                # the fingerprint is computed here and handed over: it must be the supplied schema's
                arg_ok = origin(b, fpc[0]['args'][0]).params() == {2} and not a1.has_arith()
            else:
                arg_ok = a1.params() == {2} and not a1.call_names()
            schema_same = arg_ok and origin(b, dd[0][1]['args'][1]).params() == {2}
            ok = te is not None and b.dominates(te[0], dd[0][0]) and te[1] is not None and all_paths_err(b, te[1]) and schema_same
        ctx.ob('CHECK', nm, ok, short_loc(b.span), 'check_header(..)? succeeds before %s is called, with the same schema: %s' % (dec, ok))
    header_rule(ctx)
    # the fingerprint stamped / verified is the one computed from the node graph at freeze; the builder type has no
    # cached state that could go stale (shared with C08)
    from .c08 import source, canon, crc
    source(ctx)
    # "a message written under a schema with a different canonical form is never decoded" holds only as far as the
    # eight bytes compared are the CRC-64-AVRO of the canonical form: the canonical-form writer (first occurrence of a
    # named type keyed by its node, fullnames, per-kind templates) and the CRC are C08's rules, shared here
    canon(ctx)
    crc(ctx)
    # fingerprint is 8 bytes
    fns = [v_ for k, v_ in f.fns.items() if strip_generics(k).endswith('Schema::rabin_fingerprint')]
    ctx.ob('PAIR', 'fingerprint-8-bytes', bool(fns) and '[u8; 8]' in fns[0].get('output', ''), None, 'rabin_fingerprint returns %s' % (fns[0].get('output') if fns else None), nontrivial=False)
