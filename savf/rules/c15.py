"""C15 - container writer: valid file at every quiescent point; failed values leave none (structural part).

  FAILED     WriterInner::serialize / push_serialized: the block-buffer length is saved before the attempt, the error
             continuation truncates to exactly that saved length, and the element count is only bumped on success
  HEADER     every Ok return of the builder is dominated by the sink write of the complete header (shared with C06)
  TYPESTATE  finish_block encodes, then sets the header size, then resets the count - all on encode's success edge;
             flush_finished_block clears the header size and the buffer only on the success edge of the sink write;
             bytes are appended to the block buffer only after flush_finished_block succeeded in the same call
  MUSTCALL   into_inner, Writer::finish_block and Drop::drop (both arms) reach finish_block -> flush
             ... and when the flush inside into_inner fails the Err comes out: the sink is taken out on every way out of
             into_inner and Drop flushes only while the sink is there / no block write has failed      (found F29)
  FAILED     ... every Ok return of serialize / push_serialized passes the count update (values whose encoding is empty
             still count)
  MUSTCALL   ... Drop's early return is exempted as the *edges* of the two reviewed tests, not as the shared return block
It does NOT decide that the concatenated bytes are a valid file as a whole, nor crash points inside one sink write.
"""
from ..lib import *
from ..core import short_loc, op_place, const_int
from .c03 import fn_by_label

EXPLANATION = ("Writer quiescent points, structural part: failed value truncated and not counted, header before Ok, block "
               "bookkeeping reset only after success, Drop / into_inner / finish_block reach the flush. Whole-file validity "
               "at every quiescent point is not decided as such.")

P = 'object_container_file_encoding::writer::'


def field_assigns(b, field):
    out = []
    for bb in sorted(b.live_blocks()):
        if b.is_cleanup(bb):
            continue
        for s in b.stmts(bb):
            if 'assign' in s and any(isinstance(e, dict) and e.get('f') == field for e in s['assign'].get('p', [])):
                out.append((bb, s))
    return out


def field_mut_borrows(b, field):
    """`&mut <..>.field` taken in live, non-cleanup code (mem::take / mem::replace / swap write through these)"""
    out = []
    for bb in sorted(b.live_blocks()):
        if b.is_cleanup(bb):
            continue
        for s in b.stmts(bb):
            if 'assign' in s and s['rv']['k'] in ('ref', 'rawptr') and s['rv'].get('mut') and \
                    any(isinstance(e, dict) and e.get('f') == field for e in s['rv']['place'].get('p', [])):
                out.append((bb, s))
    return out


def run(ctx):
    from .c16 import complete_write_rules
    complete_write_rules(ctx)
    failed_rule(ctx)
    header_rule15(ctx)
    typestate(ctx)
    mustcall(ctx)
    # a failed value must not disturb the values written after it: the serializer's buffer pools only ever receive
    # cleared buffers, also on the failure paths (shared with C14)
    from .c14 import pool_rule
    pool_rule(ctx)


def failed_rule(ctx):
    f = ctx.f
    ser = fn_by_label(f, P + 'WriterInner::serialize')
    psh = fn_by_label(f, P + 'WriterInner::push_serialized')
    for nm, b, attempt in (('serialize', ser, 'serde_core::ser::Serialize::serialize'), ('push_serialized', psh, 'std::io::Write::write_all')):
        if b is None:
            ctx.ob('FAILED', nm, False, None, 'anchor WriterInner::%s not found' % nm)
            continue
        ctx.touched(b, len(b.calls()))
        at = [(bb, t) for bb, t in b.calls() if (t.get('callee') or '') == attempt]
        ok = len(at) == 1
        det = '%d attempt call(s)' % len(at)
        if ok:
            abb, atm = at[0]
            # saved length: a Vec::len() on the block buffer dominating the attempt
            lens = [(bb, t) for bb, t in b.calls() if call_matches(t, ['Vec::<T, A>::len']) and b.dominates(bb, abb) and
                    any(strip_generics(cname(c)).endswith('SerializerState::writer') for c in origin(b, t['args'][0]).calls)]
            # error continuation: closure given to map_err on the attempt's result
            me = [(bb, t) for bb, t in b.calls() if cname(t).endswith('Result::<T, E>::map_err') and any(c is atm for c in origin(b, t['args'][0]).calls + [x for x in [None]]) or
                  (cname(t).endswith('Result::<T, E>::map_err') and op_place(t['args'][0]) and op_place(t['args'][0])['l'] == atm['dest']['l'])]
            trunc_ok = False
            if not me and lens:
                # the same thing spelled `if let Err(e) = attempt { truncate(saved); return Err(e) }`
                te_ = try_edges(b, abb)
                if te_ is not None and te_[1] is not None and all_paths_err(b, te_[1]):
                    errb = b.reachable_from(te_[1])
                    trs = [(xb, b.term(xb)) for xb in sorted(errb) if b.term(xb)['k'] == 'call' and call_matches(b.term(xb), ['Vec::<T, A>::truncate'])]
                    if len(trs) == 1:
                        to = origin(b, trs[0][1]['args'][1])
                        bo = origin(b, trs[0][1]['args'][0])
                        same_len = any(c is lens[-1][1] for c in to.calls) and not to.has_arith() and not to.consts()
                        on_buf = any(strip_generics(cname(c)).endswith('SerializerState::writer_mut') for c in bo.calls)
                        rets_ = [x for x in errb if b.term(x)['k'] == 'return']
                        trunc_ok = same_len and on_buf and must_pass(b, te_[1], rets_, [trs[0][0]])
            if len(me) >= 1 and lens:
                co = origin(b, me[0][1]['args'][1])
                for a in co.atoms:
                    if a[0] == 'closure':
                        cb = f.bodies.get(a[1])
                        if cb is None:
                            continue
                        ctx.touched(cb)
                        trs = [(cbb, ct) for cbb, ct in cb.calls() if call_matches(ct, ['Vec::<T, A>::truncate'])]
                        if len(trs) == 1:
                            to = origin(cb, trs[0][1]['args'][1])
                            bo = origin(cb, trs[0][1]['args'][0])
                            same_len = any(c is lens[-1][1] for c in to.calls) and 'upvar' in to.flags and not to.has_arith() and not to.consts()
                            on_buf = any(strip_generics(cname(c)).endswith('SerializerState::writer_mut') for c in bo.calls)
                            trunc_ok = same_len and on_buf and all(cb.dominates(trs[0][0], r) for r in cb.exits())
            # count only on success
            te = try_edges(b, abb)
            cnt = field_assigns(b, 'n_elements_in_block')
            in_closures = [1 for cb in f.closures_of(b) for _ in field_assigns(cb, 'n_elements_in_block') + field_mut_borrows(cb, 'n_elements_in_block')]
            # (a closure capturing the counter mutably shows up as a `&mut self.count` taken where the closure is built)
            cmb = field_mut_borrows(b, 'n_elements_in_block')
            cnt_ok = te is not None and bool(cnt) and all(b.dominates(te[0], bb) for bb, _ in cnt + cmb) and not in_closures
            # ... and before the size-triggered flush, so that the block that is cut contains the object it counts
            fins = [fbb for fbb, ft in b.calls() if strip_generics(cname(ft)).endswith('WriterInner::finish_block')]
            cnt_ok = cnt_ok and all(b.dominates(cbb, fbb) for cbb, _ in cnt for fbb in fins)
            if nm == 'serialize':
                inc = False
                for bb, s in cnt:
                    o = origin(b, s['rv'].get('op') or s['assign'])
                    inc = 'n_elements_in_block' in o.fields and 1 in o.consts() and {x for x in o.flags if x.startswith('arith:')} <= {'arith:AddWithOverflow', 'arith:Add'}
                cnt_ok = cnt_ok and inc
            else:
                ca = [(bb, t) for bb, t in b.calls() if call_matches(t, ['::checked_add'])]
                okca = False
                for bb, t in ca:
                    a0, a1 = origin(b, t['args'][0]), origin(b, t['args'][1])
                    okca = 'n_elements_in_block' in a0.fields and a1.params() == {3}
                cnt_ok = cnt_ok and okca
            ok = trunc_ok and cnt_ok
            det = 'length saved before the attempt and restored by truncate(saved) in the error continuation: %s; count updated only on the success edge: %s' % (trunc_ok, cnt_ok)
        ctx.ob('FAILED', nm, ok, short_loc(b.span), det)
        if b is not None:
            # ... and every Ok counts: no return of success that goes around the attempt and the count update (values whose
            # encoding is empty - null, a record of nulls - still are values of the block)
            cnt_ = [bb for bb, _ in field_assigns(b, 'n_elements_in_block')]
            oks_ = ok_return_blocks(b)
            counted = bool(cnt_) and bool(oks_) and must_pass(b, 0, oks_, cnt_)
            ctx.ob('FAILED', nm + '/every-ok-counts', counted, short_loc(b.span),
                   'every path from the entry of %s to an Ok return updates the element count: %s' % (nm, counted))



def header_rule15(ctx):
    f = ctx.f
    bw = fn_by_label(f, P + 'WriterBuilder::build_with_user_metadata')
    if bw is None:
        ctx.ob('HEADER', 'builder', False, None, 'anchor not found')
    else:
        ctx.touched(bw)
        was = [(bb, t) for bb, t in bw.calls() if (t.get('callee') or '') == 'std::io::Write::write_all']
        sink = [(bb, t) for bb, t in was if origin(bw, t['args'][0]).params() == {2}]
        ok = len(sink) == 1
        if ok:
            te = try_edges(bw, sink[0][0])
            oks = ok_return_blocks(bw)
            ok = te is not None and bool(oks) and all(bw.dominates(te[0], o) for o in oks) and te[1] is not None and all_paths_err(bw, te[1])
        ctx.ob('HEADER', 'builder/header-before-ok', ok, short_loc(bw.span), 'every Ok return of the builder is after the successful sink write of the header: %s' % ok)
        # the Writer starts with an empty block: count 0, no pending header, cleared buffer
        clr = [(bb, t) for bb, t in bw.calls() if call_matches(t, ['Vec::<T, A>::clear'])]
        init = False
        for bb in bw.live_blocks():
            for s in bw.stmts(bb):
                if 'assign' in s and s['rv']['k'] == 'agg' and s['rv'].get('adt') == P + 'WriterInner':
                    rv = s['rv']
                    n0 = const_int(rv['ops'][rv['fields'].index('n_elements_in_block')]) == 0
                    ho = origin(bw, rv['ops'][rv['fields'].index('block_header_size')])
                    nothing_pending = ('None' in {a[2] for a in ho.atoms if a[0] == 'agg'}) or \
                        (ho.consts() == {0} and len(ho.atoms) == 1 and _header_size_is_plain(f))
                    init = n0 and nothing_pending and bool(clr) and all(bw.dominates(c[0], bb) for c in clr)
        ctx.ob('HEADER', 'builder/starts-empty', init, short_loc(bw.span), 'writer starts with count 0, no pending block header and a cleared buffer: %s' % init)


def _header_size_is_plain(f):
    """the pending-block marker is a plain integer (0 = nothing pending) instead of Option<NonZeroUsize>"""
    a = f.adts.get(P + 'WriterInner') or {}
    for v in a.get('variants', [])[:1]:
        for fd in v.get('fields', []):
            if fd.get('name') == 'block_header_size':
                return fd.get('ty') in ('usize', 'u32', 'u64')
    return False


def typestate(ctx):
    f = ctx.f
    fb = fn_by_label(f, P + 'WriterInner::finish_block')
    if fb is None:
        ctx.ob('TYPESTATE', 'finish_block', False, None, 'anchor not found')
    else:
        ctx.touched(fb, len(fb.calls()))
        enc = [(bb, t) for bb, t in fb.calls() if strip_generics(cname(t)).endswith('CompressionCodecState::encode')]
        ok = len(enc) == 1
        det = '%d encode call(s)' % len(enc)
        if ok:
            te = try_edges(fb, enc[0][0])
            hs = field_assigns(fb, 'block_header_size')
            ct = field_assigns(fb, 'n_elements_in_block')
            mb = field_mut_borrows(fb, 'block_header_size') + field_mut_borrows(fb, 'n_elements_in_block')
            cmb_ = field_mut_borrows(fb, 'n_elements_in_block')
            # the reset is `count = 0` or a `mem::take(&mut count)`: either way after encode succeeded
            takes = [bb for bb, t in fb.calls() if strip_generics(cname(t)).endswith(('mem::take', 'mem::replace')) and 'n_elements_in_block' in origin(fb, t['args'][0]).fields]
            after = te is not None and bool(hs) and (bool(ct) or bool(takes)) and all(fb.dominates(te[0], bb) for bb, _ in hs + ct + mb) and te[1] is not None and all_paths_err(fb, te[1])
            zero = all(const_int(s['rv'].get('op')) == 0 for bb, s in ct if s['rv']['k'] == 'use')
            order = all(fb.dominates(h[0], c[0]) for h in hs for c in ct) or bool(takes)
            # only when there is something to write
            guard = False
            for g in cmp_guards(fb, enc[0][0]):
                if g['op'] in ('Gt', 'Ne') and 'n_elements_in_block' in g['l'].fields and g['r'].consts() == {0}:
                    guard = True
            # encode gets the block buffer
            eo = origin(fb, enc[0][1]['args'][1])
            buf = any(strip_generics(cname(c)).endswith('SerializerState::writer') for c in eo.calls)
            ok = after and zero and order and guard and buf
            det = 'header size set and count reset to 0 only after encode succeeded: %s/%s; header size before the reset: %s; only for a non-empty block: %s; encodes the block buffer: %s' % (after, zero, order, guard, buf)
        ctx.ob('TYPESTATE', 'finish_block', ok, short_loc(fb.span), det)
        # the count written is the count being reset (read before the reset) -- covered by C06 FRAMING
    fl = fn_by_label(f, P + 'Writer::flush_finished_block')
    if fl is None:
        ctx.ob('TYPESTATE', 'flush_finished_block', False, None, 'anchor not found')
    else:
        ctx.touched(fl, len(fl.calls()))
        vw = [(bb, t) for bb, t in fl.calls() if cname(t).endswith('vectored_write_polyfill::write_all_vectored')]
        ok = len(vw) == 1
        det = '%d sink write(s)' % len(vw)
        if ok:
            te = try_edges(fl, vw[0][0])
            hs = field_assigns(fl, 'block_header_size')
            cl = [(bb, t) for bb, t in fl.calls() if call_matches(t, ['Vec::<T, A>::clear'])]
            after = te is not None and bool(hs) and bool(cl) and all(fl.dominates(te[0], bb) for bb, _ in hs) and all(fl.dominates(te[0], bb) for bb, _ in cl) \
                and te[1] is not None and all_paths_err(fl, te[1])
            # only when a block is pending
            pend = any('Some' in names and 'block_header_size' in oo.fields for names, adt, oo, d_, oth in option_guards(fl, vw[0][0]))
            if not pend and _header_size_is_plain(f):
                # `match self.inner.block_header_size { 0 => nothing pending, size => write }`
                for d_, si_, taken_ in dominating_switches(fl, vw[0][0]):
                    if si_.get('kind') not in ('enum', 'bool') and taken_[0] == 'not' and 0 in taken_[1]:
                        so_ = origin(fl, si_['op'])
                        if 'block_header_size' in so_.fields and not so_.has_arith():
                            pend = True
            sinkw = 'writer' in origin(fl, vw[0][1]['args'][0]).fields
            ok = after and pend and sinkw
            det = 'pending-block marker and buffer cleared only after the sink write succeeded: %s; written only when a block is pending: %s' % (after, pend)
        ctx.ob('TYPESTATE', 'flush_finished_block', ok, short_loc(fl.span), det)
    for nm in ('serialize', 'push_serialized'):
        b = fn_by_label(f, P + 'Writer::' + nm)
        if b is None:
            ctx.ob('TYPESTATE', 'Writer::' + nm, False, None, 'anchor not found')
            continue
        ctx.touched(b, len(b.calls()))
        flc = [(bb, t) for bb, t in b.calls() if strip_generics(cname(t)).endswith('Writer::flush_finished_block')]
        inner = [(bb, t) for bb, t in b.calls() if strip_generics(cname(t)).endswith('WriterInner::' + nm)]
        ok = len(inner) == 1 and len(flc) >= 2
        det = '%d flush call(s), %d inner call(s)' % (len(flc), len(inner))
        if ok:
            first = [x for x in flc if b.dominates(x[0], inner[0][0])]
            lastf = [x for x in flc if b.dominates(inner[0][0], x[0])]
            te = try_edges(b, first[0][0]) if first else None
            te2 = try_edges(b, inner[0][0])
            ok = bool(first) and bool(lastf) and te is not None and b.dominates(te[0], inner[0][0]) and te2 is not None and all(b.dominates(te2[0], x[0]) for x in lastf)
            oks = ok_return_blocks(b)
            ok = ok and all(any(b.dominates(try_edges(b, x[0])[0], o) for x in lastf if try_edges(b, x[0])) for o in oks)
            det = 'pending block flushed (successfully) before appending, and again before returning Ok: %s' % ok
        ctx.ob('TYPESTATE', 'Writer::' + nm, ok, short_loc(b.span), det)
    # the only appenders to the block buffer are those two (who-may-write)
    apps = set()
    for b in f.body_list:
        fl_ = fn_label(b)
        if not (fl_.startswith(P) or fl_.startswith('<' + P)):
            continue
        for bb, t in b.calls():
            if strip_generics(cname(t)).endswith('SerializerState::writer_mut') or strip_generics(cname(t)).endswith('SerializerState::serializer'):
                apps.add(fl_.split('::{closure')[0])
    want = {P + 'WriterInner::serialize', P + 'WriterInner::push_serialized', P + 'Writer::flush_finished_block'}
    ctx.ob('TYPESTATE', 'block-buffer-writers', apps <= want and (P + 'WriterInner::serialize') in apps, None,
           'functions with mutable access to the block buffer: %s' % sorted(x[len(P):] for x in apps))


def mustcall(ctx):
    f = ctx.f
    # into_inner -> finish_block()? -> writer.take()
    b = fn_by_label(f, P + 'Writer::into_inner')
    if b is None:
        ctx.ob('MUSTCALL', 'into_inner', False, None, 'anchor not found')
    else:
        ctx.touched(b)
        fb = [(bb, t) for bb, t in b.calls() if strip_generics(cname(t)).endswith('Writer::finish_block')]
        ok = len(fb) == 1
        if ok:
            te = try_edges(b, fb[0][0])
            ok = te is not None and all(b.dominates(te[0], o) for o in ok_return_blocks(b)) and te[1] is not None and all_paths_err(b, te[1])
            if not ok:
                # `let res = self.finish_block(); ...; res.map(|()| writer)`: what is returned is that very result with
                # the sink put in its Ok
                ro = return_origin(b)
                mp = [c for c in ro.calls if strip_generics(cname(c)).endswith('Result::map')]
                ok = len(mp) == 1 and any(c is fb[0][1] for c in origin(b, mp[0]['args'][0]).calls) and not ok_return_blocks(b)
            if not ok:
                # `match res { Ok(()) => Ok(writer), Err(e) => Err(e) }` further down
                for sbb in sorted(b.live_blocks()):
                    if b.term(sbb)['k'] != 'switch' or b.is_cleanup(sbb):
                        continue
                    si = b.switch_info(sbb)
                    if si.get('kind') == 'enum' and si.get('adt') == 'core::result::Result' and any(c is fb[0][1] for c in origin(b, si['place']).calls):
                        okb = si['variants'].get('Ok', si['otherwise'] if 'Ok' in (si.get('otherwise_variants') or []) else None)
                        erb = si['variants'].get('Err', si['otherwise'] if 'Err' in (si.get('otherwise_variants') or []) else None)
                        oks_ = ok_return_blocks(b)
                        ok = okb is not None and erb is not None and bool(oks_) and all(b.dominates(okb, o) or o == okb for o in oks_) and all_paths_err(b, erb)
        ctx.ob('MUSTCALL', 'into_inner', ok, short_loc(b.span), 'into_inner returns the sink only after finish_block() succeeded (`?`, or its result mapped): %s' % ok)
        # ... and when that flush fails the caller gets the Err: into_inner consumes the writer, so whatever it leaves
        # behind is dropped on the way out - with the block still pending and the sink still inside, Drop flushes again into
        # the sink that just failed and (debug builds) panics on the second error instead of letting the first one out.
        # The sink is taken out on EVERY way out of into_inner, and Drop does nothing once the sink is gone.
        tk = [(bb, t) for bb, t in b.calls() if strip_generics(cname(t)).endswith('Option::take') and 'writer' in origin(b, t['args'][0]).fields and not b.is_cleanup(bb)]
        taken_always = bool(tk) and all(any(b.dominates(x, e) for x, _ in tk) for e in b.exits() if not b.is_cleanup(e))
        d_ = fn_by_label(f, '<' + P + 'Writer as core::ops::drop::Drop>::drop')
        drop_guarded = False
        if d_ is not None:
            fl_ = [bb for bb, t in d_.calls() if strip_generics(cname(t)).endswith('Writer::finish_block') or cname(t).endswith('panic::catch_unwind')]
            drop_guarded = bool(fl_)
            for x in fl_:
                g = any('Some' in names and 'writer' in oo.fields for names, adt, oo, d2, oth in option_guards(d_, x)) or \
                    any(strip_generics(cname(c)).endswith(('Option::is_none', 'Option::is_some')) and 'writer' in origin(d_, c['args'][0]).fields
                        for dd, si, taken in dominating_switches(d_, x) if si.get('kind') != 'enum' for c in origin(d_, si['op']).calls)
                drop_guarded = drop_guarded and g
        ctx.ob('MUSTCALL', 'into_inner/error-comes-out', taken_always and drop_guarded, short_loc(b.span),
               'the sink is taken out of the writer on every way out of into_inner (also when the flush failed): %s; Drop flushes only while the sink is still there: %s' % (taken_always, drop_guarded))
    b = fn_by_label(f, P + 'Writer::finish_block')
    if b is None:
        ctx.ob('MUSTCALL', 'finish_block', False, None, 'anchor not found')
    else:
        ctx.touched(b)
        a = [(bb, t) for bb, t in b.calls() if strip_generics(cname(t)).endswith('WriterInner::finish_block')]
        c = [(bb, t) for bb, t in b.calls() if strip_generics(cname(t)).endswith('Writer::flush_finished_block')]
        ok = len(a) == 1 and len(c) == 1
        if ok:
            ta, tc = try_edges(b, a[0][0]), try_edges(b, c[0][0])
            ok = ta is not None and tc is not None and b.dominates(ta[0], c[0][0]) and all(b.dominates(tc[0], o) for o in ok_return_blocks(b))
        ctx.ob('MUSTCALL', 'finish_block', ok, short_loc(b.span), 'finish_block = inner.finish_block()? then flush_finished_block()? before Ok: %s' % ok)
    d = fn_by_label(f, '<' + P + 'Writer as core::ops::drop::Drop>::drop')
    if d is None:
        ctx.ob('MUSTCALL', 'drop', False, None, 'Drop for Writer not found')
    else:
        ctx.touched(d)
        pk = [(bb, t) for bb, t in d.calls() if cname(t).endswith('thread::panicking')]
        direct = [(bb, t) for bb, t in d.calls() if strip_generics(cname(t)).endswith('Writer::finish_block')]
        cu = [(bb, t) for bb, t in d.calls() if cname(t).endswith('panic::catch_unwind')]
        viaclosure = False
        for cb in f.closures_of(d):
            if any(strip_generics(cname(t)).endswith('Writer::finish_block') for bb, t in cb.calls()):
                viaclosure = True
        # every path from entry to return passes one of the two - except the early return taken when there is nothing
        # left to flush to: the sink was taken out (into_inner) or a block write already failed and was reported
        early = []
        for bb in sorted(d.live_blocks()):
            if d.term(bb)['k'] != 'switch' or d.is_cleanup(bb):
                continue
            si = d.switch_info(bb)
            if si.get('kind') == 'enum':
                continue
            so = origin(d, si['op'])
            none_test = any(strip_generics(cname(c)).endswith('Option::is_none') and 'writer' in origin(d, c['args'][0]).fields for c in so.calls)
            flag_test = bool(so.fields) and so.fields <= {'flush_failed'} and not so.calls
            if none_test or flag_test:
                early.append((bb, d.term(bb)['otherwise']))      # the `true` edge
        # (the exemption is the *edge*, not its target: the early-return block is shared by both tests, and by any other
        # test that jumps to it - `writer.is_some()` for one)
        def reaches_exit_unflushed():
            via = {direct[0][0], cu[0][0]}
            exits = set(d.exits())
            seen, todo = set(), [0]
            while todo:
                x = todo.pop()
                if x in seen or x in via:
                    continue
                seen.add(x)
                if x in exits:
                    return True
                for y in d.succs(x):
                    if (x, y) not in early and not d.is_cleanup(y):
                        todo.append(y)
            return False
        ok = len(direct) == 1 and len(cu) == 1 and viaclosure and not reaches_exit_unflushed()
        ctx.ob('MUSTCALL', 'drop', ok, short_loc(d.span), 'Drop reaches finish_block on the normal arm and (inside catch_unwind) on the panicking arm: %s' % ok)
