"""C05 - container round trip: codecs, levels, sizes, flushes (structural part).

  CODEC     per streaming codec loop (deflate, bzip2, xz): the arm for the library's "more output pending" status
            grows the output buffer and re-enters the compress call; the arm for "stream end" leaves the loop and
            records total_out; no other arm leaves with Ok.  Status protocol table from the crates' sources.
  ONESHOT   snappy: output sized by max_compress_len, truncated to the returned length, then the CRC appended;
            zstd: buffer cleared and reserved to compress_bound
  SLICEOUT  compressed_buffer() slices the output by exactly the recorded total_out / len (or the whole vector for
            the one-shot codecs)
  TABLES    Compression::X -> CompressionCodec::X; every codec has an encoder arm, a state (decoder) arm and a
            left-after-take arm
  LEVEL     every CompressionLevel reaching a library constructor went through clip(max)
  CONSUMED  every exit from a block passes into_left_after_take (with `?`); every streaming decoder (deflate, bzip2,
            xz, zstd) is first driven to its end by a 1-byte read whose error propagates and whose non-zero result
            is an error (a decoder that was never pulled leaves its compressed bytes in the block: F10)
  CONSUMED  ... that probe reads through the buffered layer the objects were decoded from (what a BufReader already pulled
            in is data left in the block too)
  RESET     a reused streaming encoder is reset before each block; bzip2/xz build a fresh encoder per block
  BLOCKCFG  data blocks are read with a fresh default DeserializerConfig over the file's schema; only the header's
            configuration is tightened (max_seq_size = 1000)
  POOLCLEAN shared from c14: pooled scratch buffers of the serializer configuration the Writer reuses for every value
            come back empty on every path
  CODEC     ... a doubling encode loop starts on a buffer that was given a positive length wherever it was empty
  CONSUMED  ... snappy: the *equal* outcome of position vs length is the one that goes on
  shared    SLICE / VARINT / FIXEDBUF (c11), FAILED incl. every-ok-counts (c15), SINK/one-block-writer (c16)
It does NOT decide equality of what is read back nor buffer-boundary arithmetic inside the C libraries.
"""
import re
from ..lib import *
from ..inventory import natural_loops
from ..core import short_loc, op_place, const_int
from .c03 import fn_by_label

EXPLANATION = ("Container-file round trip, structural part: compressor API protocol per codec (grow until StreamEnd), output "
               "slice provenance, codec tables of writer and reader agree, levels clipped, block fully consumed on every exit "
               "from a block, encoder reset per block. Equality of what is read back and the C libraries' internals are not decided.")

P = 'object_container_file_encoding::'
ENC = P + 'writer::compression::CompressionCodecState::encode'

# library status protocol when finishing a stream (action = Finish); from the crates' sources in ~/.cargo/registry:
#   flate2 1.x  mem.rs Compress::compress   : Ok / BufError => more output pending (or no progress), StreamEnd => done
#   bzip2 0.4   mem.rs Compress::compress   : returns RunOk|FlushOk|FinishOk|StreamEnd only; with Finish, FinishOk => call again
#   xz2 0.1     stream.rs Stream::process   : Ok => progress, call again; MemNeeded => no progress with these buffers; StreamEnd => done
PROTOCOL = {
    'flate2::mem::Status': {'Ok': {'grow'}, 'BufError': {'grow', 'err'}, 'StreamEnd': {'end'}},
    'bzip2::mem::Status': {'FinishOk': {'grow'}, 'MemNeeded': {'grow', 'err'}, 'StreamEnd': {'end'},
                           'Ok': {'err'}, 'FlushOk': {'err'}, 'RunOk': {'err'}},
    'xz2::stream::Status': {'Ok': {'grow'}, 'MemNeeded': {'grow'}, 'StreamEnd': {'end'}, 'GetCheck': {'err'}},
}
COMPRESS_CALL = {
    'flate2::mem::Status': 'flate2::mem::Compress::compress',
    'bzip2::mem::Status': 'bzip2::mem::Compress::compress',
    'xz2::stream::Status': 'xz2::stream::Stream::process',
}
FEATURE_OF = {'flate2::mem::Status': 'deflate', 'bzip2::mem::Status': 'bzip2', 'xz2::stream::Status': 'xz'}


def classify_arm(b, entry, compress_bbs, loop_blocks):
    """'grow' | 'end' | 'err' | 'other' for the arm starting at `entry` inside a compress loop"""
    if all_paths_err(b, entry, avoid=compress_bbs):
        # never reaches the compress call again and every return is an error
        reach = b.reachable_from(entry, avoid=compress_bbs)
        if not (set(b.preds_of_any(compress_bbs)) & reach if hasattr(b, 'preds_of_any') else False):
            return 'err'
    reach = b.reachable_from(entry, avoid=compress_bbs)
    reenters = any(any(s in compress_bbs for s in b.succs(x)) for x in reach) or entry in compress_bbs
    # does it re-enter the loop header (and hence the compress call)?
    back = any((s in loop_blocks and b.dominates(s, x) and s != x) for x in reach for s in b.succs(x) if s in loop_blocks and b.dominates(s, x))
    resizes = [x for x in reach if b.term(x)['k'] == 'call' and call_matches(b.term(x), ['Vec::<T, A>::resize', 'Vec::<T, A>::reserve'])]
    leaves = any(x not in loop_blocks for x in reach)
    if (back or reenters) and not leaves_without_loop(b, entry, loop_blocks):
        return 'grow' if resizes else 'spin'
    if leaves:
        return 'end'
    return 'other'


def leaves_without_loop(b, entry, loop_blocks):
    """can control leave the loop from this arm (other than by erroring)?"""
    reach = b.reachable_from(entry, avoid=[x for x in loop_blocks if b.dominates(x, entry) and x != entry and False])
    # walk inside the arm only: stop at the loop header
    header = min(loop_blocks, key=lambda x: 0 if all(b.dominates(x, y) for y in loop_blocks) else 1)
    inside = b.reachable_from(entry, avoid=[header])
    for x in inside:
        if x not in loop_blocks:
            # left the loop: is it an error-only exit?
            if not all_paths_err(b, x):
                return True
    return False


def blockcfg_rule(ctx):
    """the limits applied to data blocks are the defaults of a fresh configuration over the file's schema - never the
    tightened configuration used for the header (max_seq_size = 1000 there): what the writer wrote must be readable"""
    f = ctx.f
    nm = fn_by_label(f, P + 'reader::Reader::new_and_metadata')
    if nm is None:
        ctx.ob('BLOCKCFG', 'anchor', False, None, 'Reader::new_and_metadata not found')
        return
    ctx.touched(nm)
    RS_ = P + 'reader::ReaderState'
    ok, det = False, 'initial reader state not found'
    for bb in sorted(nm.live_blocks()):
        for s_ in nm.stmts(bb):
            if 'assign' in s_ and s_['rv']['k'] == 'agg' and s_['rv'].get('adt') == RS_ and 'config' in (s_['rv'].get('fields') or []):
                co = origin(nm, s_['rv']['ops'][s_['rv']['fields'].index('config')])
                calls_ = [a[1] for a in co.atoms if a[0] == 'call']
                fresh = len(co.atoms) == 1 and len(calls_) == 1 and strip_generics(calls_[0]).endswith('DeserializerConfig::from_schema_node')
                root = False
                for c in co.calls:
                    if strip_generics(cname(c)).endswith('DeserializerConfig::from_schema_node'):
                        ro = origin(nm, c['args'][0])
                        root = any(strip_generics(cname(x)).endswith('root_with_fake_static_lifetime') for x in ro.calls) or \
                            any(a[0] == 'call' and strip_generics(a[1]).endswith('root_with_fake_static_lifetime') for a in ro.atoms)
                ok = fresh and root
                det = 'blocks are read with DeserializerConfig::from_schema_node(<root of the parsed schema>) and nothing else: fresh %s, root of the file schema %s (%s)' % (fresh, root, co.describe()[:100])
    ctx.ob('BLOCKCFG', 'blocks-use-a-fresh-default-config', ok, short_loc(nm.span), det)
    # no assignment tightens that configuration afterwards in the reader module
    tight = []
    for b in f.body_list:
        fl = fn_label(b)
        if not (fl.startswith(P + 'reader::') or fl.startswith('<' + P + 'reader::')):
            continue
        for bb in sorted(b.live_blocks()):
            for s_ in b.stmts(bb):
                if 'assign' in s_ and any(isinstance(e, dict) and e.get('f') in ('max_seq_size', 'allowed_depth') and e.get('of', '').endswith('DeserializerConfig') for e in s_['assign'].get('p', [])):
                    o = origin(b, {'copy': {'l': s_['assign']['l']}})
                    tight.append((short_fn(fl), [e.get('f') for e in s_['assign']['p'] if isinstance(e, dict) and 'f' in e][-1]))
    ctx.ob('BLOCKCFG', 'only-the-header-config-is-tightened', tight == [('Reader::new_and_metadata', 'max_seq_size')], short_loc(nm.span),
           'limit assignments in the reader module: %s (reviewed: the header\'s max_seq_size only)' % tight)


def run(ctx):
    from .c16 import complete_write_rules
    complete_write_rules(ctx)
    f = ctx.f
    blockcfg_rule(ctx)
    # a Writer serializes every value through one SerializerConfig: what a value that was refused leaves in its scratch
    # pool is prepended to the next out-of-order field, i.e. written to the file under an Ok
    from .c14 import pool_rule
    pool_rule(ctx)
    enc = with_helpers(fn_by_label(f, ENC))
    if enc is None:
        ctx.ob('CODEC', 'anchor', False, None, 'CompressionCodecState::encode not found')
        return
    ctx.touched(enc, len(enc.calls()))
    loops = natural_loops(enc)
    nstat = 0
    for adt, table in PROTOCOL.items():
        feat = FEATURE_OF[adt]
        sws = enc.switches_on_adt(adt)
        if not ctx.has_feature(feat):
            ctx.ob('CODEC', '%s/feature-off' % feat, not sws, None, 'feature %s disabled: no %s loop expected' % (feat, adt), nontrivial=False)
            continue
        if len(sws) != 1:
            ctx.ob('CODEC', '%s/status-match' % feat, False, short_loc(enc.span), 'expected one match on %s in encode, found %d' % (adt, len(sws)))
            continue
        si = sws[0]
        # the loop containing the switch
        lp = [(h, blk) for h, blk in loops.items() if si['bb'] in blk]
        if not lp:
            ctx.ob('CODEC', '%s/loop' % feat, False, short_loc(enc.span), 'status match is not inside a loop')
            continue
        h, blk = min(lp, key=lambda x: len(x[1]))
        comp = [bb for bb in blk if enc.term(bb)['k'] == 'call' and cname(enc.term(bb)) == COMPRESS_CALL[adt]]
        ctx.ob('CODEC', '%s/compress-in-loop' % feat, len(comp) == 1, short_loc(enc.span), '%d call(s) to %s inside the loop' % (len(comp), COMPRESS_CALL[adt]), nontrivial=False)
        if len(comp) != 1:
            continue
        # the status switched on is the result of that call (through map_err + ?)
        so = origin(enc, si['place'])
        ctx.ob('CODEC', '%s/status-is-compress-result' % feat, any(c is enc.term(comp[0]) for c in so.calls) and 'try' in so.flags, short_loc(si.get('span')),
               'status derives from %s' % so.describe()[:160])
        # finish action
        act = origin(enc, enc.term(comp[0])['args'][-1])
        fin = {a[2] for a in act.atoms if a[0] == 'agg'}
        ctx.ob('CODEC', '%s/action-finish' % feat, fin == {'Finish'}, short_loc(enc.term(comp[0]).get('span')), 'compress action %s' % sorted(fin))
        # output slice starts at total_out
        outo = origin(enc, enc.term(comp[0])['args'][2])
        idxc = [c for c in outo.calls if call_matches(c, ['IndexMut::index_mut', 'IndexMut<I>>::index_mut'])]
        to_ok = False
        if 'output_vec' in outo.fields and len(idxc) == 1:
            ro = origin(enc, idxc[0]['args'][1])
            to_ok = any(cname(c).endswith('::total_out') for c in ro.calls) and any(a[0] == 'agg' and a[1].endswith('RangeFrom') for a in ro.atoms) and not ro.has_arith()
        ctx.ob('CODEC', '%s/output-from-total_out' % feat, to_ok, short_loc(enc.term(comp[0]).get('span')), 'output window is output_vec[total_out..]: %s' % to_ok)
        # input window: what is handed to the next compress call starts after what the library already consumed (it is
        # derived from total_in, directly as input[total_in..] or through a local advanced by the total_in delta)
        ino = origin(enc, enc.term(comp[0])['args'][1])
        in_idx = [c for c in ino.calls if call_matches(c, ['Index::index', 'Index<I>>::index', 'Index<I> for [T]>::index'])]
        in_ok = ino.params() == {2} and bool(in_idx)
        for c in in_idx:
            ro = origin(enc, c['args'][1])
            in_ok = in_ok and any(cname(x).endswith('::total_in') for x in ro.calls) and any(a[0] == 'agg' and a[1].endswith('RangeFrom') for a in ro.atoms) \
                and {x for x in ro.flags if x.startswith('arith:')} <= {'arith:Sub', 'arith:SubWithOverflow'}
        ctx.ob('CODEC', '%s/input-from-total_in' % feat, in_ok, short_loc(enc.term(comp[0]).get('span')),
               'input window of the retried compress call advances with the library\'s total_in: %s' % in_ok)
        by_target = {}
        for v, tb in si['variants'].items():
            by_target.setdefault(tb, []).append(v)
        for tb, vs in by_target.items():
            inside = enc.reachable_from(tb, avoid=[h])
            resizes = [x for x in inside if enc.term(x)['k'] == 'call' and call_matches(enc.term(x), ['Vec::<T, A>::resize']) and
                       'output_vec' in origin(enc, enc.term(x)['args'][0]).fields]
            to_header = any(h in enc.succs(x) for x in inside)
            reaches_ok = bool(ok_return_blocks(enc, inside))
            if all_paths_err(enc, tb, avoid=[h]) and not to_header:
                cls = 'err'
            elif to_header and not reaches_ok:
                cls = 'grow' if resizes else 'spin'
            elif reaches_ok and not to_header:
                cls = 'end'
            else:
                cls = 'mixed'
            for v in vs:
                nstat += 1
                want = table.get(v)
                ok = want is not None and cls in want
                extra = ''
                if cls == 'grow':
                    # growth must be real: new length derives from the old length with arithmetic (x2)
                    g = origin(enc, enc.term(resizes[0])['args'][1])
                    # strictly larger: old_len * k (k >= 2) or old_len + c (c >= 1); nothing else may take part
                    ar = {x for x in g.flags if x.startswith('arith:')}
                    cs = {x for x in g.consts() if isinstance(x, int)}
                    mul = bool(ar) and ar <= {'arith:MulWithOverflow', 'arith:Mul'} and bool(cs) and min(cs) >= 2
                    add = bool(ar) and ar <= {'arith:AddWithOverflow', 'arith:Add'} and bool(cs) and min(cs) >= 1
                    only_len = 'len' in g.flags and 'output_vec' in g.fields and g.params() <= {1} and not g.call_names()
                    real = (mul or add) and only_len
                    ok = ok and real
                    extra = '; the buffer strictly grows (old length x constant >= 2, or + constant >= 1, nothing else): %s' % real
                    if mul and real:
                        # ... and doubling grows only what is not empty: on entry of the loop the buffer has been given
                        # a positive length wherever it was empty (`if is_empty() { resize(K > 0) }`, or unconditionally)
                        def pos_resize(x):
                            t_ = enc.term(x)
                            if not (t_['k'] == 'call' and call_matches(t_, ['Vec::<T, A>::resize']) and 'output_vec' in origin(enc, t_['args'][0]).fields):
                                return False
                            n_ = origin(enc, t_['args'][1])      # a positive constant, possibly spelled as a product / sum of constants
                            cs_ = [c_ for c_ in n_.consts() if isinstance(c_, int) and not isinstance(c_, bool)]
                            return bool(cs_) and min(cs_) > 0 and not n_.params() and not n_.fields and not n_.call_names() and \
                                {x_ for x_ in n_.flags if x_.startswith('arith:')} <= {'arith:Mul', 'arith:MulWithOverflow', 'arith:Add', 'arith:AddWithOverflow'}
                        seeds = [x for x in enc.live_blocks() if x not in blk and pos_resize(x)]
                        nonempty = any(enc.dominates(x, h) for x in seeds)
                        if not nonempty:
                            for x in sorted(enc.live_blocks()):
                                if x in blk or enc.term(x)['k'] != 'switch' or not enc.dominates(x, h):
                                    continue
                                so_ = origin(enc, enc.switch_info(x)['op'])
                                if any(strip_generics(cname(c)).endswith('Vec::is_empty') and 'output_vec' in origin(enc, c['args'][0]).fields for c in so_.calls) \
                                        and 'not' not in so_.flags:
                                    nonempty = nonempty or must_pass(enc, enc.term(x)['otherwise'], [h], seeds)
                                # (`if self.output_vec.len() == 0 { resize(K) }`)
                                cd_ = switch_condition(enc, enc.switch_info(x))
                                if cd_[0] == 'cmp' and cd_[1] == 'Eq':
                                    l_, r_ = origin(enc, cd_[2]), origin(enc, cd_[3])
                                    if ('len' in l_.flags and 'output_vec' in l_.fields and r_.consts() == {0} and not r_.params()) or \
                                            ('len' in r_.flags and 'output_vec' in r_.fields and l_.consts() == {0} and not l_.params()):
                                        nonempty = nonempty or must_pass(enc, enc.term(x)['otherwise'], [h], seeds)
                        ok = ok and nonempty
                        extra += '; the buffer is not empty when the loop starts (positive resize wherever is_empty()): %s' % nonempty
                if cls == 'end':
                    # records total_out (bzip2/xz store len; deflate slices by compress.total_out() later)
                    rec = any(enc.term(x)['k'] == 'call' and cname(enc.term(x)).endswith('::total_out') for x in inside) or adt.startswith('flate2')
                    ok = ok and rec
                    extra = '; records total_out: %s' % rec
                ctx.ob('CODEC', '%s/%s' % (feat, v), ok, short_loc(si.get('span')),
                       'status %s::%s is handled as `%s` (protocol allows %s)%s' % (adt.rsplit('::', 2)[0], v, cls, sorted(want) if want else 'unknown status', extra))
        missing = set(table) - set(si['variants'])
        ctx.ob('CODEC', '%s/all-statuses' % feat, not missing, short_loc(si.get('span')), 'statuses without an explicit arm: %s' % sorted(missing), nontrivial=False)
    ctx.floor('CODEC', 'status arms examined', nstat, sum(len(PROTOCOL[a]) for a in PROTOCOL if ctx.has_feature(FEATURE_OF[a])))

    oneshot(ctx, enc)
    sliceout(ctx)
    tables(ctx, enc)
    level(ctx)
    consumed(ctx)
    from .c11 import take_rule
    take_rule(ctx)
    # what was written is read back value for value only if the reading primitives hand over exactly the bytes of each
    # value, whichever way the (decompressed) block reaches them (shared with C03 / C06 / C11)
    from . import c11 as c11_
    c11_.slice_rule(ctx)
    c11_.varint_rule(ctx)
    c11_.fixedbuf_rule(ctx)
    # a value counts in its block however it was handed over, and only when it was taken (shared with C15)
    from .c15 import failed_rule
    failed_rule(ctx)
    reset(ctx, enc)
    # block / flush bookkeeping of the writer (shared with C15): a block is emitted iff it holds elements, its
    # count and buffer are reset only after success, every append happens after the pending block was flushed
    from .c15 import typestate, mustcall
    typestate(ctx)
    mustcall(ctx)


KIND = P + 'writer::compression::Kind'


def kind_regions(b):
    return {list(r.variants)[0]: r for r in enum_regions(b, KIND) if len(r.variants) == 1}


def oneshot(ctx, enc):
    regs = kind_regions(enc)
    if ctx.has_feature('snappy'):
        r = regs.get('Snappy')
        ok = False
        det = 'Snappy arm not found'
        if r:
            calls = [(bb, enc.term(bb)) for bb in sorted(r.blocks) if enc.term(bb)['k'] == 'call']
            mc = [x for x in calls if cname(x[1]).endswith('max_compress_len')]
            rs = [x for x in calls if call_matches(x[1], ['Vec::<T, A>::resize'])]
            cp = [x for x in calls if cname(x[1]).endswith('Encoder::compress')]
            tr = [x for x in calls if call_matches(x[1], ['Vec::<T, A>::truncate'])]
            ex = [x for x in calls if cname(x[1]).endswith('Extend<T>>::extend') or cname(x[1]).endswith('::extend_from_slice')]
            ok = all(len(z) == 1 for z in (mc, rs, cp, tr, ex))
            if ok:
                sized = any(c is mc[0][1] for c in origin(enc, rs[0][1]['args'][1]).calls) and origin(enc, mc[0][1]['args'][0]).params() == {2}
                trunc = any(c is cp[0][1] for c in origin(enc, tr[0][1]['args'][1]).calls) and 'try' in origin(enc, tr[0][1]['args'][1]).flags
                order = enc.dominates(rs[0][0], cp[0][0]) and enc.dominates(cp[0][0], tr[0][0]) and enc.dominates(tr[0][0], ex[0][0])
                ok = sized and trunc and order
                det = 'resize(max_compress_len(input.len())): %s; truncate(n returned by compress): %s; order resize<compress<truncate<crc: %s' % (sized, trunc, order)
        ctx.ob('ONESHOT', 'snappy', ok, short_loc(enc.span), det)
    if ctx.has_feature('zstandard'):
        r = regs.get('Zstandard')
        ok = False
        det = 'Zstandard arm not found'
        if r:
            calls = [(bb, enc.term(bb)) for bb in sorted(r.blocks) if enc.term(bb)['k'] == 'call']
            cl = [x for x in calls if call_matches(x[1], ['Vec::<T, A>::clear'])]
            rv = [x for x in calls if call_matches(x[1], ['Vec::<T, A>::reserve'])]
            cb = [x for x in calls if cname(x[1]).endswith('compress_bound')]
            cp = [x for x in calls if cname(x[1]).endswith('compress_to_buffer')]
            ok = all(len(z) == 1 for z in (cl, rv, cb, cp))
            if ok:
                bound = any(c is cb[0][1] for c in origin(enc, rv[0][1]['args'][1]).calls) and origin(enc, cb[0][1]['args'][0]).params() == {2}
                order = enc.dominates(cl[0][0], rv[0][0]) and enc.dominates(rv[0][0], cp[0][0])
                te = try_edges(enc, cp[0][0])
                ok = bound and order and te is not None and te[1] is not None and all_paths_err(enc, te[1])
                det = 'clear, reserve(compress_bound(input.len())): %s, then compress_to_buffer with its error propagated: %s' % (bound, ok)
        ctx.ob('ONESHOT', 'zstandard', ok, short_loc(enc.span), det)


def sliceout(ctx):
    f = ctx.f
    b = fn_by_label(f, P + 'writer::compression::CompressionCodecState::compressed_buffer')
    if b is None:
        ctx.ob('SLICEOUT', 'anchor', False, None, 'compressed_buffer not found')
        return
    ctx.touched(b)
    want = {'Deflate': 'total_out', 'Bzip2': 'len', 'Xz': 'len', 'Snappy': 'whole', 'Zstandard': 'whole', 'Null': 'none'}
    feats = {'Deflate': 'deflate', 'Bzip2': 'bzip2', 'Xz': 'xz', 'Snappy': 'snappy', 'Zstandard': 'zstandard'}
    regs = kind_regions(b)
    for k, w in want.items():
        if k in feats and not ctx.has_feature(feats[k]):
            continue
        r = regs.get(k)
        if r is None:
            ctx.ob('SLICEOUT', k, False, short_loc(b.span), 'no arm for Kind::%s in compressed_buffer' % k)
            continue
        got = None

        def what(o):
            idx = [c for c in o.calls if call_matches(c, ['Index::index', 'Index<I>>::index', 'index::Index<I>>::index'])]
            if 'output_vec' not in o.fields:
                # (the caller's own uncompressed block handed back: the `None` of the Option form)
                return 'none' if o.params() == {2} and not o.call_names() and not o.has_arith() else 'not output_vec'
            if not idx:
                return 'whole'
            ro = origin(b, idx[0]['args'][1])
            rt = any(a[0] == 'agg' and a[1].endswith('RangeTo') for a in ro.atoms)
            if rt and any(cname(c).endswith('::total_out') for c in ro.calls) and not ro.has_arith():
                return 'total_out'
            if rt and 'len' in ro.fields and not ro.has_arith() and not ro.call_names():
                return 'len'
            return 'other slice (%s)' % ro.describe()[:80]
        returns_option = 'Option<' in (b.local_ty(0) or '')
        # the match's value may go through a temporary: `_3 = <arm value>` in each arm, `_0 = &*_3` after the join
        res_locals = {0}
        grew = True
        while grew:
            grew = False
            for bb_ in b.live_blocks():
                for s_ in b.stmts(bb_):
                    if 'assign' in s_ and s_['assign'].get('l') in res_locals and not s_['assign'].get('p'):
                        rv_ = s_['rv']
                        pl_ = op_place(rv_['op']) if rv_['k'] == 'use' else (rv_.get('place') if rv_['k'] in ('ref', 'rawptr') else None)
                        if pl_ is not None and all(e == '*' for e in pl_.get('p', [])) and pl_['l'] not in res_locals and pl_['l'] > b.nargs:
                            res_locals.add(pl_['l'])
                            grew = True
        for bb in sorted(r.blocks):
            for s in b.stmts(bb):
                if returns_option and 'assign' in s and s['rv']['k'] == 'agg' and s['rv'].get('adt') == 'core::option::Option':
                    if s['rv']['variant'] == 'None':
                        got = 'none'
                    else:
                        got = what(origin(b, s['rv']['ops'][0]))
                        if got == 'none':
                            got = 'not output_vec'
                elif not returns_option and 'assign' in s and s['assign'].get('l') in res_locals and not s['assign'].get('p'):
                    # `fn compressed_buffer<'a>(&'a self, uncompressed: &'a [u8]) -> &'a [u8]`: the arm's value is the result
                    rv = s['rv']
                    got = what(origin(b, rv['op'] if rv['k'] == 'use' else (rv.get('place') if rv['k'] in ('ref', 'rawptr') else s['assign'])))
        ctx.ob('SLICEOUT', k, got == w, short_loc(b.span), 'compressed_buffer for %s returns %s (expected %s)' % (k, got, w))


def tables(ctx, enc):
    f = ctx.f
    CODECS = ['Null'] + [c for c, ft in (('Deflate', 'deflate'), ('Bzip2', 'bzip2'), ('Snappy', 'snappy'), ('Xz', 'xz'), ('Zstandard', 'zstandard')) if ctx.has_feature(ft)]
    b = fn_by_label(f, P + 'Compression::codec')
    if b is None:
        ctx.ob('TABLES', 'codec()', False, None, 'Compression::codec not found')
    else:
        ctx.touched(b)
        seen = {}
        for r in enum_regions(b, P + 'Compression'):
            got = set()
            for bb in r.blocks:
                for s in b.stmts(bb):
                    if 'assign' in s and s['rv']['k'] == 'agg' and s['rv'].get('adt') == P + 'CompressionCodec':
                        got.add(s['rv']['variant'])
            for v in r.variants:
                seen[v] = got
        for c in CODECS:
            ctx.ob('TABLES', 'codec()/%s' % c, seen.get(c) == {c}, short_loc(b.span), 'Compression::%s maps to CompressionCodec::%s' % (c, sorted(seen.get(c, []))))
    nb = fn_by_label(f, P + 'writer::compression::CompressionCodecState::new')
    if nb is not None:
        ctx.touched(nb)
        seen = {}
        for r in enum_regions(nb, P + 'Compression'):
            got = set()
            for bb in r.blocks:
                for s in nb.stmts(bb):
                    if 'assign' in s and s['rv']['k'] == 'agg' and s['rv'].get('adt') == KIND:
                        got.add(s['rv']['variant'])
            for v in r.variants:
                seen[v] = got
        for c in CODECS:
            ctx.ob('TABLES', 'new()/%s' % c, seen.get(c) == {c}, short_loc(nb.span), 'Compression::%s builds encoder state Kind::%s' % (c, sorted(seen.get(c, []))))
    else:
        ctx.ob('TABLES', 'new()', False, None, 'CompressionCodecState::new not found')
    # every codec has an encoder arm
    ek = kind_regions(enc)
    for c in CODECS:
        ctx.ob('TABLES', 'encode/%s' % c, c in ek, short_loc(enc.span), 'encode has an arm for Kind::%s' % c, nontrivial=False)
    st = fn_by_label(f, P + 'reader::decompression::state')
    if st is None:
        ctx.ob('TABLES', 'state()', False, None, 'CompressionCodec::state not found')
    else:
        ctx.touched(st)
        DS = P + 'reader::decompression::DecompressionState'
        RD = P + 'reader::decompression::DecompressionReaderForBufReader'
        seen = {}
        for r in enum_regions(st, P + 'CompressionCodec'):
            got = set()
            for bb in r.blocks:
                for s in st.stmts(bb):
                    if 'assign' in s and s['rv']['k'] == 'agg' and s['rv'].get('adt') in (DS, RD):
                        got.add(s['rv']['variant'])
            for v in r.variants:
                seen[v] = got
        want = {'Null': {'Null'}, 'Deflate': {'BufReader', 'Deflate'}, 'Bzip2': {'BufReader', 'Bzip2'}, 'Xz': {'BufReader', 'Xz'},
                'Zstandard': {'BufReader', 'Zstandard'}, 'Snappy': {'DecompressedOnConstruction'}}
        for c in CODECS:
            ctx.ob('TABLES', 'state()/%s' % c, seen.get(c) == want[c], short_loc(st.span), 'decoder for %s builds %s' % (c, sorted(seen.get(c, []))))


def level(ctx):
    f = ctx.f
    nb = fn_by_label(f, P + 'writer::compression::CompressionCodecState::new')
    if nb is None:
        return
    want = {'Deflate': 9, 'Bzip2': 9, 'Xz': 9, 'Zstandard': None}
    feats = {'Deflate': 'deflate', 'Bzip2': 'bzip2', 'Xz': 'xz', 'Zstandard': 'zstandard'}
    for r in enum_regions(nb, P + 'Compression'):
        for v in r.variants:
            if v not in want or not ctx.has_feature(feats[v]):
                continue
            clips = [(bb, nb.term(bb)) for bb in sorted(r.blocks) if nb.term(bb)['k'] == 'call' and cname(nb.term(bb)).endswith('CompressionLevel::clip')]
            ok = len(clips) == 1
            det = '%d clip call(s)' % len(clips)
            if ok:
                mx = origin(nb, clips[0][1]['args'][1])
                lv = origin(nb, clips[0][1]['args'][0])
                if want[v] is not None:
                    ok = mx.consts() == {want[v]} and not mx.params()
                else:
                    names = deep_call_names(nb, clips[0][1]['args'][1])
                    ok = any('compression_level_range' in n_ for n_ in names) and not mx.params()
                # the clipped value is what reaches the state / constructor; the raw level does not
                used_raw = False
                for bb in sorted(r.blocks):
                    for s in nb.stmts(bb):
                        if 'assign' in s and s['rv']['k'] == 'agg' and s['rv'].get('adt') == KIND and 'level' in s['rv'].get('fields', []):
                            o = origin(nb, s['rv']['ops'][s['rv']['fields'].index('level')])
                            if not any(c is clips[0][1] for c in o.calls):
                                used_raw = True
                    t = nb.term(bb)
                    if t['k'] == 'call' and cname(t).endswith('CompressionLevel::instantiate'):
                        o = origin(nb, t['args'][0])
                        if not any(c is clips[0][1] for c in o.calls):
                            used_raw = True
                ok = ok and not used_raw and 'level' in lv.fields
                det = 'level.clip(%s) is what is stored / instantiated: %s' % (sorted(mx.consts()) or 'zstd range end', ok)
            ctx.ob('LEVEL', v, ok, short_loc(nb.span), det)
    cl = fn_by_label(f, P + 'CompressionLevel::clip')
    if cl is not None:
        ctx.touched(cl)
        mn = [(bb, t) for bb, t in cl.calls() if cname(t).endswith('Ord::min') or cname(t).endswith('::min')]
        ctx.ob('LEVEL', 'clip/min', len(mn) >= 1, short_loc(cl.span), 'clip takes the minimum with the bound: %d min call(s)' % len(mn))


def consumed(ctx):
    f = ctx.f
    b = fn_by_label(f, P + 'reader::decompression::DecompressionState::into_source_reader_and_config')
    if b is None:
        ctx.ob('CONSUMED', 'anchor', False, None, 'into_source_reader_and_config not found')
        return
    ctx.touched(b)
    DS = P + 'reader::decompression::DecompressionState'
    for r in enum_regions(b, DS):
        for v in r.variants:
            if v == 'DecompressedOnConstruction':
                # snappy: the COMPRESSED block was read (and size-checked) at construction - but whether the objects read
                # out of the decompressed buffer used all of it is only known here: a block that announces fewer objects
                # than it holds must be an error like under every other codec (this arm used to be waved through: F35)
                pos = [(bb, b.term(bb)) for bb in sorted(r.blocks) if b.term(bb)['k'] == 'call' and not b.is_cleanup(bb) and strip_generics(cname(b.term(bb))).endswith('Cursor::position')]
                okc = False
                for bb in sorted(r.blocks):
                    if b.term(bb)['k'] != 'switch' or b.is_cleanup(bb):
                        continue
                    si = b.switch_info(bb)
                    if si.get('kind') == 'enum':
                        continue
                    cond = switch_condition(b, si)
                    while cond[0] == 'not':
                        cond = cond[1]
                    if cond[0] != 'cmp':
                        continue
                    lo, ro = origin(b, cond[2]), origin(b, cond[3])
                    if any(c is t for c in lo.calls + ro.calls for _, t in pos) and ('len' in lo.flags or 'len' in ro.flags):
                        errs = [s_ for s_ in b.succs(bb) if all_paths_err(b, s_)]
                        goes = [s_ for s_ in b.succs(bb) if not all_paths_err(b, s_)]
                        # ... and it is the *equal* outcome that goes on (a position short of - or, if it could be,
                        # beyond - the length is the error)
                        eq_goes = len(goes) == 1 and any(g_['switch_bb'] == bb and g_['op'] == 'Eq' for g_ in cmp_guards(b, goes[0]))
                        okc = okc or (len(errs) == 1 and eq_goes)
                ctx.ob('CONSUMED', v, bool(pos) and okc, short_loc(b.span),
                       'snappy: the position reached in the decompressed buffer is compared with its length and a difference returns Err: %s' % (bool(pos) and okc))
                continue
            la = [(bb, b.term(bb)) for bb in sorted(r.blocks) if b.term(bb)['k'] == 'call' and (b.term(bb).get('callee') or '').endswith('IntoLeftAfterTake::into_left_after_take')]
            ok = len(la) == 1
            if ok:
                te = try_edges(b, la[0][0])
                oks = [x for x in ok_return_blocks(b) if x in b.reachable_from(r.entry)]
                ok = te is not None and te[1] is not None and all_paths_err(b, te[1]) and bool(oks) and all(must_pass(b, r.entry, [x], [la[0][0]]) for x in oks)
            ctx.ob('CONSUMED', v, ok, short_loc(b.span), 'every Ok exit of the %s arm passes into_left_after_take()? : %s' % (v, ok))
    # Every streaming decoder must be driven to its end before the leftover check: a decoder that was
    # never (or not fully) pulled leaves compressed bytes in the block (zero-byte blocks under deflate/
    # bzip2/xz: F10; zstd's end-of-frame: zstd-rs#255).  Accepted shapes: one 1-byte `Read::read`
    # whose non-zero result goes to Err on every path, which either dominates the per-decoder
    # `into_inner` switch (covers all decoders) or sits inside that decoder's own arm.
    RD = P + 'reader::decompression::DecompressionReaderForBufReader'
    STREAMING = [(v, ft) for v, ft in (('Deflate', 'deflate'), ('Bzip2', 'bzip2'), ('Xz', 'xz'), ('Zstandard', 'zstandard')) if ctx.has_feature(ft)]

    def drive_reads(blocks):
        out = []
        for bb in sorted(blocks):
            t = b.term(bb)
            if t['k'] != 'call' or (t.get('callee') or '') != 'std::io::Read::read':
                continue
            te = try_edges(b, bb)
            if te is None or te[1] is None or not all_paths_err(b, te[1]):
                continue
            # the probe goes through the buffered layer the objects were decoded from: decompressed bytes that layer
            # already pulled into its buffer are data left in the block too (asking the decompressor underneath skips them)
            rty = (t.get('arg_tys') or [''])[0].lstrip('&').replace('mut ', '', 1).strip()
            if not re.match(r'(std::io::(buffered::bufreader::)?)?BufReader<', rty):
                continue
            # the buffer read into holds at least one byte (a read into an empty buffer returns 0 whatever is left)
            bo = origin(b, t['args'][1])
            sizes = [int(m) for fl_ in bo.flags if fl_.startswith('coerce:') for m in re.findall(r'\[u8; (\d+)\]->', fl_)]
            if not sizes or min(sizes) < 1:
                continue
            good = False
            for sbb in b.reachable_from(bb):
                if b.term(sbb)['k'] != 'switch' or not b.dominates(bb, sbb):
                    continue
                cond = switch_condition(b, b.switch_info(sbb))
                if cond[0] == 'cmp' and cond[1] in ('Ne', 'Eq'):
                    lo, ro = origin(b, cond[2]), origin(b, cond[3])
                    if any(c is t for c in lo.calls) and ro.consts() == {0}:
                        t0 = [x['bb'] for x in b.term(sbb)['targets'] if x['v'] == 0][0]
                        ne_edge = b.term(sbb)['otherwise'] if cond[1] == 'Ne' else t0
                        eq_edge = t0 if cond[1] == 'Ne' else b.term(sbb)['otherwise']
                        if all_paths_err(b, ne_edge) and not all_paths_err(b, eq_edge):
                            good = True
            if good:
                out.append(bb)
        return out

    if STREAMING:
        rd_regions = enum_regions(b, RD)
        ds_buf = [r for r in enum_regions(b, DS) if 'BufReader' in r.variants]
        arm_blocks = set().union(*[r.blocks for r in ds_buf]) if ds_buf else set()
        in_variant = set().union(*[r.blocks for r in rd_regions]) if rd_regions else set()
        common = [bb for bb in drive_reads(arm_blocks - in_variant)]
        for v, ft in STREAMING:
            regs = [r for r in rd_regions if v in r.variants]
            ok = bool(regs)
            for r in regs:
                own = drive_reads(r.blocks)
                dom = [bb for bb in common if b.dominates(bb, r.entry)]
                if not own and not dom:
                    ok = False
            if not regs and len(STREAMING) == 1:
                # a single streaming codec is compiled in: the decoder enum has one variant and is destructured without a
                # switch; the drive read then has to dominate the leftover check of the BufReader arm itself
                las = [bb for bb in arm_blocks if b.term(bb)['k'] == 'call' and (b.term(bb).get('callee') or '').endswith('IntoLeftAfterTake::into_left_after_take')]
                ok = bool(las) and bool(common) and all(any(b.dominates(c_, l_) for c_ in common) for l_ in las)
            ctx.ob('CONSUMED', 'drive-to-end/' + v, ok, short_loc(b.span),
                   '%s decoder is driven to its end with a 1-byte read (non-zero => Err, error => Err) before into_inner/finish: %s' % (v, ok))
        ctx.floor('CONSUMED', 'drive-to-end', len(STREAMING), 1)


def reset(ctx, enc):
    regs = kind_regions(enc)
    if ctx.has_feature('deflate') and 'Deflate' in regs:
        r = regs['Deflate']
        rs = [bb for bb in r.blocks if enc.term(bb)['k'] == 'call' and cname(enc.term(bb)).endswith('flate2::mem::Compress::reset')]
        cp = [bb for bb in r.blocks if enc.term(bb)['k'] == 'call' and cname(enc.term(bb)) == 'flate2::mem::Compress::compress']
        ok = len(rs) == 1 and len(cp) == 1 and enc.dominates(rs[0], cp[0])
        ctx.ob('RESET', 'deflate', ok, short_loc(enc.span), 'compress.reset() dominates the deflate loop: %s' % ok)
    for k, ft, ctor in (('Bzip2', 'bzip2', 'bzip2::mem::Compress::new'), ('Xz', 'xz', 'xz2::stream::Stream::new_easy_encoder')):
        if ctx.has_feature(ft) and k in regs:
            r = regs[k]
            cs = [bb for bb in r.blocks if enc.term(bb)['k'] == 'call' and cname(enc.term(bb)) == ctor]
            cp = [bb for bb in r.blocks if enc.term(bb)['k'] == 'call' and cname(enc.term(bb)) in COMPRESS_CALL.values()]
            ok = len(cs) == 1 and len(cp) == 1 and enc.dominates(cs[0], cp[0])
            ctx.ob('RESET', ft, ok, short_loc(enc.span), 'a fresh %s encoder is built for every block: %s' % (ft, ok))
