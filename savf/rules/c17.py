"""C17 - container reader on damaged files (structural part).

  TYPESTATE  before any fallible step of a transition the state is replaced by Broken; reader_state is assigned
             InBlock / NotInBlock only after the last fallible call of that transition; Broken returns Err
  ENDBLOCK   from InBlock{0} back to NotInBlock: block fully consumed, 16-byte read, comparison with the header's
             sync marker whose mismatch edge returns Err - all before the state is re-armed
  CHECKED    object counts and byte sizes from the file go through checked conversions; snappy: checked_sub(4),
             decompressed-length equality and CRC comparison before the state is built (see also C06/SNAPPY)
  ERRONCE    the "pretend EOF" flag is tested first on entry and set on every Err that is an I/O error or leaves
             the state Broken
  LOOP       every cycle of deserialize_next_inner contains a read from the source
  PANIC      reviewed inventory of panic-capable constructs on the reader path
  CONSUMED   (shared with C05) also the snappy arm: the decompressed buffer is read entirely or Err   (found F35)
  IOERR      ... end of a slice is an io UnexpectedEof like end of a reader (the report-once latch keys on it) (found F36)
  shared     the whole inventory of C04 (panic-capable sites, loops, depth, allocation on the datum decode path): the bytes
             of a damaged block reach the datum decoder
It does NOT decide "yields only genuine values" for every truncation/corruption, nor decompressor resource use.
"""
from ..lib import *
from ..inventory import natural_loops, panic_sites, ReviewedMatcher
from ..dematrix import classify_de
from ..core import short_loc, op_place, const_int
from .c03 import fn_by_label
from .c04 import auto_accept

EXPLANATION = ("Reader on damaged files, structural part: Broken-while-in-flight typestate; sync / fully-consumed / CRC "
               "comparisons dominate re-entry to NotInBlock; error-once flag; loop progress; closed panic inventory on the "
               "reader path. 'Genuine prefix only' for every damaged file is not decided.")

P = 'object_container_file_encoding::reader::'
RS = P + 'ReaderState'

PANIC_REVIEWED = {
    (P + 'Reader::deserialize_next_inner', 'panic'): (2, 'unreachable!() after mem::replace whose scrutinee variant was just matched'),
    (P + 'Reader::deserialize_next_inner', 'diverges'): (2, 'same'),
}


PANIC_REVIEWED = {(short_fn(k[0]), k[1]): v for k, v in PANIC_REVIEWED.items()}


def state_regions(nx):
    """arms of the `match &mut self.reader_state` (not of the mem::replace results)"""
    def flt(place):
        o = origin(nx, place)
        return 'reader_state' in o.fields and o.params() == {1} and not o.call_names()
    return enum_regions(nx, RS, place_filter=flt)


def run(ctx):
    run_reader(ctx)
    # "arbitrary corruption never causes a panic or endless loop": the bytes of a damaged block reach the datum decoder,
    # whose panic / loop / depth / allocation inventory is C04's (shared here; keys C17/PANIC/<decode-path function>/..)
    from . import c04
    pm = getattr(ctx, 'panic_matcher', None)
    c04.run(ctx)
    if pm is not None:
        ctx.panic_matcher = pm


def run_reader(ctx):
    f = ctx.f
    nx = fn_by_label(f, P + 'Reader::deserialize_next_inner')
    if nx is None:
        ctx.ob('TYPESTATE', 'anchor', False, None, 'Reader::deserialize_next_inner not found')
        return
    ctx.touched(nx, len(nx.calls()))
    # assignments of reader_state
    assigns = []
    for bb in sorted(nx.live_blocks()):
        if nx.is_cleanup(bb):
            continue
        for s in nx.stmts(bb):
            if 'assign' in s and s['assign'].get('p') and any(isinstance(e, dict) and e.get('f') == 'reader_state' for e in s['assign']['p']) and \
                    not any(isinstance(e, dict) and 'as' in e for e in s['assign']['p']):
                assigns.append((bb, s))
    repl = [(bb, t) for bb, t in nx.calls() if cname(t).endswith('mem::replace') and 'reader_state' in origin(nx, t['args'][0]).fields]
    brk = 0
    for bb, t in repl:
        o = origin(nx, t['args'][1])
        if {a[2] for a in o.atoms if a[0] == 'agg' and a[1] == RS} == {'Broken'}:
            brk += 1
    ctx.ob('TYPESTATE', 'replace-with-Broken', len(repl) == 2 and brk == 2, short_loc(nx.span),
           '%d mem::replace(&mut self.reader_state, ..) call(s), %d of them with Broken' % (len(repl), brk))
    # (a `?` applied to the result of an inlined helper on its Ok-returning path cannot fail: see core._thread_result_returns)
    tries = [(bb, t) for bb, t in nx.calls() if call_matches(t, ['Try>::branch', 'Try::branch']) and t.get('threaded') != 'Ok']
    n = 0
    for bb, s in assigns:
        rv = s['rv']
        var = None
        if rv['k'] == 'agg' and rv.get('adt') == RS:
            var = rv['variant']
        else:
            o = origin(nx, rv.get('op') or s['assign'])
            vs = {a[2] for a in o.atoms if a[0] == 'agg' and a[1] == RS}
            var = ','.join(sorted(vs)) or '?'
        n += 1
        # (a) a replace-with-Broken dominates it; (b) every `?` of the same arm region dominates it (nothing fallible after it in that transition)
        dom_rep = [r for r in repl if nx.dominates(r[0], bb)]
        arm = None
        for r in state_regions(nx):
            if bb in r.blocks:
                arm = r
        later = []
        if arm is not None:
            for tbb, tt in tries:
                if tbb in arm.blocks and not nx.dominates(tbb, bb) and tbb in nx.reachable_from(bb, avoid=[h for h in natural_loops(nx)]):
                    later.append(tbb)
        # (c) the state is never re-armed on a path that can only end in Err (a framing error must leave it Broken)
        on_err_path = all_paths_err(nx, bb, avoid=[h for h in natural_loops(nx)])
        ok = bool(dom_rep) and not later and not on_err_path
        ctx.ob('TYPESTATE', 'assign/%s#%d' % (var, sum(1 for b2, s2 in assigns if b2 < bb)), ok, short_loc(s.get('span')),
               'reader_state = %s: after mem::replace(.., Broken): %s; fallible steps still ahead in this transition: %d; on a path that only returns Err: %s' % (var, bool(dom_rep), len(later), on_err_path))
    ctx.floor('TYPESTATE', 'state re-arm assignments', n, 2)
    # fallible calls between a replace and the re-arm: all `?` => while they run the state is Broken
    for r in state_regions(nx):
        if r.variants == frozenset(['Broken']):
            ctx.ob('TYPESTATE', 'Broken-errs', all_paths_err(nx, r.entry), short_loc(nx.span), 'the Broken arm returns Err on every path')
    # the first fallible read of NotInBlock (fill_buf for EOF detection) happens before the replace: it must not consume
    for r in state_regions(nx):
        if r.variants == frozenset(['NotInBlock']):
            pre = [(bb, nx.term(bb)) for bb in sorted(r.blocks) if nx.term(bb)['k'] == 'call' and not any(nx.dominates(x[0], bb) for x in repl)
                   and (classify_de(nx, bb, nx.term(bb)) or (nx.term(bb).get('callee') or '').startswith('std::io::'))]
            names = sorted({(t.get('callee') or '').rsplit('::', 1)[1] for bb, t in pre})
            ctx.ob('TYPESTATE', 'NotInBlock/pre-replace-io', set(names) <= {'fill_buf'}, short_loc(nx.span),
                   'I/O before the state is parked as Broken: %s (only a non-consuming fill_buf is allowed)' % names)
            # EOF => Ok(None) only when the buffer is empty
            eofs = []
            for okb in sorted(r.blocks):
                for s in nx.stmts(okb):
                    if 'assign' in s and s['rv']['k'] == 'agg' and s['rv'].get('adt') == 'core::result::Result' and s['rv'].get('variant') == 'Ok':
                        o = origin(nx, s['rv']['ops'][0])
                        if {a[2] for a in o.atoms if a[0] == 'agg'} == {'None'} and not o.call_names():
                            eofs.append(okb)
            ok = bool(eofs)
            for e in eofs:
                good = False
                for d, si, taken in dominating_switches(nx, e):
                    if si.get('kind') != 'enum':
                        so = origin(nx, si['op'])
                        if any((c.get('callee') or '').endswith('BufRead::fill_buf') for c in so.calls) and taken[0] == 'not':
                            good = True
                ok = ok and good
            ctx.ob('TYPESTATE', 'NotInBlock/eof-only-when-empty', ok, short_loc(nx.span), 'Ok(None) between blocks only when fill_buf() returned an empty buffer: %s' % ok)

    endblock(ctx, nx, repl)
    # "block fully consumed" itself: left-after-take errs unless nothing is left, for both input kinds (shared with C11)
    from .c11 import take_rule
    take_rule(ctx)
    checked(ctx, nx)
    # snappy: the CRC of the decompressed data is compared with the 4 bytes that follow, mismatch => Err (shared with C06)
    from .c06 import snappy as snappy_rule
    snappy_rule(ctx)
    errprop(ctx)
    ioerr_rule(ctx)
    # a block whose object count disagrees with its contents is an error under every codec: what is left of the block (or
    # of its decompressed form) after the announced objects were read is checked (shared with C05)
    from .c05 import consumed
    consumed(ctx)
    eof_is_io_rule(ctx)

    # the reading primitives hand over exactly the bytes asked for or fail (shared with C03 / C11): a short read must
    # not become a shorter value
    from .c11 import slice_rule, varint_rule, fixedbuf_rule, shortread_rule
    slice_rule(ctx)
    varint_rule(ctx)
    fixedbuf_rule(ctx)
    shortread_rule(ctx)
    erronce(ctx)
    loops(ctx, nx)
    panics(ctx)



def eof_is_io_rule(ctx):
    """Running out of bytes is the same thing for a slice as for a reader: the error says so the same way (it carries an
    io::ErrorKind::UnexpectedEof).  The container reader latches "report once, then end of stream" on exactly that; an
    end-of-slice error without it is repeated once per object the block header claims (a corruptible 63-bit number)."""
    f = ctx.f
    from .c03 import fn_by_label
    b = fn_by_label(f, 'de::error::DeError::unexpected_eof')
    if b is None:
        # no dedicated constructor: nothing to judge here (the conversion sites are judged by IOERR)
        ctx.ob('IOERR', 'slice-eof-is-an-io-error', True, None, 'no DeError::unexpected_eof constructor', nontrivial=False)
        return
    ctx.touched(b)
    io_ = any(strip_generics(cname(t)).endswith(('DeError::custom_io', 'DeError::io')) for bb, t in b.calls() if not b.is_cleanup(bb))
    kind = any('UnexpectedEof' in str(a[2]) for bb, t in b.calls() for x in t.get('args', []) for a in origin(b, x).atoms if a[0] == 'agg' and len(a) > 2) or \
        any(s_['rv'].get('variant') == 'UnexpectedEof' for bb in b.live_blocks() for s_ in b.stmts(bb) if 'assign' in s_ and s_['rv'].get('k') == 'agg')
    # ... and the slice reader originates its errors through it (or through the io constructors) only: a plain message
    # error there is an end of input the container reader cannot recognise
    plain = []
    for x in f.body_list:
        fl = fn_label(x)
        if fl.startswith(('<de::read::SliceRead as de::read::Read>::', '<de::read::SliceRead as de::read::ReadSlice>::', '<de::read::take::SliceReadTake as de::read::Read>::', '<de::read::take::SliceReadTake as de::read::ReadSlice>::')):
            for bb, t in x.calls():
                if not x.is_cleanup(bb) and strip_generics(cname(t)).endswith('DeError::new'):
                    plain.append('%s at %s' % (short_fn(fl), short_loc(t.get('span'))))
    # the provided `Read::skip_bytes` (used by every reader that does not override it: a skip that comes up short is the end of
    # the input) and the header check of the single-object slice entry point (fewer than 10 bytes) are ends of input too
    # ... and so is a block that is longer than what is left of the slice (SliceRead::take)
    for lab in ('de::read::Read::skip_bytes', 'single_object_encoding::from_single_object_slice', '<de::read::SliceRead as de::read::take::Take>::take'):
        for x in f.body_list:
            if fn_label(x).split('::{closure')[0] == lab:
                for bb, t in x.calls():
                    if not x.is_cleanup(bb) and strip_generics(cname(t)).endswith(('DeError::new', 'DeError::custom', 'de::Error>::custom', 'de::Error::custom')):
                        plain.append('%s at %s' % (short_fn(fn_label(x)), short_loc(t.get('span'))))
    ctx.ob('IOERR', 'slice-eof-is-an-io-error', io_ and kind and not plain, short_loc(b.span),
           'DeError::unexpected_eof() carries an io::Error: %s, of kind UnexpectedEof: %s; message-only errors originated by the slice reader: %s' % (io_, kind, plain or 'none'))


def endblock(ctx, nx, repl):
    # the NotInBlock aggregate built in the InBlock arm
    tgt = None
    for r in state_regions(nx):
        if r.variants == frozenset(['InBlock']):
            for bb in sorted(r.blocks):
                for s in nx.stmts(bb):
                    if 'assign' in s and s['rv']['k'] == 'agg' and s['rv'].get('adt') == RS and s['rv']['variant'] == 'NotInBlock':
                        tgt = (bb, s, r)
    if tgt is None:
        ctx.ob('ENDBLOCK', 'anchor', False, short_loc(nx.span), 'no NotInBlock re-arm in the InBlock arm')
        return
    bb, s, r = tgt
    isr = [(b2, t) for b2, t in nx.calls() if strip_generics(cname(t)).endswith('DecompressionState::into_source_reader_and_config') and b2 in r.blocks]
    f16 = [(b2, t) for b2, t in nx.calls() if classify_de(nx, b2, t) == ('FIXED', 16) and b2 in r.blocks]
    ok1 = len(isr) == 1 and try_edges(nx, isr[0][0]) is not None and nx.dominates(try_edges(nx, isr[0][0])[0], bb)
    ok2 = len(f16) == 1 and try_edges(nx, f16[0][0]) is not None and nx.dominates(try_edges(nx, f16[0][0])[0], bb)
    ctx.ob('ENDBLOCK', 'fully-consumed-first', ok1, short_loc(nx.span), 'into_source_reader_and_config()? succeeded before the state is re-armed: %s' % ok1)
    ctx.ob('ENDBLOCK', 'sync-read', ok2, short_loc(nx.span), '16-byte sync marker read (with ?) before the state is re-armed: %s' % ok2)
    # only reached when the count is exhausted: checked_sub(1) None arm
    cs = False
    for names, adt, oo, d_, oth in option_guards(nx, bb):
        if 'None' in names and any(call_matches(c, ['::checked_sub']) for c in oo.calls) and 'n_objects_in_block' in ''.join(sorted(oo.fields)) + ''.join(str(origin(nx, c['args'][0]).fields) for c in oo.calls if call_matches(c, ['::checked_sub'])):
            cs = True
    ctx.ob('ENDBLOCK', 'only-at-zero', cs, short_loc(nx.span), 'block end handled exactly when checked_sub(n_objects_in_block, 1) is None: %s' % cs)
    # comparison with self.sync_marker, equal edge only
    ok3 = False
    if len(f16) == 1:
        for b2, t in nx.calls():
            if (t.get('callee') or '') in ('core::cmp::PartialEq::ne', 'core::cmp::PartialEq::eq'):
                a0, a1 = origin(nx, t['args'][0]), origin(nx, t['args'][1])
                if any(x is f16[0][1] for x in a0.calls + a1.calls) and ('sync_marker' in a0.fields or 'sync_marker' in a1.fields):
                    sw = t.get('target')
                    while sw is not None and nx.term(sw)['k'] == 'goto':
                        sw = nx.term(sw)['target']
                    if sw is not None and nx.term(sw)['k'] == 'switch':
                        ne = (t.get('callee') or '').endswith('::ne')
                        t0 = [x['bb'] for x in nx.term(sw)['targets'] if x['v'] == 0][0]
                        diff, same = (nx.term(sw)['otherwise'], t0) if ne else (t0, nx.term(sw)['otherwise'])
                        ok3 = all_paths_err(nx, diff, avoid=[h for h in natural_loops(nx)]) and nx.dominates(same, bb)
    ctx.ob('ENDBLOCK', 'sync-compared', ok3, short_loc(nx.span), 'marker mismatch returns Err; the state is re-armed only on the equal edge: %s' % ok3)
    # the reader handed back is the one returned by into_source_reader_and_config
    ro = origin(nx, s['rv']['ops'][s['rv']['fields'].index('reader')])
    ctx.ob('ENDBLOCK', 'reader-handed-back', bool(isr) and any(c is isr[0][1] for c in ro.calls), short_loc(s.get('span')),
           'the source reader stored back comes from into_source_reader_and_config: %s' % ro.describe()[:120])


def checked(ctx, nx):
    n = 0
    for bb, t in nx.calls():
        tok = classify_de(nx, bb, t)
        if tok and tok[0] == 'VARINT':
            n += 1
            # every use as usize passes try_into
            ok = tok[1] == 'i64'
            ctx.ob('CHECKED', 'varint#%d-is-long' % n, ok, short_loc(t.get('span')), 'block header field read as %s' % tok[1], nontrivial=False)
    # no lossy casts in the reader module
    f = ctx.f
    from .c03 import lossy_int_cast
    m = 0
    for b in f.body_list:
        fl = fn_label(b)
        if not (fl.startswith(P) or fl.startswith('<' + P)) or b.j.get('from_expansion'):
            continue
        for bb in sorted(b.live_blocks()):
            for s in b.stmts(bb):
                if 'assign' in s and s['rv']['k'] == 'cast' and s['rv']['cast'] == 'IntToInt' and const_int(s['rv']['op']) is None and lossy_int_cast(s['rv']['from'], s['rv']['to']):
                    if (s.get('span') or {}).get('exp'):
                        continue
                    m += 1
                    ctx.ob('CHECKED', 'cast/%s/%s->%s' % (fl, s['rv']['from'], s['rv']['to']), False, short_loc(s.get('span')), 'lossy `as` cast on a value in the container reader')
    ctx.counts['CHECKED:lossy casts in the reader module'] = {'actual': m, 'floor': 0}
    # snappy: decompressed length equality
    if ctx.has_feature('snappy'):
        st = fn_by_label(f, P + 'decompression::state')
        ok = False
        if st is not None:
            for cb in [st] + f.closures_of(st):
                for sbb in sorted(cb.live_blocks()):
                    if cb.term(sbb)['k'] == 'switch':
                        cond = switch_condition(cb, cb.switch_info(sbb))
                        if cond[0] == 'cmp' and cond[1] in ('Ne', 'Eq'):
                            lo, ro = origin(cb, cond[2]), origin(cb, cond[3])
                            if any(cname(c).endswith('Decoder::decompress') for c in lo.calls + ro.calls) and ('len' in lo.flags or 'len' in ro.flags):
                                t0 = [x['bb'] for x in cb.term(sbb)['targets'] if x['v'] == 0][0]
                                diff = cb.term(sbb)['otherwise'] if cond[1] == 'Ne' else t0
                                ok = all_paths_err(cb, diff)
        ctx.ob('CHECKED', 'snappy/decompressed-length', ok, short_loc(st.span) if st else None, 'snappy: written != buffer.len() => Err: %s' % ok)


ERROR_DISCARDING = ('Result::unwrap_or', 'Result::unwrap_or_default', 'Result::unwrap_or_else', 'Result::ok', 'Result::err',
                    'Result::or', 'Result::or_else', 'Result::is_ok', 'Result::is_err', 'Result::is_ok_and', 'Result::is_err_and',
                    'Result::map_or', 'Result::map_or_else', 'Result::iter', 'Result::into_iter')
ERROR_DISCARDING_REVIEWED = {}   # fn label -> reason; empty on the reviewed tree


def errprop(ctx):
    """an I/O or framing error is never turned into a value in the container reader: no error-discarding Result adaptor
    (the only way to consume a Result there is `?`, map_err, map, transpose or a match)"""
    f = ctx.f
    found = []
    n = 0
    for b in f.body_list:
        fl = fn_label(b)
        if not (fl.startswith(P) or fl.startswith('<' + P)):
            continue
        for bb, t in b.calls():
            if b.is_cleanup(bb):
                continue
            c = strip_generics(cname(t))
            if 'result::Result::' in c:
                n += 1
                if c.endswith(ERROR_DISCARDING) and fl not in ERROR_DISCARDING_REVIEWED:
                    found.append('%s in %s' % (c.rsplit('::', 1)[1], short_fn(fl)))
    ctx.ob('ERRPROP', 'no-error-discarding-adaptor', not found, None,
           'Result adaptors that can swallow an error in the container reader module: %s (of %d Result adaptor calls)' % (found or 'none', n))
    ctx.floor('ERRPROP', 'Result adaptor calls in the reader module', n, 10)
    # a Result coming straight from an I/O or reading primitive that is matched by hand: its Err arm returns Err
    bad = []
    k = 0
    for b in f.body_list:
        fl = fn_label(b)
        if not (fl.startswith(P) or fl.startswith('<' + P)):
            continue
        for si in b.switches_on_adt('core::result::Result'):
            so = origin(b, si['place'])
            io_calls = [c for c in so.calls if (c.get('callee') or '').startswith(('std::io::', 'de::read::'))]
            if not io_calls or len(so.calls) != len(io_calls):
                continue
            k += 1
            eb = si['variants'].get('Err')
            if eb is None and 'Err' in (si.get('otherwise_variants') or []):
                eb = si['otherwise']
            if eb is None or not all_paths_err(b, eb):
                bad.append('%s: %s' % (short_fn(fl), (io_calls[0].get('callee') or '').rsplit('::', 1)[1]))
    ctx.ob('ERRPROP', 'hand-matched-io-results-propagate', not bad, None,
           'matches on the Result of an I/O / reading primitive whose Err arm does not return Err: %s (of %d such matches)' % (bad or 'none', k))


def ioerr_rule(ctx):
    """an I/O error stays recognisable as one: wherever the Result of a std::io call is converted into the crate's DeError
    (datum decode path and container reader), the conversion is DeError::io / DeError::custom_io - the constructors that
    keep the io::Error, which `io_error()` (and therefore the reader's report-once-then-end-of-stream latch) looks at"""
    f = ctx.f
    n = 0
    bad = []
    for b in f.body_list:
        fl = fn_label(b)
        if not fl.startswith(('de::', '<de::', P, '<' + P)):
            continue
        for bb, t in b.calls():
            c = t.get('callee') or ''
            if not c.startswith('std::io::') or b.is_cleanup(bb) or 'dest' not in t or not b.local_ty(t['dest']['l']).startswith('core::result::Result'):
                continue
            for b2, t2 in b.calls():
                if strip_generics(cname(t2)).endswith('Result::map_err') and any(x is t for x in origin(b, t2['args'][0]).calls):
                    n += 1
                    a = t2['args'][1]
                    keeps = False
                    if 'const' in a and a['const'].get('fn'):
                        keeps = strip_generics(a['const']['fn']).endswith(('DeError::io', 'DeError::custom_io'))
                    else:
                        for x in origin(b, a).atoms:
                            if x[0] == 'closure' and x[1] in f.bodies:
                                keeps = any(strip_generics(cname(ct)).endswith(('DeError::io', 'DeError::custom_io')) for _, ct in f.bodies[x[1]].calls())
                    if not keeps:
                        bad.append('%s: %s' % (short_fn(fl), c.rsplit('::', 1)[1]))
    ctx.ob('IOERR', 'io-errors-keep-their-kind', not bad and n >= 1, None,
           'std::io results converted to DeError on the decode / container-reader path: %d; converted by something other than DeError::io / custom_io: %s' % (n, bad or 'none'))
    ctx.floor('IOERR', 'io results converted to DeError', n, 7)


def erronce(ctx):
    f = ctx.f
    b = fn_by_label(f, P + 'Reader::deserialize_seed_next')
    if b is None:
        ctx.ob('ERRONCE', 'anchor', False, None, 'Reader::deserialize_seed_next not found')
        return
    ctx.touched(b, len(b.calls()))
    inner = [(bb, t) for bb, t in b.calls() if strip_generics(cname(t)).endswith('Reader::deserialize_next_inner')]
    ok = len(inner) == 1
    first = False
    if ok:
        for d, si, taken in dominating_switches(b, inner[0][0]):
            if si.get('kind') != 'enum':
                so = origin(b, si['op'])
                if 'pretend_eof_because_yielded_unrecoverable_error' in so.fields and taken == ('val', (0,)):
                    # the other edge returns Ok(None) without calling inner
                    oth = [s for s in b.succs(d) if not b.dominates(s, inner[0][0])]
                    first = all(inner[0][0] not in b.reachable_from(s) for s in oth) and all(ok_return_blocks(b, b.reachable_from(s)) for s in oth)
    ctx.ob('ERRONCE', 'flag-tested-first', ok and first, short_loc(b.span), 'the flag is tested before anything else and short-circuits to Ok(None): %s' % first)
    sets = []
    for bb in sorted(b.live_blocks()):
        for s in b.stmts(bb):
            if 'assign' in s and any(isinstance(e, dict) and e.get('f') == 'pretend_eof_because_yielded_unrecoverable_error' for e in s['assign'].get('p', [])):
                sets.append((bb, s))
    ok = len(sets) == 1 and const_int(sets[0][1]['rv'].get('op')) == 1
    det = '%d assignment(s) of the flag' % len(sets)
    if ok:
        sbb = sets[0][0]
        # under Err(..) of the inner result and (io_error().is_some() || state is Broken)
        err_arm = any('Err' in names and any(c is inner[0][1] for c in oo.calls) for names, adt, oo, d_, oth in option_guards(b, sbb)) if inner else False
        io = [(bb, t) for bb, t in b.calls() if strip_generics(cname(t)).endswith('DeError::io_error')]
        brk = [si for si in b.switches_on_adt(RS)]
        # both disjuncts lead to the set block
        io_edge = False
        io_false = []
        for bb, t in io:
            nm = [(b2, t2) for b2, t2 in b.calls() if cname(t2).endswith('Option::<T>::is_some') and any(c is t for c in origin(b, t2['args'][0]).calls)]
            for b2, t2 in nm:
                sw = t2.get('target')
                if sw is not None and b.term(sw)['k'] == 'switch':
                    rets = [x for x in b.live_blocks() if b.term(x)['k'] == 'return']
                    t_edge = b.term(sw)['otherwise']
                    f_edges = [x['bb'] for x in b.term(sw)['targets']]
                    # an I/O error alone sets the flag: every path from the is_some()==true edge passes the assignment
                    io_edge = sbb in b.reachable_from(t_edge, avoid=f_edges) and must_pass(b, t_edge, rets, [sbb])
                    io_false = f_edges
        brk_edge = False
        for si in brk:
            tb = si['variants'].get('Broken')
            if tb is not None and 'reader_state' in origin(b, si['place']).fields:
                # a Broken state alone sets it: the state is examined when there is no I/O error, and its Broken edge always
                # reaches the assignment
                rets = [x for x in b.live_blocks() if b.term(x)['k'] == 'return']
                examined = any(si['bb'] in b.reachable_from(fe) for fe in io_false)
                tb2 = follow_const_bool(b, tb)
                brk_edge = sbb in b.reachable_from(tb2) and must_pass(b, tb2, rets, [sbb]) and examined
        ok = err_arm and io_edge and brk_edge
        det = 'flag set under Err: %s; when io_error().is_some(): %s; when the state is Broken: %s' % (err_arm, io_edge, brk_edge)
    ctx.ob('ERRONCE', 'flag-set-on-unrecoverable', ok, short_loc(b.span), det)
    # the result of the inner call is returned as is
    ret = False
    for d in b.defs().get(0, []):
        if d[2] == 'assign' and d[0] in b.live_blocks():
            o = origin(b, d[3].get('op') or d[4])
            if inner and any(c is inner[0][1] for c in o.calls):
                ret = True
    ctx.ob('ERRONCE', 'error-yielded-once', ret, short_loc(b.span), 'the inner result (the error itself) is what is returned on that call: %s' % ret)


def loops(ctx, nx):
    n = 0
    for h, blk in natural_loops(nx).items():
        n += 1
        prog = {bb for bb in blk if nx.term(bb)['k'] == 'call' and (classify_de(nx, bb, nx.term(bb)) or [''])[0] in ('VARINT', 'FIXED')}
        # remove the progress blocks: no cycle through the header may remain
        rem = blk - prog
        cyc = any(s in rem and h in nx.reachable_from(s, avoid=(set(range(nx.n)) - rem)) for s in nx.succs(h)) if h not in prog else False
        ctx.ob('LOOP', 'deserialize_next_inner/loop@%d' % n, bool(prog) and not cyc, short_loc(nx.span),
               'every iteration of the state-machine loop reads from the source (%d reading blocks); a cycle avoiding all of them exists: %s' % (len(prog), cyc))
    ctx.floor('LOOP', 'loops', n, 1)


def panics(ctx):
    f = ctx.f
    n = 0
    in_scope_ = [b for b in f.body_list if (fn_label(b).startswith(P) or fn_label(b).startswith('<' + P)) and not b.j.get('from_expansion')]
    matcher = ReviewedMatcher('C17', PANIC_REVIEWED, {short_fn(fn_label(b)) for b in in_scope_})
    ctx.panic_matcher = matcher
    matcher.site_kinds = {(short_fn(fn_label(b_)), k_) for b_ in in_scope_ for k_, _, _, _ in panic_sites(b_)}
    for b in f.body_list:
        fl = fn_label(b)
        if not (fl.startswith(P) or fl.startswith('<' + P)) or b.j.get('from_expansion'):
            continue
        ctx.touched(b)
        for kind, bb, loc_, txt in panic_sites(b):
            n += 1
            why = auto_accept(b, kind, bb)
            if why is None and kind in ('unwrap', 'expect'):
                # [u8; N] conversions of a slice just obtained with a constant length
                pass
            if why is None:
                why = matcher.match(b, short_fn(fl), kind, bb)
            ordn = sum(1 for k2, bb2, _, _ in panic_sites(b) if k2 == kind and bb2 < bb)
            ctx.ob('PANIC', '%s/%s#%d' % (fl, kind, ordn), why is not None, loc_,
                   ('panic-capable construct `%s` (%s): %s' % (kind, txt[:60], why)) if why else
                   ('UNREVIEWED panic-capable construct `%s` (%s) on the container reader path' % (kind, txt[:90])))
    ctx.counts['PANIC:sites'] = {'actual': n, 'floor': 0}
