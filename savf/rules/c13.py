"""C13 - record bytes independent of field order; omitted nullable fields encode as null (structural part).

  FIELDIDX  field_idx: the first expected field matches by name => (current_idx, its schema); otherwise the index
            comes from the record's name lookup (unknown => Err), Greater => (idx, fields[idx].schema) - index and
            node of the same field -, Less => Err (already written), exhausted iterator => Err
  PAIRING   in serialize_record_value every increment of current_idx is in the same straight-line region as exactly
            one expected_fields.next(); the in-order value is written to the main writer only when
            field_idx == current_idx
  SPLICE    a buffered field is written only when current_idx reaches its slot (taken from buffers.get_mut(current_idx)),
            is followed by the increment, and returns cleared to the pool; out-of-order values go to a side
            serializer whose writer is a pool buffer, never to the main writer; an occupied slot => Err (duplicate)
  END       end(): a missing field errs unless its node is Null or a union whose Null lookup yields a null node, in
            which case the discriminant *from that lookup* is written; then buffered successors are spliced
  PRESENT   the struct and map presentations reach the same two functions (field_idx, serialize_record_value)
  FIELDNAMES the record's name -> position table is built with duplicate detection (a repeated field name is an error
           at freeze, never "last position wins")                                               (found F27)
It does NOT decide equality of bytes across permutations.
"""
from ..lib import *
from ..inventory import natural_loops
from ..core import short_loc, op_place, const_int
from .c03 import fn_by_label

EXPLANATION = ("Record field order, structural part: index/iterator pairing, splice-back protocol, error arms for unknown / "
               "duplicate / missing fields, nullable fill-in writes the looked-up null discriminant; struct and map "
               "presentations share the same machinery. Byte equality across permutations is not decided.")

SM = 'ser::serializer::struct_or_map::'


def straight(b, a, c, limit=12):
    """block c is reached from a by following unique successors only (no branch in between)"""
    x = a
    for _ in range(limit):
        if x == c:
            return True
        s = b.succs(x)
        if len(s) != 1:
            # a `?` in between: follow the Continue edge
            if b.term(x)['k'] == 'switch':
                si = b.switch_info(x)
                if si.get('kind') == 'enum' and si.get('adt') == 'core::ops::control_flow::ControlFlow':
                    x = si['variants'].get('Continue')
                    continue
            return False
        x = s[0]
    return False


def run(ctx):
    f = ctx.f
    fi = fn_by_label(f, SM + 'field_idx')
    sv = fn_by_label(f, SM + 'serialize_record_value')
    if fi is None or sv is None:
        ctx.ob('FIELDIDX', 'anchors', False, None, 'field_idx / serialize_record_value not found')
        return
    ctx.touched(fi, len(fi.calls())); ctx.touched(sv, len(sv.calls()))
    fieldidx(ctx, fi)
    pairing(ctx, sv)
    splice(ctx, sv)
    end_rule(ctx)
    present(ctx, fi, sv)
    # "never a panic": the emptiness assertions on pooled buffers hold because pools only receive cleared buffers,
    # also when a record is abandoned half-way (shared with C14)
    from .c14 import pool_rule
    pool_rule(ctx)
    fieldnames_rule(ctx)


def fieldnames_rule(ctx, adt='Record', rule='FIELDNAMES', key='one-position-per-name', elem='String'):
    """the record's name -> position table, which the serializer finds a presented field with, holds ONE position per
    name: where it is built (freeze) every insertion is checked and a name met twice is an error.  Collecting
    (name, position) pairs keeps the last position for a repeated name while the in-order fast path takes the first
    field not yet written: with fields [x, a, a] the bytes then depend on where x was presented"""
    f = ctx.f
    from .c03 import fn_by_label
    tf = fn_by_label(f, '<schema::self_referential::Schema as core::convert::TryFrom>::try_from')
    if tf is None:
        ctx.ob(rule, 'anchor', False, None, 'freeze not found')
        return
    ctx.touched(tf)
    ok, det = False, 'no %s aggregate with a per_name_lookup found in freeze' % adt
    fam = [tf] + f.closures_of(tf)
    for b in fam:
        for bb in sorted(b.live_blocks()):
            if b.is_cleanup(bb):
                continue
            for s_ in b.stmts(bb):
                if 'assign' in s_ and s_['rv']['k'] == 'agg' and (s_['rv'].get('adt') or '').endswith('self_referential::' + adt) and 'per_name_lookup' in (s_['rv'].get('fields') or []):
                    o = origin(b, s_['rv']['ops'][s_['rv']['fields'].index('per_name_lookup')])
                    collected = any((c.get('callee') or '').endswith(('Iterator::collect', 'FromIterator::from_iter', 'Extend::extend')) for c in o.calls)
                    checked = False
                    # the map that ends up in the aggregate: follow whole-value moves back from the operand
                    mp = op_place(s_['rv']['ops'][s_['rv']['fields'].index('per_name_lookup')])
                    maps = set()
                    todo_ = [mp['l']] if mp is not None and not mp.get('p') else []
                    while todo_:
                        l_ = todo_.pop()
                        if l_ in maps:
                            continue
                        maps.add(l_)
                        for d_ in b.defs().get(l_, []):
                            if d_[2] == 'assign' and d_[3].get('k') == 'use' and op_place(d_[3]['op']):
                                # whole-value moves, and the payload of `?` plumbing (`(cf as Continue).0`, `Ok(map)` built
                                # by a helper that was spliced in)
                                todo_.append(op_place(d_[3]['op'])['l'])
                            elif d_[2] == 'assign' and d_[3].get('k') == 'agg' and d_[3].get('variant') in ('Ok', 'Continue', 'Some') and d_[3].get('ops'):
                                q_ = op_place(d_[3]['ops'][0])
                                if q_ is not None:
                                    todo_.append(q_['l'])
                            elif d_[2] == 'call' and (d_[3].get('callee') or '').endswith('Try::branch') and d_[3].get('args'):
                                q_ = op_place(d_[3]['args'][0])
                                if q_ is not None:
                                    todo_.append(q_['l'])

                    def on_that_map(x, it):
                        if x is not b:
                            return False
                        rp = op_place(it['args'][0])
                        if rp is None:
                            return False
                        for d_ in x.defs().get(rp['l'], []):
                            if d_[2] == 'assign' and d_[3].get('k') == 'ref' and d_[3]['place'].get('l') in maps:
                                return True
                        return False
                    for x in fam:
                        for ib, it in x.calls():
                            if cname(it).endswith('HashMap::<K, V, S, A>::insert') and not x.is_cleanup(ib) and 'String' in ' '.join(it.get('arg_tys', [])[1:2]) and on_that_map(x, it):
                                # the Option it returns is looked at and Some => Err
                                for cb2, ct in x.calls():
                                    if strip_generics(cname(ct)).endswith(('Option::is_some', 'Option::is_none')) and any(c is it for c in origin(x, ct['args'][0]).calls):
                                        sw = ct.get('target')
                                        if sw is not None and x.term(sw)['k'] == 'switch':
                                            t0 = [y['bb'] for y in x.term(sw)['targets'] if y['v'] == 0]
                                            some_edge = x.term(sw)['otherwise'] if strip_generics(cname(ct)).endswith('is_some') else (t0[0] if t0 else None)
                                            checked = checked or (some_edge is not None and all_paths_err(x, some_edge))
                                for sbb in sorted(x.live_blocks()):
                                    if x.term(sbb)['k'] == 'switch':
                                        si = x.switch_info(sbb)
                                        if si.get('kind') == 'enum' and si.get('adt') == 'core::option::Option' and si['place'].get('l') == (it.get('dest') or {}).get('l'):
                                            sb = si['variants'].get('Some')
                                            checked = checked or (sb is not None and all_paths_err(x, sb))
                    ok = not collected and checked
                    det = 'per_name_lookup collected from (name, position) pairs (a repeated name keeps its last position): %s; built by insertions whose "already there" answer returns Err: %s' % (collected, checked)
    ctx.ob(rule, key, ok, short_loc(tf.span), det)


def pair_positions(body_or_tys, facts):
    """positions (1-based for parameters of a body, 0-based for an argument type list) of the field index and of the
    field's node in a signature, found by type: `usize` and `&SchemaNode`; one parameter of a small private struct type
    holding both stands for both"""
    if isinstance(body_or_tys, list):
        tys = list(enumerate(body_or_tys))
    else:
        tys = [(i, body_or_tys.local_ty(i)) for i in range(1, body_or_tys.nargs + 1)]
    idx = {i for i, t in tys if t == 'usize'}
    node = {i for i, t in tys if t.lstrip('&').startswith(('schema::self_referential::SchemaNode', "'s schema::self_referential::SchemaNode")) or
            (t.startswith('&') and 'schema::self_referential::SchemaNode<' in t and 'Vec<' not in t and 'RecordState' not in t)}
    for i, t in tys:
        a = facts.adts.get(t.split('<')[0])
        if a and a['kind'] == 'struct' and a.get('vis') != 'pub':
            ftys = [x['ty'] for x in a['variants'][0]['fields']]
            if len(ftys) == 2 and 'usize' in ftys and any('SchemaNode<' in x and x.startswith('&') for x in ftys):
                idx.add(i)
                node.add(i)
    return idx, node


def fieldidx(ctx, fi):
    # Ok tuples returned
    oks = []
    for bb in ok_return_blocks(fi):
        for s in fi.stmts(bb):
            if 'assign' in s and s['assign']['l'] == 0 and s['rv']['k'] == 'agg':
                p = op_place(s['rv']['ops'][0])
                for d in fi.defs().get(p['l'], []) if p else []:
                    # the (index, node) pair: a tuple, or a small private struct with those two members
                    if d[2] == 'assign' and d[3]['k'] == 'agg' and d[3].get('agg') in ('tuple', 'adt') and len(d[3]['ops']) == 2:
                        ops = list(d[3]['ops'])
                        tys = [fi.local_ty(op_place(o)['l']) if op_place(o) else ('usize' if 'const' in o and o['const'].get('ty') == 'usize' else '') for o in ops]
                        if tys[1] == 'usize' and tys[0] != 'usize':
                            ops.reverse()
                        oks.append((bb, ops))
    ctx.ob('FIELDIDX', 'two-ok-exits', len(oks) == 2, short_loc(fi.span), '%d Ok((index, node)) exits (fast path and lookup path)' % len(oks), nontrivial=False)
    fast = slow = None
    for bb, ops in oks:
        io, no = origin(fi, ops[0]), origin(fi, ops[1])
        if 'current_idx' in io.fields:
            fast = (bb, io, no)
        else:
            slow = (bb, io, no)
    ok = False
    if fast:
        bb, io, no = fast
        # node = first.schema of the first expected field; guarded by name equality with the key
        first = 'expected_fields' in no.fields and 'schema' in no.fields and 'get' in no.flags
        eq = False
        for d, si, taken in dominating_switches(fi, bb):
            if si.get('kind') != 'enum':
                so = origin(fi, si['op'])
                e = [c for c in so.calls if (c.get('callee') or '') == 'core::cmp::PartialEq::eq']
                if e and taken[0] == 'not':
                    a0, a1 = origin(fi, e[0]['args'][0]), origin(fi, e[0]['args'][1])
                    eq = ('name' in a0.fields and a1.params() == {2}) or ('name' in a1.fields and a0.params() == {2})
        ok = first and eq and not io.has_arith()
    ctx.ob('FIELDIDX', 'fast-path', ok, short_loc(fi.span), 'first expected field with the same name => (current_idx, that field\'s schema): %s' % ok)
    ok = False
    if slow:
        bb, io, no = slow
        look = 'per_name_lookup' in io.fields and 'get' in io.flags and 'ok_or' in io.flags and 'try' in io.flags and not io.has_arith()
        # node = record.fields[<the same index>].schema
        same = False
        for c in no.calls:
            if call_matches(c, ['Index::index', 'Index<I>>::index']):
                xo = origin(fi, c['args'][1])
                same = xo.atoms == io.atoms and xo.fields == io.fields and 'fields' in origin(fi, c['args'][0]).fields
        greater = any('Greater' in names for names, adt, oo, d_, oth in option_guards(fi, bb) if adt == 'core::cmp::Ordering')
        ok = look and same and greater and 'schema' in no.fields
    ctx.ob('FIELDIDX', 'lookup-path', ok, short_loc(fi.span), 'index from per_name_lookup (unknown => Err via ok_or_else + ?), node = record.fields[that index].schema, only when index > current_idx: %s' % ok)
    # Less => Err ; Equal => unreachable panic (reviewed) ; comparison is index.cmp(current_idx)
    cm = [(bb, t) for bb, t in fi.calls() if (t.get('callee') or '') == 'core::cmp::Ord::cmp']
    ok = len(cm) == 1
    if ok:
        a0, a1 = origin(fi, cm[0][1]['args'][0]), origin(fi, cm[0][1]['args'][1])
        ok = 'per_name_lookup' in a0.fields and 'current_idx' in a1.fields
        for r in enum_regions(fi, 'core::cmp::Ordering'):
            if r.variants == frozenset(['Less']):
                ok = ok and all_paths_err(fi, r.entry)
    ctx.ob('FIELDIDX', 'already-written-errs', ok, short_loc(fi.span), 'cmp(looked-up index, current_idx): Less => Err: %s' % ok)
    # exhausted iterator => Err in both sub-cases
    ok = False
    for sbb in sorted(fi.live_blocks()):
        if fi.term(sbb)['k'] == 'switch':
            si = fi.switch_info(sbb)
            if si.get('kind') == 'enum' and si.get('adt') == 'core::option::Option' and 'expected_fields' in origin(fi, si['place']).fields:
                nb = si['variants'].get('None')
                ok = nb is not None and all_paths_err(fi, nb)
    ctx.ob('FIELDIDX', 'no-field-left-errs', ok, short_loc(fi.span), 'when no expected field is left every path returns Err: %s' % ok)


def pairing(ctx, sv):
    IDXP, NODEP = pair_positions(sv, ctx.f)
    incs = []
    for bb in sorted(sv.live_blocks()):
        if sv.is_cleanup(bb):
            continue
        for s in sv.stmts(bb):
            if 'assign' in s and any(isinstance(e, dict) and e.get('f') == 'current_idx' for e in s['assign'].get('p', [])):
                o = origin(sv, s['rv'].get('op') or s['assign'])
                if 'current_idx' in o.fields and 1 in o.consts() and {x for x in o.flags if x.startswith('arith:')} <= {'arith:AddWithOverflow', 'arith:Add'}:
                    incs.append(bb)
    nexts = [bb for bb, t in sv.calls() if (t.get('callee') or '').endswith('Iterator::next') and 'expected_fields' in origin(sv, t['args'][0]).fields]
    ctx.ob('PAIRING', 'counts', len(incs) == len(nexts) == 2, short_loc(sv.span), '%d increment(s) of current_idx, %d expected_fields.next() call(s)' % (len(incs), len(nexts)))
    paired = 0
    used = set()
    for i in incs:
        for n in nexts:
            if n in used:
                continue
            if straight(sv, n, i) or straight(sv, i, n):
                paired += 1
                used.add(n)
                break
    ctx.ob('PAIRING', 'straight-line', paired == len(incs) and paired == len(nexts), short_loc(sv.span),
           'every increment is in the same straight-line region as exactly one next(): %d of %d' % (paired, len(incs)))
    # in-order value goes to the main writer only under field_idx == current_idx
    DSA = 'ser::serializer::DatumSerializer'
    aggs = []
    for bb in sorted(sv.live_blocks()):
        for s in sv.stmts(bb):
            if 'assign' in s and s['rv']['k'] == 'agg' and s['rv'].get('adt') == DSA:
                aggs.append((bb, s))
    main = side = None
    for bb, s in aggs:
        so = origin(sv, s['rv']['ops'][s['rv']['fields'].index('state')])
        if so.params() == {1} and not so.call_names() and not [a for a in so.atoms if a[0] == 'agg']:
            main = (bb, s)
        else:
            side = (bb, s, so)
    ok = False
    if main:
        for g in cmp_guards(sv, main[0]):
            if g['op'] == 'Eq' and ((g['l'].params() and g['l'].params() <= IDXP and 'current_idx' in g['r'].fields) or (g['r'].params() and g['r'].params() <= IDXP and 'current_idx' in g['l'].fields)):
                ok = True
    ctx.ob('PAIRING', 'in-order-to-main-writer', ok, short_loc(sv.span), 'value is serialised into the main writer only under field_idx == current_idx: %s' % ok)
    ok = False
    det = 'side serializer not found'
    if side:
        bb, s, so = side
        # state is a SerializerState built here whose writer is a pool buffer / fresh Vec
        ok = any(a[0] == 'agg' and a[1] == 'ser::SerializerState' for a in so.atoms) or 'writer' in so.fields
        ne = False
        for g in cmp_guards(sv, bb):
            if g['op'] == 'Ne' and ((g['l'].params() and g['l'].params() <= IDXP and 'current_idx' in g['r'].fields) or (g['r'].params() and g['r'].params() <= IDXP and 'current_idx' in g['l'].fields)):
                ne = True
        # its writer is not the main writer
        wmain = True
        for b2 in sorted(sv.live_blocks()):
            for s2 in sv.stmts(b2):
                if 'assign' in s2 and s2['rv']['k'] == 'agg' and s2['rv'].get('adt') == 'ser::SerializerState':
                    wo = origin(sv, s2['rv']['ops'][s2['rv']['fields'].index('writer')])
                    wmain = 'writer' in wo.fields or not (any(cname(c).endswith('Vec::<T, A>::pop') for c in wo.calls) or any(cname(c).endswith('Vec::<T>::new') for c in wo.calls))
        ok = ok and ne and not wmain
        det = 'out-of-order value is serialised into a side SerializerState (not the main writer), under field_idx != current_idx: %s' % ok
    ctx.ob('PAIRING', 'out-of-order-to-side-buffer', ok, short_loc(sv.span), det)
    # both use the node handed in
    okn = all(origin(sv, s['rv']['ops'][s['rv']['fields'].index('schema_node')]).params() and origin(sv, s['rv']['ops'][s['rv']['fields'].index('schema_node')]).params() <= NODEP for bb, s in aggs) and len(aggs) == 2
    ctx.ob('PAIRING', 'node-is-the-fields-node', okn, short_loc(sv.span), 'both serializers use the node that field_idx paired with the index: %s' % okn)


def splice_sites(b):
    """write_all(&buf) where buf came from buffers.get_mut(current_idx).and_then(take)"""
    out = []
    for bb, t in b.calls():
        if (t.get('callee') or '') == 'std::io::Write::write_all':
            names = deep_call_names(b, t['args'][1])
            flds = deep_fields(b, t['args'][1], 4)
            if 'buffers' in flds and any(n_.endswith('slice::<impl [T]>::get_mut') or n_.endswith('Option::<T>::and_then') for n_ in names):
                out.append((bb, t, flds))
    return out


def splice(ctx, sv):
    f = ctx.f
    for nm, b in (('serialize_record_value', sv), ('end', fn_by_label(f, SM + 'SerializeStructAsRecordOrMapOrDuration::end'))):
        if b is None:
            ctx.ob('SPLICE', nm, False, None, 'anchor not found')
            continue
        ctx.touched(b, len(b.calls()))
        sp = splice_sites(b)
        ok = len(sp) == 1
        det = '%d splice site(s)' % len(sp)
        if ok:
            bb, t, flds = sp[0]
            # slot index = current_idx (no arithmetic)
            gm = [(b2, t2) for b2, t2 in b.calls() if call_matches(t2, ['slice::<impl [T]>::get_mut']) and 'buffers' in deep_fields(b, t2['args'][0], 2)]
            idx_ok = False
            for b2, t2 in gm:
                io = origin(b, t2['args'][1])
                # the slot index is current_idx itself (possibly a local loop copy of it that only ever advances by 1)
                ar = {x for x in io.flags if x.startswith('arith:')}
                idx_ok = 'current_idx' in io.fields and ar <= {'arith:AddWithOverflow', 'arith:Add'} and {x for x in io.consts() if isinstance(x, int)} <= {1}
                if ar:
                    # when arithmetic is involved the operand must be the counter variable itself, not `counter + 1`
                    pl = op_place(t2['args'][1])
                    direct = False
                    for d in b.defs().get(pl['l'], []) if pl else []:
                        if d[2] == 'assign' and d[3]['k'] == 'use' and op_place(d[3]['op']) and not op_place(d[3]['op']).get('p'):
                            direct = True
                    idx_ok = idx_ok and direct
            # written to the main writer
            wo = origin(b, t['args'][0])
            main = 'writer' in wo.fields
            # followed by: clear, push to pool, increment
            te = try_edges(b, bb)
            after = b.reachable_from(te[0], avoid=[h for h in natural_loops(b)]) if te else set()
            clr = any(b.term(x)['k'] == 'call' and call_matches(b.term(x), ['Vec::<T, A>::clear']) for x in after)
            inc = False
            for x in after:
                for s in b.stmts(x):
                    if 'assign' in s and s['rv']['k'] == 'bin' and s['rv']['op'] in ('AddWithOverflow', 'Add') and const_int(s['rv']['r']) == 1:
                        inc = True
            # inside a loop that re-tests the next slot
            inloop = any(bb in blk for blk in natural_loops(b).values())
            # ... and the *next* thing that happens after a splice is the test of the following slot: no write, no
            # missing-field decision and no return is reachable from the splice without passing the slot test again
            retest = False
            if te and gm:
                gmb = {b2 for b2, t2 in gm}
                events = {x for x, t2 in b.calls() if ((t2.get('callee') or '') in ('std::io::Write::write_all',) or cname(t2).endswith('write_varint')
                                                        or strip_generics(cname(t2)).endswith('WriteVarint::write_varint'))}
                events |= {si['bb'] for si in b.switches_on_adt(SCHEMA_NODE)}
                events |= {x for x in b.live_blocks() if b.term(x)['k'] == 'return'}
                retest = must_pass(b, te[0], events - gmb, gmb)
            ok = idx_ok and main and clr and inc and inloop and retest
            det = 'buffer taken from slot current_idx: %s; written to the main writer: %s; then cleared (%s) and current_idx incremented (%s), in a loop over consecutive slots: %s; the following slot is tested before anything else happens: %s' % (idx_ok, main, clr, inc, inloop, retest)
        ctx.ob('SPLICE', nm, ok, short_loc(b.span), det)
    # occupied slot => Err (duplicate field)
    ok = False
    for sbb in sorted(sv.live_blocks()):
        if sv.term(sbb)['k'] == 'switch':
            si = sv.switch_info(sbb)
            if si.get('kind') == 'enum' and si.get('adt') == 'core::option::Option':
                po = origin(sv, si['place'])
                if 'buffers' in po.fields and 'index' in po.flags:
                    sb = si['variants'].get('Some')
                    ok = sb is not None and all_paths_err(sv, sb)
    ctx.ob('SPLICE', 'occupied-slot-errs', ok, short_loc(sv.span), 'a slot already holding a buffered value (field given twice) returns Err: %s' % ok)
    # the buffered value is stored in its own slot: buffers[field_idx]
    ok = False
    for bb, t in sv.calls():
        if call_matches(t, ['IndexMut::index_mut', 'IndexMut<I>>::index_mut']) and 'buffers' in origin(sv, t['args'][0]).fields:
            so_ = origin(sv, t['args'][1])
            ok = bool(so_.params()) and so_.params() <= pair_positions(sv, ctx.f)[0] and not so_.has_arith()
    ctx.ob('SPLICE', 'stored-in-own-slot', ok, short_loc(sv.span), 'out-of-order value is stored at buffers[field_idx]: %s' % ok)


def end_rule(ctx):
    f = ctx.f
    e = fn_by_label(f, SM + 'SerializeStructAsRecordOrMapOrDuration::end')
    if e is None:
        ctx.ob('END', 'anchor', False, None, 'end not found')
        return
    # the inner match on *record.fields[current_idx].schema
    def flt(place):
        o = origin(e, place)
        return 'fields' in o.fields and 'schema' in o.fields
    regs = enum_regions(e, SCHEMA_NODE, place_filter=flt)
    kinds = {}
    for r in regs:
        for v in r.variants:
            kinds[v] = r
    ctx.ob('END', 'missing-field-match', {'Null', 'Union'} <= set(kinds), short_loc(e.span), 'end() matches on the missing field\'s node: arms %s' % sorted(k for k in kinds if len(kinds[k].variants) < 5))
    if not ({'Null', 'Union'} <= set(kinds)):
        return
    # default arm errs
    # the match that has explicit Null and Union arms: its default edge (every other kind) errs
    outer = [si for si in e.switches_on_adt(SCHEMA_NODE) if flt(si['place']) and {'Null', 'Union'} <= set(si.get('variants', {}))]
    okd = len(outer) == 1 and bool(outer[0].get('otherwise_variants')) and all_paths_err(e, outer[0]['otherwise'], avoid=[h for h in natural_loops(e)])
    ctx.ob('END', 'non-nullable-missing-errs', okd, short_loc(e.span),
           'a missing field whose node is neither null nor a union returns Err (default edge of the match with explicit Null and Union arms): %s' % okd)
    # Null arm writes nothing
    rnull = kinds['Null']
    wr = [bb for bb in rnull.blocks if e.term(bb)['k'] == 'call' and ((e.term(bb).get('callee') or '').endswith('write_varint') or (e.term(bb).get('callee') or '') == 'std::io::Write::write_all')]
    ctx.ob('END', 'null-writes-nothing', not wr, short_loc(e.span), 'omitted null field writes no bytes: %s' % (not wr))
    # Union arm: discriminant from unnamed(Null) lookup whose node is Null
    ru = kinds['Union']
    wv = [(bb, e.term(bb)) for bb in sorted(ru.blocks) if e.term(bb)['k'] == 'call' and (e.term(bb).get('callee') or '').endswith('VarIntWriter::write_varint')]
    ok = len(wv) == 1
    det = '%d discriminant write(s) in the union arm' % len(wv)
    if ok:
        o = origin(e, wv[0][1]['args'][1])
        from_lookup = o.only_from_calls(["PerTypeLookup::<'a>::unnamed"]) and not o.has_arith() and not o.consts()
        # lookup key is Null
        key_ok = False
        for c in o.calls:
            if strip_generics(cname(c)).endswith('PerTypeLookup::unnamed'):
                key_ok = agg_variant_consts(e, c['args'][1]) == {'Null'}
        # only when the node found is Null
        node_null = False
        for d, si, taken in dominating_switches(e, wv[0][0]):
            if si.get('kind') == 'enum' and si.get('adt') == SCHEMA_NODE and taken[0] == 'variant' and taken[1] == ('Null',):
                po = origin(e, si['place'])
                if any(strip_generics(cname(c)).endswith('PerTypeLookup::unnamed') for c in po.calls):
                    node_null = True
        # every other outcome of the lookup errs
        ok = from_lookup and key_ok and node_null
        det = 'discriminant written is the one returned by unnamed(Null): %s (key Null: %s), only when that branch is the null node: %s' % (from_lookup, key_ok, node_null)
    ctx.ob('END', 'nullable-union-writes-lookup-discriminant', ok, short_loc(e.span), det)
    # after the fill-in the index advances by one
    inc = False
    for bb in sorted(e.live_blocks()):
        for s in e.stmts(bb):
            if 'assign' in s and s['rv']['k'] == 'bin' and s['rv']['op'] in ('AddWithOverflow', 'Add') and const_int(s['rv']['r']) == 1:
                inc = True
    ctx.ob('END', 'advances', inc, short_loc(e.span), 'the missing-field loop advances current_idx: %s' % inc)
    # loop bound: current_idx < record.fields.len()
    lb = False
    for bb in sorted(e.live_blocks()):
        if e.term(bb)['k'] == 'switch':
            cond = switch_condition(e, e.switch_info(bb))
            if cond[0] == 'cmp' and cond[1] in ('Lt', 'Gt'):
                lo, ro = origin(e, cond[2]), origin(e, cond[3])
                if ('fields' in ro.fields and 'len' in ro.flags) or ('fields' in lo.fields and 'len' in lo.flags):
                    lb = True
    ctx.ob('END', 'covers-all-fields', lb, short_loc(e.span), 'the loop runs while current_idx < record.fields.len(): %s' % lb)


RECORD_STATE_WRITERS = {   # reviewed: the only functions that move the record cursor / touch the reorder slots
    'current_idx': {('assign', 'serialize_record_value')},
    'buffers': {('mutref', '<KindRecord as Drop>::drop'), ('mutref', 'SerializeStructAsRecordOrMapOrDuration::end'), ('mutref', 'serialize_record_value')},
    'expected_fields': {('mutref', 'serialize_record_value')},
}


def state_writers(ctx):
    """the record cursor (current_idx, the expected-field iterator) and the reorder slots are advanced / filled / spliced
    in one place each; any other function that writes them (a `skip_field` shortcut, a second splice site) bypasses the
    pairing and splice protocol checked above"""
    f = ctx.f
    for fld, reviewed in RECORD_STATE_WRITERS.items():
        w = set()
        for b in f.body_list:
            for bb in b.live_blocks():
                if b.is_cleanup(bb):
                    continue
                for s in b.stmts(bb):
                    if 'assign' not in s:
                        continue
                    if any(isinstance(e, dict) and e.get('f') == fld and (e.get('of') or '').endswith('RecordState') for e in s['assign'].get('p', [])):
                        w.add(('assign', short_fn(fn_label(b))))
                    rv = s['rv']
                    if rv['k'] in ('ref', 'rawptr') and rv.get('mut') and any(isinstance(e, dict) and e.get('f') == fld and (e.get('of') or '').endswith('RecordState') for e in rv['place'].get('p', [])):
                        w.add(('mutref', short_fn(fn_label(b))))
        extra = sorted(w - reviewed)
        ctx.ob('PAIRING', 'state-writers/%s' % fld, not extra and bool(w), None,
               'functions writing RecordState.%s: %s; beyond the reviewed ones: %s' % (fld, sorted(x[1] for x in w), extra or 'none'))


def present(ctx, fi, sv):
    f = ctx.f
    state_writers(ctx)
    users = {}
    for b in f.body_list:
        for bb, t in b.calls():
            r = t.get('resolved') or t.get('callee') or ''
            if r == fi.id:
                users.setdefault(short_fn(fn_label(b)), set()).add('field_idx')
            if r == sv.id:
                users.setdefault(short_fn(fn_label(b)), set()).add('serialize_record_value')
    need = {
        '<SerializeStructAsRecordOrMapOrDuration as SerializeStruct>::serialize_field': {'field_idx', 'serialize_record_value'},
        '<SerializeMapAsRecordOrMapOrDuration as SerializeMap>::serialize_entry': {'serialize_record_value'},
        '<SerializeMapAsRecordOrMapOrDuration as SerializeMap>::serialize_value': {'serialize_record_value'},
        '<FindFieldIndexSerializer as Serializer>::serialize_str': {'field_idx'},
    }
    for k, v in need.items():
        ctx.ob('PRESENT', k, users.get(k, set()) >= v, None, '%s reaches %s (found %s)' % (k, sorted(v), sorted(users.get(k, set()))))
    # struct variant forwards to the struct impl
    sv2 = fn_by_label(f, '<' + SM + 'SerializeStructAsRecordOrMapOrDuration as serde_core::ser::SerializeStructVariant>::serialize_field')
    ok = False
    if sv2 is not None:
        ok = any((t.get('callee') or '').endswith('SerializeStruct::serialize_field') or strip_generics(cname(t)).endswith('SerializeStruct>::serialize_field') for bb, t in sv2.calls())
    ctx.ob('PRESENT', 'struct-variant-forwards', ok, short_loc(sv2.span) if sv2 else None, 'SerializeStructVariant::serialize_field forwards to SerializeStruct: %s' % ok)
    # map presentation: key -> FindFieldIndexSerializer -> hint -> serialize_value uses that (idx, node)
    mv = fn_by_label(f, '<' + SM + 'SerializeMapAsRecordOrMapOrDuration as serde_core::ser::SerializeMap>::serialize_value')
    ok = False
    if mv is not None:
        for bb, t in mv.calls():
            if (t.get('resolved') or t.get('callee')) == sv.id:
                ip_, np_ = pair_positions(t.get('arg_tys', []), f)
                ok = bool(ip_) and bool(np_)
                for k_ in ip_ | np_:
                    ok = ok and 'key_hint' in (origin(mv, t['args'][k_]).fields | set(deep_fields(mv, t['args'][k_], 3)))
    # map presentation, both entry points: the (index, node) pair is exactly what the key lookup returned
    def key_lookup_calls(b):
        out = []
        for bb, t in b.calls():
            if (t.get('callee') or '').endswith('ser::Serialize::serialize') and len(t['args']) > 1:
                o = origin(b, t['args'][1])
                if any(a[0] == 'agg' and str(a[1]).endswith('FindFieldIndexSerializer') for a in o.atoms):
                    out.append(t)
        return out

    def from_lookup(b, op, ks):
        o = origin(b, op)
        return any(c is k for c in o.calls for k in ks) and 'current_idx' not in o.fields and not o.has_arith()
    me = fn_by_label(f, '<' + SM + 'SerializeMapAsRecordOrMapOrDuration as serde_core::ser::SerializeMap>::serialize_entry')
    oke = False
    if me is not None:
        ctx.touched(me)
        ks = key_lookup_calls(me)
        for bb, t in me.calls():
            if (t.get('resolved') or t.get('callee')) == sv.id and ks:
                ip_, np_ = pair_positions(t.get('arg_tys', []), f)
                oke = bool(ip_) and bool(np_) and all(from_lookup(me, t['args'][k_], ks) for k_ in ip_ | np_)
    ctx.ob('PRESENT', 'map-entry-uses-key-lookup', oke, short_loc(me.span) if me else None,
           'serialize_entry hands serialize_record_value the (index, node) returned by the key lookup, nothing else: %s' % oke)
    mk = fn_by_label(f, '<' + SM + 'SerializeMapAsRecordOrMapOrDuration as serde_core::ser::SerializeMap>::serialize_key')
    okk = False
    if mk is not None:
        ctx.touched(mk)
        ks = key_lookup_calls(mk)
        for bb in sorted(mk.live_blocks()):
            for st in mk.stmts(bb):
                if 'assign' in st and st['rv']['k'] == 'agg' and st['rv'].get('variant') == 'KeyLocation' and ks:
                    okk = bool(st['rv']['ops']) and all(from_lookup(mk, o_, ks) for o_ in st['rv']['ops'])
    ctx.ob('PRESENT', 'map-key-records-key-lookup', okk, short_loc(mk.span) if mk else None,
           'serialize_key records the (index, node) returned by the key lookup in KeyHint::KeyLocation: %s' % okk)
    ctx.ob('PRESENT', 'map-value-uses-key-location', ok, short_loc(mv.span) if mv else None, 'serialize_value passes the (index, node) recorded by serialize_key: %s' % ok)
