"""C10 - no undefined behaviour from the self-referential schema / reader in any history (structural part).

  UNSAFE     closed inventory of unsafe blocks / fns / impls in the three crates, and of the unsafe operations each
             reviewed function performs; anything else is reported
  SITES      per-site obligations: root pointers come from nodes.as_ptr() under the non-empty assertion; key_to_ref
             offsets by idx only under idx < len (else Err) from the start pointer of the preallocated vector; the
             vector is never borrowed mutably / reassigned outside freeze; the init loop writes one slot per source
             node; phase 2 only touches per_type_lookup and the lookup builder never reads that field; no NodeRef is
             dereferenced during phase 1; slots are created initialised (no set_len / MaybeUninit); every index range
             walked in freeze is 0..nodes.len(); no mutable borrow into the node storage is live across a call that
             dereferences NodeRefs (a union may list itself: found F14)
  FROZEN     no mutable path to frozen storage: no function takes &mut Schema or returns &mut into it; NodeRef exposes
             only as_ref / Deref; no interior mutability in SchemaNode's transitive field types; types living inside the
             node storage point at nodes through NodeRef only, never through plain references; Send/Sync impls are
             conditional on T: Sync
  STATIC     the fake-'static root is obtained only in the container reader's constructor, flows only into the reader
             aggregate whose `schema` field is the same Arc; that field is never reassigned and only exposed as
             &Arc<Schema>; reader state types are private; no public signature mentions NodeRef; `schema` is declared
             last (dropped last)
  BORROW     in de:: no impl relates the schema lifetime to 'de; visit_borrowed_str/bytes are only reached from the
             slice path
  WITNESS    (thorough tier) compile_fail / compile-pass doctests on the public API (witness/)
It does NOT decide UB inside dependencies nor anything only an executing memory-error detector observes.
"""
import os, re, subprocess, shutil, time
from ..lib import *
from ..core import short_loc, op_place, const_int
from .c03 import fn_by_label

EXPLANATION = ("Memory safety of the self-referential schema and the container reader, structural part: closed unsafe inventory "
               "with per-site obligations, no mutable path to frozen nodes, fake-'static references confined to the reader that "
               "owns the Arc, Send/Sync preconditions, borrow discipline in the deserializer; compile-fail witnesses on the "
               "public API in the thorough tier. UB in dependencies and executing detectors' observations are not decided.")

SR = 'schema::self_referential::'
TF = '<schema::self_referential::Schema as core::convert::TryFrom>::try_from'
RD = 'object_container_file_encoding::reader::'

UNSAFE_BLOCKS = {
    SR + 'Schema::root': 1, SR + 'NodeRef::from_static': 1, SR + 'NodeRef::as_ref': 1,
    TF + '::{closure#1}': 1, TF: 2, RD + 'Reader::new_and_metadata': 1,
}
UNSAFE_FNS = {SR + 'Schema::root_with_fake_static_lifetime', SR + 'NodeRef::new'}
UNSAFE_IMPLS = {('core::marker::Sync', SR + 'NodeRef'), ('core::marker::Send', SR + 'NodeRef')}
UNSAFE_OPS = {
    SR + 'Schema::root': {'NodeRef::new'},
    SR + 'Schema::root_with_fake_static_lifetime': {'NodeRef::new'},
    SR + 'NodeRef::new': {'NonNull::new_unchecked'},
    SR + 'NodeRef::from_static': {'NonNull::new_unchecked'},
    SR + 'NodeRef::as_ref': {'NonNull::as_ref'},
    TF: {'add'},
    TF + '::{closure#1}': {'add', 'NodeRef::new'},
    RD + 'Reader::new_and_metadata': {'Schema::root_with_fake_static_lifetime'},
}
IMUT = ('Cell<', 'RefCell<', 'Mutex<', 'Atomic', 'UnsafeCell<', 'OnceCell<', 'OnceLock<', 'RwLock<', 'LazyCell<', 'LazyLock<')


SHARED_MUTABLE = re.compile(r'sync::atomic::Atomic|sync::(poison::)?(mutex::)?Mutex|sync::(poison::)?(rwlock::)?RwLock|sync::(once_lock::)?OnceLock|'
                            r'sync::(lazy_lock::)?LazyLock|sync::(once::)?Once\b|once_cell::|lazy_static|parking_lot')


def shared_state(ctx):
    """concurrent use = sequential use: the library keeps no process-wide mutable state.  Every reference to a `static`
    appears in MIR as a constant of reference type; none of them may be an atomic / lock / once-cell (thread-locals are
    per thread and fine), and there is no `static mut`"""
    found = {}
    n = 0

    def walk(x, where):
        nonlocal n
        if isinstance(x, dict):
            c = x.get('const')
            if isinstance(c, dict):
                n += 1
                ty = c.get('ty', '')
                if SHARED_MUTABLE.search(ty) and 'thread::local::LocalKey' not in ty:
                    found.setdefault(ty[:80], set()).add(where)
                if 'static mut' in str(c.get('text', '')):
                    found.setdefault('static mut ' + str(c.get('text'))[:60], set()).add(where)
            for v in x.values():
                walk(v, where)
        elif isinstance(x, list):
            for v in x:
                walk(v, where)
    for crate in ('serde_avro_fast', 'serde_avro_derive'):
        f = ctx.facts(crate)
        for b in f.body_list:
            walk(b.j['blocks'], short_fn(fn_label(b)))
    ctx.ob('STATIC', 'no-process-wide-mutable-state', not found, None,
           'atomics / locks / once-cells reachable as statics from library code: %s (%d constant operands scanned; thread-locals are per-thread)' % (
               {k: sorted(v)[:2] for k, v in found.items()} or 'none', n))
    ctx.floor('STATIC', 'constant operands scanned', n, 1000)


def run(ctx):
    shared_state(ctx)
    unsafe_inventory(ctx)
    sites(ctx)
    frozen(ctx)
    static_conf(ctx)
    borrow(ctx)


def unsafe_inventory(ctx):
    total = 0
    for crate in ('serde_avro_fast', 'serde_avro_derive', 'serde_avro_derive_macros'):
        f = ctx.facts(crate)
        per = {}
        for u in f.unsafe_blocks:
            if not u['user'] or u['expansion']:
                continue
            per[strip_generics(u['enclosing'])] = per.get(strip_generics(u['enclosing']), 0) + 1
        for fn_, n in sorted(per.items()):
            total += n
            want = UNSAFE_BLOCKS.get(fn_) if crate == 'serde_avro_fast' else None
            ctx.ob('UNSAFE', 'blocks/%s/%s' % (crate, short_fn(fn_)), want is not None and n <= want, None,
                   '%d unsafe block(s) in %s::%s (reviewed: %s)' % (n, crate, fn_, want if want is not None else 'none - NOT a reviewed unsafe site'))
        ufns = {strip_generics(p) for p, fn_ in f.fns.items() if fn_['unsafe']}
        extra = ufns - (UNSAFE_FNS if crate == 'serde_avro_fast' else set())
        ctx.ob('UNSAFE', 'fns/%s' % crate, not extra, None, 'unsafe fns in %s: %s%s' % (crate, sorted(ufns), ('; unreviewed: %s' % sorted(extra)) if extra else ''))
        uimpls = {(i['trait'], strip_generics(i['self_ty'])) for i in f.impls if i.get('unsafe') and not (i.get('span') or {}).get('exp')}
        extra = uimpls - (UNSAFE_IMPLS if crate == 'serde_avro_fast' else set())
        ctx.ob('UNSAFE', 'impls/%s' % crate, not extra, None, 'hand-written unsafe impls in %s: %s%s' % (crate, sorted(uimpls), ('; unreviewed: %s' % sorted(extra)) if extra else ''))
        # unsafe operations per function
        for b in f.body_list:
            ops = set()
            for bb, t in b.calls():
                if t.get('unsafe_callee') and not (t.get('span') or {}).get('exp'):
                    c = strip_generics(cname(t))
                    ops.add(c.rsplit('::', 2)[-2] + '::' + c.rsplit('::', 1)[-1] if c.count('::') >= 1 and c.rsplit('::', 2)[-2][:1].isupper() else c.rsplit('::', 1)[-1])
            # raw pointer writes / reads
            raw = 0
            for bb in b.live_blocks():
                for s in b.stmts(bb):
                    if 'assign' in s and (s.get('span') or {}).get('exp') is None:
                        for pl in [s['assign']] + ([s['rv']['place']] if 'place' in s['rv'] else []):
                            if pl.get('p') and pl['p'][0] == '*' and b.local_ty(pl['l']).startswith('*'):
                                raw += 1
            fl = fn_label(b)
            # raw-pointer derefs outside unsafe blocks are compiler-generated (Box deref lowering): safe code cannot write them
            has_unsafe = fl in per or fl in {strip_generics(p) for p, fn_ in f.fns.items() if fn_['unsafe']}
            if not has_unsafe:
                raw = 0
            if ops or raw:
                ctx.touched(b)
                want = UNSAFE_OPS.get(fl) if crate == 'serde_avro_fast' else None
                if want is None and not ops and raw:
                    want = set() if fl == TF else None
                ok = want is not None and ops <= want and (raw == 0 or fl == TF)
                ctx.ob('UNSAFE', 'ops/%s/%s' % (crate, short_fn(fl)), ok, short_loc(b.span),
                       'unsafe operations in %s: calls %s, raw-pointer place accesses %d (reviewed calls: %s)' % (fl, sorted(ops), raw, sorted(want) if want is not None else 'none'))
    ctx.floor('UNSAFE', 'unsafe blocks examined', total, 7)
    # transmute / unchecked conversions anywhere
    f = ctx.f
    bad = []
    for b in f.body_list:
        for bb, t in b.calls():
            c = cname(t)
            if (t.get('span') or {}).get('exp'):
                continue
            if any(k in c for k in ('mem::transmute', 'from_utf8_unchecked', 'get_unchecked', 'from_raw_parts', 'unwrap_unchecked', 'Vec::<T, A>::set_len', 'MaybeUninit', 'assume_init', 'ptr::read', 'ptr::write', 'ManuallyDrop')):
                bad.append('%s in %s' % (strip_generics(c).rsplit('::', 1)[-1], short_fn(fn_label(b))))
    ctx.ob('UNSAFE', 'no-unchecked-primitives', not bad, None, 'transmute / *_unchecked / from_raw_parts / set_len / MaybeUninit uses: %s' % (bad or 'none'))


def sites(ctx):
    f = ctx.f
    for nm in ('Schema::root', 'Schema::root_with_fake_static_lifetime'):
        b = fn_by_label(f, SR + nm)
        ok = False
        det = 'not found'
        if b is not None:
            ctx.touched(b)
            nc = [(bb, t) for bb, t in b.calls() if strip_generics(cname(t)).endswith('NodeRef::new')]
            if len(nc) == 1:
                po = origin(b, nc[0][1]['args'][0])
                from_ptr = any(cname(c).endswith('Vec::<T, A>::as_ptr') for c in po.calls) and not po.has_arith()
                recv = [c for c in po.calls if cname(c).endswith('Vec::<T, A>::as_ptr')]
                on_nodes = bool(recv) and 'nodes' in origin(b, recv[0]['args'][0]).fields and origin(b, recv[0]['args'][0]).params() == {1}
                # non-empty assertion dominates: switch on is_empty whose true edge diverges (panics)
                guarded = False
                for d, si, taken in dominating_switches(b, nc[0][0]):
                    if si.get('kind') != 'enum':
                        so = origin(b, si['op'])
                        if 'is_empty' in so.flags and 'nodes' in so.fields:
                            others = [s for s in b.succs(d) if not b.dominates(s, nc[0][0])]
                            guarded = all(not [x for x in b.reachable_from(s) if b.term(x)['k'] == 'return'] for s in others)
                ok = from_ptr and on_nodes and guarded
                det = 'pointer = self.nodes.as_ptr(): %s/%s; dominated by the non-empty assertion (other edge diverges): %s' % (from_ptr, on_nodes, guarded)
        ctx.ob('SITES', nm, ok, short_loc(b.span) if b else None, det)
    tf = fn_by_label(f, TF)
    if tf is None:
        ctx.ob('SITES', 'freeze', False, None, 'TryFrom<SchemaMut> for Schema not found')
        return
    ctx.touched(tf, len(tf.calls()))
    k2r = f.bodies.get(tf.id + '::{closure#1}')
    ok = False
    det = 'key_to_ref closure not found'
    if k2r is not None:
        ctx.touched(k2r)
        ad = [(bb, t) for bb, t in k2r.calls() if cname(t).endswith('mut_ptr::<impl *mut T>::add')]
        if len(ad) == 1:
            bo, io = origin(k2r, ad[0][1]['args'][0]), origin(k2r, ad[0][1]['args'][1])
            base = any(cname(c).endswith('Vec::<T, A>::as_mut_ptr') for c in bo.calls) and 'upvar' in bo.flags and not bo.has_arith()
            idx = 'idx' in io.fields and io.params() == {2} and not io.has_arith()
            g_ok = False
            for g in cmp_guards(k2r, ad[0][0]):
                if g['op'] == 'Lt' and 'idx' in g['l'].fields and 'upvar' in g['r'].flags and 'len' in g['r'].flags and 'nodes' in g['r'].fields:
                    g_ok = all(all_paths_err(k2r, s) for s in g['other'])
            ok = base and idx and g_ok
            det = 'start pointer = ret.nodes.as_mut_ptr(): %s; offset = key.idx: %s; dominated by idx < ret.nodes.len() with Err otherwise: %s' % (base, idx, g_ok)
    ctx.ob('SITES', 'key_to_ref', ok, short_loc(k2r.span) if k2r else None, det)
    # vector created with exactly safe.nodes.len() initialised placeholders
    okc = False
    for bb in sorted(tf.live_blocks()):
        for s in tf.stmts(bb):
            if 'assign' in s and s['rv']['k'] == 'agg' and s['rv'].get('adt') == SR.rstrip(':') + '::Schema' or ('assign' in s and s['rv']['k'] == 'agg' and s['rv'].get('adt') == 'schema::self_referential::Schema'):
                names = deep_call_names(tf, s['rv']['ops'][s['rv']['fields'].index('nodes')])
                flds = deep_fields(tf, s['rv']['ops'][s['rv']['fields'].index('nodes')], 4)
                okc = any(n_.endswith('Iterator::collect') for n_ in names) and any(n_.endswith('Iterator::map') for n_ in names) and 'nodes' in flds and any('len' in n_ for n_ in names)
    ctx.ob('SITES', 'nodes-preallocated', okc, short_loc(tf.span), 'Schema.nodes = (0..safe.nodes.len()).map(|_| placeholder).collect(): %s' % okc)
    # never borrowed mutably / assigned elsewhere
    muts = []
    for b in f.body_list:
        for bb in sorted(b.live_blocks()):
            if b.is_cleanup(bb):
                continue
            for s in b.stmts(bb):
                if 'assign' not in s:
                    continue
                rv = s['rv']
                if rv['k'] in ('ref', 'rawptr') and rv.get('mut') and any(isinstance(e, dict) and e.get('f') == 'nodes' and e.get('of') == 'schema::self_referential::Schema' for e in rv['place'].get('p', [])):
                    muts.append(fn_label(b))
                if any(isinstance(e, dict) and e.get('f') == 'nodes' and e.get('of') == 'schema::self_referential::Schema' for e in s['assign'].get('p', [])):
                    muts.append(fn_label(b) + ' (assignment)')
    ctx.ob('SITES', 'nodes-never-mutated-outside-freeze', set(muts) <= {TF} and len(muts) <= 1, None,
           'mutable borrows / assignments of Schema.nodes: %s (reviewed: one as_mut_ptr() in freeze)' % (muts or 'none'))
    # init loop: one slot per source node, pointer advanced by 1
    adds = [(bb, t) for bb, t in tf.calls() if cname(t).endswith('mut_ptr::<impl *mut T>::add')]
    ok = len(adds) == 2 and all(const_int(t['args'][1]) == 1 for bb, t in adds)
    src = [(bb, t) for bb, t in tf.calls() if (t.get('callee') or '').endswith('IntoIterator::into_iter')]
    src_ok = any('nodes' in origin(tf, t['args'][0]).fields and origin(tf, t['args'][0]).params() == {1} for bb, t in src)
    ctx.ob('SITES', 'init-loop', ok and src_ok, short_loc(tf.span), 'two pointer walks advancing by 1 (init, lookup tables): %s; the init loop iterates safe.nodes itself: %s' % (ok, src_ok))
    # every index range walked in freeze (placeholder creation, lookup phase) ends at nodes.len() - never at a capacity,
    # a constant or a computed bound: the raw-pointer walks stay inside the initialised slots
    rng = []
    for bb in sorted(tf.live_blocks()):
        if tf.is_cleanup(bb):
            continue
        for s_ in tf.stmts(bb):
            if 'assign' in s_ and s_['rv']['k'] == 'agg' and (s_['rv'].get('adt') or '').endswith('ops::range::Range') and len(s_['rv']['ops']) == 2:
                so, eo = origin(tf, s_['rv']['ops'][0]), origin(tf, s_['rv']['ops'][1])
                good = so.consts() == {0} and 'len' in eo.flags and 'nodes' in eo.fields and not eo.has_arith() and \
                    bool(eo.calls) and call_matches(eo.calls[0], ['Vec::<T, A>::len']) and not any('capacity' in cname(c) for c in eo.calls)
                rng.append(good)
    # `0..=(len - 1)` is the same walk (len > 0 is asserted before): RangeInclusive::new(0, nodes.len() - 1)
    for bb, t in tf.calls():
        if strip_generics(cname(t)).endswith('RangeInclusive::new') and len(t['args']) == 2:
            so, eo = origin(tf, t['args'][0]), origin(tf, t['args'][1])
            ar = {x for x in eo.flags if x.startswith('arith:')}
            good = so.consts() == {0} and 'len' in eo.flags and 'nodes' in eo.fields and ar <= {'arith:Sub', 'arith:SubWithOverflow'} and bool(ar) and \
                {c for c in eo.consts() if isinstance(c, int)} <= {1} and not any('capacity' in cname(c) for c in eo.calls)
            rng.append(good)
    ctx.ob('SITES', 'ranges-end-at-len', len(rng) >= 2 and all(rng), short_loc(tf.span),
           'index ranges built in freeze: %d, each 0..nodes.len(): %s' % (len(rng), rng))
    # phase 2 / lookup builder never reads per_type_lookup
    reads = []
    for b in f.body_list:
        if 'union_variants_per_type_lookup::PerTypeLookup' in b.id and '::new' in b.id:
            for bb in b.live_blocks():
                for s in b.stmts(bb):
                    if 'assign' in s:
                        for pl in [s['assign']] + ([s['rv']['place']] if 'place' in s['rv'] else []) + [op_place(s['rv'][k]) for k in ('op', 'l', 'r') if isinstance(s['rv'].get(k), dict) and op_place(s['rv'][k])]:
                            if any(isinstance(e, dict) and e.get('f') == 'per_type_lookup' for e in pl.get('p', [])):
                                reads.append(fn_label(b))
    ctx.ob('SITES', 'lookup-builder-never-reads-lookups', not reads, None, 'PerTypeLookup::new touches a per_type_lookup field: %s' % (reads or 'never'))
    # no `&mut` into the node storage is live across a call that materialises `&SchemaNode`s of arbitrary nodes (the
    # lookup builder dereferences each variant's NodeRef - and, for graphs built from nodes, a union may list itself):
    # a shared reference to a whole node while one of its fields is mutably borrowed is an aliasing violation
    derefers = node_derefers(f)

    def mentions(x, l):
        if isinstance(x, dict):
            if x.get('l') == l and ('p' in x or len(x) == 1):
                return True
            return any(mentions(v, l) for v in x.values())
        if isinstance(x, list):
            return any(mentions(v, l) for v in x)
        return False
    crossing = []
    n_mut = 0
    lk = [bb for bb, t in tf.calls() if not tf.is_cleanup(bb) and (t.get('resolved') or t.get('callee')) in derefers]
    for bb in sorted(tf.live_blocks()):
        if tf.is_cleanup(bb):
            continue
        for si_, s_ in enumerate(tf.stmts(bb)):
            if 'assign' not in s_ or s_['rv'].get('k') != 'ref' or not s_['rv'].get('mut'):
                continue
            pl = s_['rv']['place']
            if '*' not in pl.get('p', []) or 'self_referential::SchemaNode' not in (tf.local_ty(pl['l']) or '') or not (tf.local_ty(pl['l']) or '').startswith('*'):
                continue
            n_mut += 1
            m = s_['assign']['l']
            for L in lk:
                if L != bb and L not in tf.reachable_from(bb):
                    continue
                after = tf.reachable_from(tf.term(L)['target'], avoid=[bb]) if L != bb else tf.reachable_from(tf.term(L)['target'], avoid=[])
                used = [u for u in sorted(after) if not tf.is_cleanup(u) and
                        (any(mentions(st_, m) for k_, st_ in enumerate(tf.stmts(u)) if not (u == bb and k_ <= si_)) or mentions(tf.term(u), m))]
                if L == bb:
                    used = [u for u in used if u != bb]      # (coming round the loop re-creates the borrow first)
                if used:
                    crossing.append('%s borrowed at %s is used after the call at %s' % (tf.local_name(m) or '_%d' % m, short_loc(s_.get('span')), short_loc(tf.term(L).get('span'))))
    ctx.ob('SITES', 'no-mut-borrow-across-lookup-build', bool(lk) and n_mut >= 1 and not crossing, short_loc(tf.span),
           'mutable borrows into the node storage in freeze: %d; calls that dereference NodeRefs: %d; borrows live across such a call: %s' % (n_mut, len(lk), crossing or 'none'))
    # no NodeRef deref in freeze before the lookup phase; PerTypeLookup::new is called after the init loop finished
    derefs = [fn_label(b) for b in [tf] + f.closures_of(tf) for bb, t in b.calls() if strip_generics(cname(t)).endswith('NodeRef::as_ref') or (strip_generics(cname(t)).endswith('Deref>::deref') and 'NodeRef' in cname(t))]
    ln = [(bb, t) for bb, t in tf.calls() if strip_generics(cname(t)).endswith('PerTypeLookup::new')]
    nx = [(bb, t) for bb, t in tf.calls() if (t.get('callee') or '').endswith('Iterator::next')]
    after = False
    if len(ln) == 1 and nx:
        # dominated by the None edge of the init loop's next()
        for names, adt, oo, d_, oth in option_guards(tf, ln[0][0]):
            if 'None' in names and any((c.get('callee') or '').endswith('Iterator::next') for c in oo.calls):
                after = True
    ctx.ob('SITES', 'no-deref-during-init', not derefs and after, short_loc(tf.span),
           'NodeRef dereferences inside freeze: %s; lookup tables built only after the init loop ended: %s' % (derefs or 'none', after))
    # from_static only on true statics: callers are const contexts
    callers = {fn_label(b) for b in f.body_list for bb, t in b.calls() if strip_generics(cname(t)).endswith('NodeRef::from_static')}
    ctx.ob('SITES', 'from_static-callers', callers <= {'object_container_file_encoding::METADATA_SCHEMA'}, None, 'NodeRef::from_static is called from: %s (reviewed: the METADATA_SCHEMA constant)' % sorted(callers))


def node_derefers(f, depth=4):
    """crate functions that (transitively) dereference a NodeRef, i.e. materialise a `&SchemaNode`"""
    direct = set()
    calls = {}
    for b in f.body_list:
        cs = set()
        for bb, t in b.calls():
            c = strip_generics(cname(t))
            if c.endswith('NodeRef::as_ref') or (c.endswith('Deref>::deref') and 'NodeRef' in cname(t)) or (c.endswith('Deref::deref') and 'NodeRef' in ' '.join(t.get('arg_tys', []))):
                direct.add(b.id)
            cs.add(t.get('resolved') or t.get('callee') or '')
        calls[b.id] = cs
    out = set(direct)
    for _ in range(depth):
        grew = False
        for bid, cs in calls.items():
            owner = bid.split('::{closure#')[0]
            if bid not in out and cs & out:
                out.add(bid); grew = True
            if bid in out and owner not in out:
                out.add(owner); grew = True
        if not grew:
            break
    return out


def frozen(ctx):
    f = ctx.f
    bad = []
    for p, fn_ in f.fns.items():
        ins = ' | '.join(fn_.get('inputs', []))
        out = fn_.get('output', '')
        if '&mut schema::self_referential::Schema' in ins.replace("'a ", '').replace("'_ ", '') or re.search(r"&(?:'\w+ )?mut schema::self_referential::Schema\b", ins):
            bad.append('%s takes &mut Schema' % strip_generics(p))
        if re.search(r"&(?:'\w+ )?mut schema::self_referential::(SchemaNode|Union|Record|Enum|RecordField|Decimal)", out):
            bad.append('%s returns &mut into the node graph' % strip_generics(p))
    ctx.ob('FROZEN', 'no-mutable-access', not bad, None, 'functions with mutable access to a frozen schema: %s' % (bad or 'none'))
    meths = sorted({strip_generics(p).rsplit('::', 1)[1] for p in f.fns if strip_generics(p).startswith(SR + 'NodeRef::')})
    trait_impls = sorted({i['trait'].rsplit('::', 1)[1] for i in f.impls if strip_generics(i['self_ty']).startswith(SR + 'NodeRef') and i.get('trait')})
    ctx.ob('FROZEN', 'NodeRef-surface', set(meths) <= {'new', 'from_static', 'as_ref'} and set(trait_impls) <= {'Copy', 'Clone', 'Sync', 'Send', 'Deref', 'Debug'}, None,
           'NodeRef inherent methods %s, trait impls %s' % (meths, trait_impls))
    # interior mutability
    seen = set()
    todo = ['schema::self_referential::SchemaNode', 'schema::self_referential::Schema']
    hits = []
    refs = []
    while todo:
        a = todo.pop()
        if a in seen or a not in f.adts:
            continue
        seen.add(a)
        for v in f.adts[a]['variants']:
            for fl in v['fields']:
                ty = fl['ty']
                if any(k in ty for k in IMUT):
                    hits.append('%s.%s: %s' % (a.rsplit('::', 1)[1], fl['name'], ty))
                # what lives inside the node storage points at other nodes through NodeRef (a raw pointer), never
                # through `&SchemaNode`: freeze still writes into the storage (lookup tables, one union after another)
                # after such a reference would have been created, which invalidates it
                if re.search(r"&(?:'\w+ )?(?:mut )?schema::self_referential::(SchemaNode|Union|Record|RecordField|Enum|Decimal)\b", ty) and a != 'schema::self_referential::Schema':
                    refs.append('%s.%s: %s' % (a.rsplit('::', 1)[1], fl['name'], ty[:80]))
                for other in f.adts:
                    if other in ty and other not in seen:
                        todo.append(other)
    ctx.ob('FROZEN', 'no-interior-mutability', not hits and len(seen) >= 8, None, 'types reachable from SchemaNode/Schema: %d; interior mutability: %s' % (len(seen), hits or 'none'))
    ctx.ob('FROZEN', 'nodes-point-at-nodes-through-NodeRef-only', not refs and len(seen) >= 8, None,
           'plain references to nodes held inside the node storage: %s (types reachable from SchemaNode: %d)' % (refs or 'none', len(seen)))
    for tr in ('core::marker::Sync', 'core::marker::Send'):
        im = [i for i in f.impls if i.get('trait') == tr and strip_generics(i['self_ty']).startswith(SR + 'NodeRef')]
        ok = len(im) == 1 and any(re.search(r'\bT: (core::marker::)?Sync\b', p) for p in im[0]['predicates'])
        ctx.ob('FROZEN', '%s-requires-T-Sync' % tr.rsplit('::', 1)[1], ok, short_loc(im[0]['span']) if im else None, 'predicates: %s' % (im[0]['predicates'] if im else None))


def static_conf(ctx):
    f = ctx.f
    callers = {fn_label(b) for b in f.body_list for bb, t in b.calls() if strip_generics(cname(t)).endswith('Schema::root_with_fake_static_lifetime')}
    ctx.ob('STATIC', 'single-caller', callers == {RD + 'Reader::new_and_metadata'}, None, 'root_with_fake_static_lifetime is called from: %s' % sorted(callers))
    b = fn_by_label(f, RD + 'Reader::new_and_metadata')
    if b is None:
        ctx.ob('STATIC', 'anchor', False, None, 'Reader::new_and_metadata not found')
        return
    ctx.touched(b)
    call = [(bb, t) for bb, t in b.calls() if strip_generics(cname(t)).endswith('Schema::root_with_fake_static_lifetime')]
    agg = None
    for bb in sorted(b.live_blocks()):
        for s in b.stmts(bb):
            if 'assign' in s and s['rv']['k'] == 'agg' and s['rv'].get('adt') == RD + 'Reader':
                agg = (bb, s)
    ok = False
    det = 'call or Reader aggregate not found'
    if len(call) == 1 and agg:
        rv = agg[1]['rv']
        so = origin(b, rv['ops'][rv['fields'].index('schema')])
        ro = origin(b, call[0][1]['args'][0])
        # receiver derives (through Arc deref) from the same local that is moved into the `schema` field
        same = bool(so.atoms) and so.atoms <= ro.atoms | so.atoms and (so.atoms & ro.atoms or so.call_names() & ro.call_names())
        arc = any(cname(c).endswith('Arc::<T>::new') for c in so.calls) or any(a[0] == 'call' and a[1].endswith('Arc::<T>::new') for a in so.atoms)
        # the fake-static root flows only into reader_state
        uses = []
        dl = call[0][1]['dest']['l']
        for bb2 in b.live_blocks():
            for s2 in b.stmts(bb2):
                if 'assign' in s2:
                    ops_ = [s2['rv'].get(k) for k in ('op', 'l', 'r')] + list(s2['rv'].get('ops', []))
                    for o_ in ops_:
                        p_ = op_place(o_) if isinstance(o_, dict) else None
                        if p_ is not None and p_['l'] == dl:
                            uses.append(('stmt', bb2))
            t2 = b.term(bb2)
            if t2['k'] == 'call':
                for a in t2['args']:
                    p_ = op_place(a)
                    if p_ is not None and p_['l'] == dl:
                        uses.append((strip_generics(cname(t2)), bb2))
        flows = {u[0] for u in uses}
        into_state = 'reader_state' in rv['fields'] and any(strip_generics(cname(c)).endswith('DeserializerConfig::from_schema_node') for c in origin(b, rv['ops'][rv['fields'].index('reader_state')]).calls + [])
        names = deep_call_names(b, rv['ops'][rv['fields'].index('reader_state')])
        into_state = any(strip_generics(n_).endswith('DeserializerConfig::from_schema_node') for n_ in names)
        ok = same and arc and into_state and flows <= {'de::DeserializerConfig::from_schema_node', 'stmt'}
        det = 'schema field is the Arc the root was taken from: %s/%s; the root flows only into the reader state (%s): %s' % (same, arc, sorted(flows), into_state)
    ctx.ob('STATIC', 'root-stored-next-to-its-arc', ok, short_loc(b.span), det)
    # Reader.schema never assigned elsewhere
    n = 0
    for x in f.body_list:
        for bb in x.live_blocks():
            for s in x.stmts(bb):
                if 'assign' in s and any(isinstance(e, dict) and e.get('f') == 'schema' and e.get('of') == RD + 'Reader' for e in s['assign'].get('p', [])):
                    n += 1
                if 'assign' in s and s['rv']['k'] in ('ref',) and s['rv'].get('mut') and any(isinstance(e, dict) and e.get('f') == 'schema' and e.get('of') == RD + 'Reader' for e in s['rv']['place'].get('p', [])):
                    n += 1
    ctx.ob('STATIC', 'schema-field-never-reassigned', n == 0, None, '%d assignment(s) / mutable borrow(s) of Reader.schema' % n)
    sc = [fn_ for p, fn_ in f.fns.items() if strip_generics(p) == RD + 'Reader::schema']
    ctx.ob('STATIC', 'schema-exposed-by-shared-ref', bool(sc) and sc[0]['output'].startswith('&') and 'mut' not in sc[0]['output'].split('Arc')[0], None, 'Reader::schema returns %s' % (sc[0]['output'] if sc else None))
    a = f.adts.get(RD + 'Reader')
    order = [x['name'] for x in a['variants'][0]['fields']] if a else []
    ctx.ob('STATIC', 'schema-dropped-last', bool(order) and order[-1] == 'schema' and order[0] == 'reader_state' and all(x['vis'] != 'pub' for x in a['variants'][0]['fields']), None,
           'field order of Reader: %s (fields drop in declaration order; all private)' % order)
    priv = all(f.adts[n_]['vis'] != 'pub' for n_ in (RD + 'ReaderState', RD + 'decompression::DecompressionState', 'schema::self_referential::NodeRef', 'schema::self_referential::SchemaNode') if n_ in f.adts)
    ctx.ob('STATIC', 'state-types-private', priv, None, 'ReaderState / DecompressionState / NodeRef / SchemaNode are not public: %s' % priv)
    leaks = [strip_generics(p) for p, fn_ in f.fns.items() if fn_.get('reachable') and ('NodeRef<' in ' '.join(fn_.get('inputs', [])) + fn_.get('output', '') or 'self_referential::SchemaNode<' in ' '.join(fn_.get('inputs', [])) + fn_.get('output', ''))]
    ctx.ob('STATIC', 'no-public-NodeRef', not leaks, None, 'publicly reachable functions mentioning NodeRef / frozen SchemaNode: %s' % (leaks or 'none'))
    # DeserializerConfig<'static> never leaves the reader: no public fn of the reader returns a DeserializerConfig / DeserializerState
    leaks2 = [strip_generics(p) for p, fn_ in f.fns.items() if fn_.get('reachable') and strip_generics(p).startswith(RD) and ('DeserializerConfig<' in fn_.get('output', '') or 'DeserializerState<' in fn_.get('output', ''))]
    ctx.ob('STATIC', 'reader-keeps-its-config', not leaks2, None, 'public reader functions returning a deserializer config/state: %s' % (leaks2 or 'none'))


def borrow(ctx):
    f = ctx.f
    rel = []
    for i in f.impls:
        iid = i['id']
        if not (iid.startswith('de::') or iid.startswith('<de::')):
            continue
        for p in i['predicates']:
            if re.search(r"'\w+: '\w+", p):
                rel.append('%s: %s' % (strip_generics(iid)[:80], p))
    ctx.ob('BORROW', 'no-lifetime-relation-in-de', not rel, None, 'impls in de:: with an outlives relation between lifetimes: %s' % (rel or 'none'))
    vb = sorted({short_fn(fn_label(b)) for b in f.body_list if not b.j.get('from_expansion') for bb, t in b.calls()
                 if (t.get('callee') or '') in ('serde_core::de::Visitor::visit_borrowed_str', 'serde_core::de::Visitor::visit_borrowed_bytes')
                 and (fn_label(b).startswith(('de::', '<de::', 'object_container', 'single_object')))})
    ctx.ob('BORROW', 'visit_borrowed-callers', set(vb) == {'<BytesVisitor as ReadVisitor>::visit_borrowed', '<StringVisitor as ReadVisitor>::visit_borrowed'}, None,
           'visit_borrowed_str/bytes are called from: %s' % vb)
    rvb = sorted({short_fn(fn_label(b)) for b in f.body_list for bb, t in b.calls() if (t.get('callee') or '').endswith('ReadVisitor::visit_borrowed')})
    ctx.ob('BORROW', 'ReadVisitor::visit_borrowed-callers', set(rvb) <= {'<SliceRead as ReadSlice>::read_slice'} and bool(rvb), None, 'ReadVisitor::visit_borrowed is called from: %s' % rvb)
    # schema strings reach visitors only through visit_str (not borrowed): symbols / field names
    n = 0
    for b in f.body_list:
        if not (b.id.startswith('de::') or b.id.startswith('<de::')):
            continue
        for bb, t in b.calls():
            if (t.get('callee') or '') in ('serde_core::de::Visitor::visit_borrowed_str', 'serde_core::de::Visitor::visit_borrowed_bytes'):
                o = origin(b, t['args'][1])
                if o.fields & {'symbols', 'name', 'fully_qualified_name'}:
                    n += 1
    ctx.ob('BORROW', 'schema-strings-not-borrowed', n == 0, None, '%d borrowed visit(s) of a schema-owned string' % n)


# ---------------------------------------------------------------------------
# thorough tier: compile-fail witnesses

def thorough(ctx, repo):
    wdir = os.path.join(os.path.dirname(os.path.dirname(os.path.dirname(os.path.abspath(__file__)))), 'witness')
    if not os.path.isdir(wdir):
        return {}
    t0 = time.time()
    shutil.copy(os.path.join(repo, 'Cargo.lock'), os.path.join(wdir, 'Cargo.lock'))
    env = dict(os.environ, CARGO_NET_OFFLINE='true', SAVF_REPO=repo, CARGO_TARGET_DIR=os.path.join(os.path.dirname(wdir), '.work', 'witness-target'))
    # the harness path-depends on $SAVF_REPO through a generated Cargo.toml
    with open(os.path.join(wdir, 'Cargo.toml.in')) as fh:
        tmpl = fh.read()
    with open(os.path.join(wdir, 'Cargo.toml'), 'w') as fh:
        fh.write(tmpl.replace('@REPO@', repo))
    r = subprocess.run(['cargo', '+nightly', 'test', '--doc', '--offline'], cwd=wdir, stdout=subprocess.PIPE, stderr=subprocess.STDOUT, text=True, env=env)
    out = r.stdout
    res = re.findall(r'^test (\S.*?) \.\.\. (ok|FAILED|failed)', out, re.M)
    n_ok = 0
    for name, st in res:
        m = re.search(r'(\w+) \(line \d+\)( - compile fail)?', name)
        label = (m.group(1) if m else name).strip()
        cf = ' - compile' in name
        ok = st == 'ok'
        n_ok += ok
        ctx.ob('WITNESS', '%s/%s' % (label, 'rejects' if cf else 'accepts'), ok, None,
               '%s doctest %s: %s' % ('compile_fail' if cf else 'compiling twin', name, st))
    if not res:
        ctx.ob('WITNESS', 'harness', False, None, 'witness harness produced no test results:\n' + out[-1500:])
    ctx.floor('WITNESS', 'witness doctests', len(res), 10)
    return {'witness': {'doctests': len(res), 'passed': n_ok, 'wall_s': round(time.time() - t0, 1)}}
