"""C01 - datum round trip (structural part).

  WIREPAIR  for every schema kind the wire shapes the serializer can emit equal the shapes the deserializer accepts,
            and both equal the Avro table (writer's and reader's tables agree)
  NAMEPAIR  the variant name the decoder proposes for a union branch of kind K (enum-as-union) is a name under which
            the encoder's per-name lookup registers K
  CAPREG    every (kind, lookup key) the serializer can dispatch through a union is registered in the lookup
  BORROW    slice reads reach visit_borrowed, and the string/bytes visitors reach visit_borrowed_str/bytes
  LEPAIR    to_le_bytes (ser) <-> from_le_bytes (de) for float and double
            ... and the unit variant "Null" the decoder presents a null branch as selects the null branch when
            serializing                                                                         (found F24)
  DECF64    an f64 presented for a decimal is converted through its shortest printed representation, not from_f64
            (found F33); CAPREG: a registered (kind, key) has an arm (no reviewed "yields Err" exceptions: F34)
            decimal text is parsed exactly (from_str_exact: F40); every integer hint reads a decimal as an integer (F44);
            what a name designates follows a three-level precedence: full names of named types > built-in type names >
            short names of namespaced named types (F39, F45); trailing zeroes do not make decimal text inexact (F46)
            a decimal over a fixed registers "Decimal" below type names: the decoder names it by its fixed (F48); text that
            is nothing but zeroes after the dot is zero, not an empty retry (F49)
  ENUMSYM   an Avro enum reaches the caller by symbol text through every hint a Rust enum / identifier / string uses
            (identifier, any, str, string), never by bare position: the serializer resolves unit variants by name
  shared    DECSCALE + FREEZEMAP (c02), SLICE / VARINT / FIXEDBUF reading primitives (c11), POOLCLEAN (c14: pooled
            scratch buffers come back empty), resolution rules (c07): necessary for round trips
  NAMEPAIR  ... a decimal is named by what it is written over: over a fixed by the fixed's fullname, over bytes "Decimal"
            (a decoder that calls both "Decimal" sends the fixed one back into the bytes branch); under a `null` schema
            nothing is written, under Ok, only for the unit variant that stands for null (shared with C02)
  DECSTR    what is trimmed is the character '0'; the retried text keeps the dot and what is left of the fraction
  shared    MAPKIND (c02: step, key, value), DURATION + DECDECODE (c03: what the duration / decimal readers present)
It does NOT decide value equality of round trips.
"""
from ..lib import *
from ..sermatrix import matrix as ser_matrix, KINDS
from ..dematrix import *
from ..unionreg import registrations, KEY_ADT
from ..core import short_loc, const_str
from .c03 import de_matrix, fn_by_label

EXPLANATION = ("Datum round trip, structural part: the serializer's and the deserializer's dispatch matrices (from MIR) agree "
               "kind by kind with each other and with the Avro table; names proposed by the decoder for union branches are "
               "registered by the encoder's lookup; every union dispatch the serializer can make is registered; borrowed "
               "visits exist on the slice path. Value equality of round trips is not decided.")

SPEC = {
    'Null': {'NONE'}, 'Boolean': {'F1'},
    'Int': {'V32'}, 'Date': {'V32'}, 'TimeMillis': {'V32'},
    'Long': {'V64'}, 'TimeMicros': {'V64'}, 'TimestampMillis': {'V64'}, 'TimestampMicros': {'V64'},
    'Float': {'F4LE'}, 'Double': {'F8LE'},
    'Bytes': {'LD'}, 'String': {'LD'}, 'Uuid': {'LD'},
    'Array': {'BLK'}, 'Map': {'BLK'}, 'Union': {'DISC'}, 'Record': {'REC'},
    'Enum': {'VIDX'}, 'Fixed': {'SIZED'}, 'Decimal': {'DEC'}, 'BigDecimal': {'DEC'}, 'Duration': {'F12'},
}


def ser_class(kind, tok):
    k = tok[0]
    if k == 'VARINT':
        if kind == 'Enum':
            return 'VIDX'
        return 'V32' if tok[1] in ('i32', 'u32') else 'V64' if tok[1] in ('i64', 'u64') else 'V?' + tok[1]
    if k == 'RAW':
        if tok[1] == 1:
            return 'F1'
        if tok[1] == 4 and tok[2] == 'le':
            return 'F4LE'
        if tok[1] == 8 and tok[2] == 'le':
            return 'F8LE'
        if tok[1] is None:
            return 'SIZED' if kind == 'Fixed' else 'F12' if kind == 'Duration' else 'RAW?'
        return 'RAW%s%s' % (tok[1], tok[2] or '')
    if k == 'LENDELIM':
        return 'LD'
    if k == 'DECIMAL':
        return 'DEC'
    if k in ('UNION', 'BYNAME'):
        return 'DISC'
    if k == 'BLOCKS':
        return 'BLK'
    if k == 'SEQ':
        return {'array': 'BLK', 'duration': 'F12', 'buffered_bytes': 'LD', 'bytes': 'LD', 'fixed': 'SIZED'}.get(tok[1], 'SEQ?' + tok[1])
    if k == 'REC':
        return {'record': 'REC', 'map': 'BLK', 'duration': 'F12'}.get(tok[1], 'REC?' + tok[1])
    return None


def de_class(kind, tok, has_le):
    k = tok[0]
    if k == 'VARINT':
        if kind == 'Enum':
            return 'VIDX'
        return 'V32' if tok[1] in ('i32', 'u32') else 'V64' if tok[1] in ('i64', 'u64') else 'V?' + tok[1]
    if k == 'FIXED':
        n = tok[1]
        if n == 4:
            return 'F4LE' if has_le else 'F4?'
        if n == 8:
            return 'F8LE' if has_le else 'F8?'
        if n == 12:
            return 'F12'
        return 'F%s' % n
    if k == 'BOOL':
        return 'F1'
    if k == 'LENDELIM':
        return 'LD'
    if k == 'SIZED':
        return 'SIZED'
    if k == 'DECIMAL':
        return 'DEC'
    if k in ('DISC', 'DISCRAW'):
        return 'DISC'
    if k == 'BLOCKS':
        return 'BLK'
    if k == 'ENUMSTR':
        return 'VIDX'
    if k == 'ACCESS' and tok[1] == 'RecordMapAccess':
        return 'REC'
    return None


def run(ctx):
    f = ctx.f
    # the decimal writer's scale / sign-byte / fit rules are necessary for decimals to round-trip (shared with C02)
    from .c02 import decscale_rule, freezemap_rule
    decscale_rule(ctx)
    freezemap_rule(ctx)
    # pooled scratch buffers come back empty: stale bytes in a reused configuration break the round trip of the next
    # value (shared with C02 / C13 / C14 / C15)
    from .c14 import pool_rule
    pool_rule(ctx)
    # a struct round-trips whatever order its fields are presented in: the record cursor / side-buffer pairing of the
    # serializer (shared with C13, which owns it)
    from . import c13
    sv_ = c13.fn_by_label(f, c13.SM + 'serialize_record_value')
    if sv_ is not None:
        c13.pairing(ctx, sv_)
    from .c07 import resolution_rules
    resolution_rules(ctx)
    # the reading primitives hand over exactly the bytes of the value (shared with C03 / C11)
    from . import c11
    c11.slice_rule(ctx)
    c11.varint_rule(ctx)
    c11.fixedbuf_rule(ctx)
    # a map entry is written as step, key, value whichever way it is presented (shared with C02)
    from .c02 import mapkind_rule
    mapkind_rule(ctx)
    # what the duration / decimal readers present is what was written (shared with C03, which owns them)
    from . import c03
    c03.duration_rule(ctx)
    c03.decimal_decode_rule(ctx)
    sm = ser_matrix(f)
    dm = de_matrix(f)
    ser_shapes = {k: set() for k in KINDS}
    ser_null_ok = False
    for name, (b, cells) in sm.items():
        ctx.touched(b)
        if name == 'serialize_lookup_union_variant_by_name':
            continue
        for variants, r, toks in cells:
            for kind in variants:
                cls = {ser_class(kind, t[0]) for t in toks} - {None}
                ser_shapes[kind] |= cls
                if kind == 'Null' and not toks and ok_return_blocks(b, r.blocks):
                    ser_shapes['Null'].add('NONE')
    de_shapes = {k: set() for k in KINDS}
    for name, (b, cells) in dm.items():
        ctx.touched(b)
        for variants, r, toks in cells:
            le = False
            for tok, tb, tbb, t in toks:
                if tok[0] == 'VISIT' and tok[1] in ('f32', 'f64') and tb is b:
                    o = origin(b, t['args'][1])
                    le = 'from_le' in o.flags and 'from_be' not in o.flags
            for kind in variants:
                cls = {de_class(kind, t[0], le) for t in toks} - {None}
                if kind in ('Decimal', 'BigDecimal') and name == 'deserialize_ignored_any':
                    continue      # ignored decimals are taken as raw bytes (judged by C03 / C12), nothing is decoded
                de_shapes[kind] |= cls
                if kind == 'Null' and any(t[0][0] == 'VISIT' and t[0][1] in ('unit', 'none') for t in toks) and not cls:
                    de_shapes['Null'].add('NONE')
    # ignored_any for Float/Double forwards; Float in ignored has no from_le: handled since forwards produce no tokens
    for kind in KINDS:
        s, d, spec = ser_shapes[kind], de_shapes[kind], SPEC[kind]
        ctx.ob('WIREPAIR', kind, s == spec and d == spec, None,
               'kind %s: serializer emits %s, deserializer accepts %s, Avro table says %s' % (kind, sorted(s), sorted(d), sorted(spec)))
    ctx.floor('WIREPAIR', 'kinds', len(KINDS), 23)

    name_pair(ctx)
    cap_reg(ctx, sm)
    borrow(ctx)
    enum_presentation_rule(ctx, dm)
    decimal_from_f64_rule(ctx)
    decimal_exact_parse_rule(ctx)
    decimal_integer_hints_rule(ctx, dm)
    from .c03 import newtype_rule
    newtype_rule(ctx)


def decimal_from_f64_rule(ctx):
    """an f64 presented for a decimal is converted through its shortest decimal representation (the digits `{}` prints,
    which parse back to the same f64), not through a binary expansion: `from_f64(4194304.23)` is 4194304.230000001 - a
    number the caller never had, which a big-decimal then carries and a decimal(_, 2) has to refuse or round"""
    f = ctx.f
    b = None
    for x in f.body_list:
        if x.name == 'serialize_f64' and x.j['kind'] != 'closure' and 'DatumSerializer' in (x.j.get('self_ty') or ''):
            b = x
    if b is None:
        ctx.ob('DECF64', 'anchor', False, None, 'DatumSerializer::serialize_f64 not found')
        return
    ctx.touched(b)
    fam = [b] + f.closures_of(b)
    # helpers of the serializer module that the arms may go through
    helpers = []
    frontier = list(fam)
    for _ in range(3):      # helpers of helpers (f64_to_decimal -> str_to_decimal)
        nxt = [x for x in f.body_list if x.id.startswith('ser::serializer::') and x not in helpers and x not in fam and
               any(cname(t) == x.id or (t.get('resolved') or '') == x.id for y in frontier for bb, t in y.calls())]
        helpers += nxt
        frontier = nxt + [c for x in nxt for c in f.closures_of(x)]
    helpers += [c for x in list(helpers) for c in f.closures_of(x)]
    inexact = [fn_label(x) for x in fam + helpers for bb, t in x.calls() if not x.is_cleanup(bb) and (t.get('callee') or '').endswith(('FromPrimitive::from_f64', 'Decimal::from_f64_retain', 'TryFrom::try_from')) and
               ('f64' in ' '.join(t.get('arg_tys', [])) )]
    parsed = any((t.get('callee') or '').endswith(('str::<impl str>::parse', 'FromStr::from_str', 'Decimal::from_str_exact')) and 'Decimal' in ' '.join(t.get('substs', []) + [x.local_ty((t.get('dest') or {}).get('l', 0)) or '', t.get('callee') or ''])
                 for x in fam + helpers for bb, t in x.calls() if not x.is_cleanup(bb))
    ctx.ob('DECF64', 'shortest-representation', not inexact and parsed, short_loc(b.span),
           'f64 -> decimal through a binary expansion (from_f64 / try_from): %s; through the printed shortest representation (parse): %s' % (sorted(set(inexact)) or 'no', parsed))


def decimal_integer_hints_rule(ctx, dm=None):
    """the union lookup sends integers of every width to decimal branches (Integer4, Integer8, Integer keys), so every integer
    hint must read a decimal back as an integer: the Decimal / BigDecimal cell of each deserialize_<int> reaches the decimal
    reader through an integer-hinted method, not through deserialize_any (which presents a decimal as text)"""
    f = ctx.f
    dm = dm if dm is not None else de_matrix(f)

    def ends_in_any(name, kind, depth=0):
        if name == 'deserialize_any':
            return True
        if name not in dm or depth > 3:
            return True          # no match on the node at all: everything goes to deserialize_any
        b, cells = dm[name]
        for variants, r, toks in cells:
            if kind in variants:
                fw = [t[0][1] for t in toks if t[0][0] == 'FWD']
                if any(t[0][0] == 'DECIMAL' for t in toks):
                    return False
                if len(fw) == 1:
                    return ends_in_any(fw[0], kind, depth + 1)
                return True
        return True
    bad = []
    for hint in ('i8', 'i16', 'i32', 'i64', 'u8', 'u16', 'u32', 'u64'):
        for kind in ('Decimal', 'BigDecimal'):
            if ends_in_any('deserialize_' + hint, kind):
                bad.append('%s/%s' % (hint, kind))
    ctx.ob('WIREPAIR', 'decimal-integer-hints', not bad, None,
           'integer hints under which a decimal is presented as text instead of an integer: %s' % (bad or 'none'))


def decimal_exact_parse_rule(ctx):
    """text presented for a decimal is parsed exactly or refused: `str::parse::<Decimal>()` (FromStr) silently ROUNDS what has
    more than 28 fractional digits ("0.00000000000000000000000000001" becomes 0), before any check of the scale can see
    it; `Decimal::from_str_exact` errors instead"""
    f = ctx.f
    rounding, exact = [], 0
    for x in f.body_list:
        if not x.id.startswith(('ser::', '<ser::')):
            continue
        for bb, t in x.calls():
            if x.is_cleanup(bb):
                continue
            c = t.get('callee') or ''
            tys = ' '.join(t.get('substs', []) + [x.local_ty((t.get('dest') or {}).get('l', 0)) or ''])
            if c.endswith(('str::<impl str>::parse', 'FromStr::from_str')) and 'rust_decimal' in tys:
                rounding.append('%s at %s' % (short_fn(fn_label(x)), short_loc(t.get('span'))))
            if c.endswith('Decimal::from_str_exact'):
                exact += 1
    # ... exact, not stricter: trailing zeroes of the fractional part are not digits of the number ("1.200...0" with 29 of them
    # is 1.2); from_str_exact counts them, so its error is retried on the text without them
    retried = False
    for x in f.body_list:
        if not x.id.startswith(('ser::', '<ser::')):
            continue
        names = [strip_generics(cname(t)) for bb, t in x.calls() if not x.is_cleanup(bb)]
        if sum(1 for n_ in names if n_.endswith('Decimal::from_str_exact')) >= 1 and any(n_.endswith(('str::trim_end_matches', 'str::trim_end_matches::<char>', 'trim_end_matches')) for n_ in names):
            retried = True
        for cb in f.closures_of(x):
            cn = [strip_generics(cname(t)) for bb, t in cb.calls() if not cb.is_cleanup(bb)]
            if any(n_.endswith('Decimal::from_str_exact') for n_ in cn) and any('trim_end_matches' in n_ for n_ in cn) and any(n_.endswith('Decimal::from_str_exact') for n_ in names):
                retried = True
    # ... and the text without them may be nothing at all (".000", "-.0": rust_decimal reads ".0" as zero but refuses "" and a
    # bare sign), so the retry is guarded by a test that something is left - or builds a new text
    units = []
    for x in f.body_list:
        if x.id.startswith(('ser::', '<ser::')):
            units += [u for u in [x] + list(f.closures_of(x)) if all(u.id != v.id for v in units)]
    n_retry, unguarded = 0, []
    for u in units:
        calls = [(bb, t) for bb, t in u.calls() if not u.is_cleanup(bb)]
        if not any('trim_end_matches' in strip_generics(cname(t)) for bb, t in calls):
            continue
        builds = any(strip_generics(cname(t)).endswith(('fmt::format', 'String::push_str', 'String::push', 'slice::<impl [T]>::concat', 'str::<impl str>::to_owned'))
                     for bb, t in calls)
        after_trim = set()
        for tb, t in calls:
            if 'trim_end_matches' in strip_generics(cname(t)):
                after_trim |= set(u.reachable_from(tb, avoid=set()))
        for bb, t in calls:
            if not strip_generics(cname(t)).endswith('Decimal::from_str_exact') or bb not in after_trim:
                continue    # (the parse of the text as given, before anything was trimmed, is not a retry)
            n_retry += 1
            guarded = builds
            for d, si, taken in dominating_switches(u, bb):
                if si.get('kind') == 'enum':
                    continue
                c = switch_condition(u, si)
                neg = False
                while c[0] == 'not':
                    c, neg = c[1], not neg
                if c[0] != 'call':
                    continue
                name = c[1]
                empt = strip_generics(name).endswith('is_empty') or (name.endswith('::eq') and 'PartialEq' in name and any(
                    isinstance(a, dict) and ((a.get('const') or {}).get('val') or {}).get('str') == '' for a in c[2].get('args', [])))
                false_edge = taken[0] == 'val' and all(str(v) in ('0', 'false') for v in taken[1])
                if empt and (false_edge != neg):
                    guarded = True
            if not guarded:
                unguarded.append('%s at %s' % (short_fn(fn_label(u)), short_loc(t.get('span'))))
    # ... what is trimmed is the character '0', off a fractional part that ends with it; and the text retried is the
    # integer part plus - when anything is left of the fractional part - the dot and what is left (an emptied fraction
    # adds nothing; a non-empty one must not be dropped: "1.50000" is 1.5, not 1)
    trims_zero, keeps_digits, n_trim = True, True, 0
    for u in units:
        calls = [(bb, t) for bb, t in u.calls() if not u.is_cleanup(bb)]
        trims = [(bb, t) for bb, t in calls if 'trim_end_matches' in strip_generics(cname(t))]
        if not trims:
            continue
        n_trim += len(trims)
        for bb, t in trims + [(bb, t) for bb, t in calls if strip_generics(cname(t)).endswith('str::ends_with')]:
            if const_int(t['args'][1]) != 48:
                trims_zero = False
        found = False
        for sb in sorted(u.live_blocks()):
            if u.term(sb)['k'] != 'switch' or u.is_cleanup(sb):
                continue
            so_ = origin(u, u.switch_info(sb)['op'])
            ie = [c for c in so_.calls if strip_generics(cname(c)).endswith('is_empty')]
            if not ie or not any(any(c2 is tt for _, tt in trims) for c2 in origin(u, ie[0]['args'][0]).calls) or 'not' in so_.flags:
                continue
            found = True
            tb_ = u.term(sb)['otherwise']
            fbs = [x['bb'] for x in u.term(sb)['targets'] if x['v'] == 0]
            zero_t = any('assign' in s_ and s_['rv']['k'] == 'use' and const_int(s_['rv']['op']) == 0 for s_ in u.stmts(tb_))
            plus_f = False
            for fb_ in fbs:
                for x_ in u.dominated_by(fb_):
                    for s_ in u.stmts(x_):
                        if 'assign' in s_ and s_['rv']['k'] in ('bin', 'checked_bin') and s_['rv']['op'].startswith('Add'):
                            l_, r_ = origin(u, s_['rv']['l']), origin(u, s_['rv']['r'])
                            if (l_.consts() == {1} and 'len' in r_.flags) or (r_.consts() == {1} and 'len' in l_.flags):
                                plus_f = True
            keeps_digits = keeps_digits and zero_t and plus_f
        if not found:
            # (a spelling that builds the text another way is judged by nothing-but-zeroes-is-zero only)
            builds_ = any(strip_generics(cname(t)).endswith(('fmt::format', 'String::push_str', 'String::push', 'slice::<impl [T]>::concat')) for bb, t in calls)
            keeps_digits = keeps_digits and builds_
    ctx.ob('DECSTR', 'what-is-trimmed-is-zeroes', n_trim >= 1 and trims_zero, None, '%d trim site(s); every trim / ends_with test is on the character \'0\': %s' % (n_trim, trims_zero))
    ctx.ob('DECSTR', 'retried-text-keeps-the-other-digits', n_trim >= 1 and keeps_digits, None,
           'the retried text ends after the integer part when nothing is left of the fraction, after the dot and what is left otherwise: %s' % keeps_digits)
    ctx.ob('DECSTR', 'nothing-but-zeroes-is-zero', retried and n_retry >= 1 and not unguarded, None,
           '%d retry site(s) on the trimmed text; reached without a test that the trimmed text is not empty: %s' % (n_retry, unguarded or 'none'))
    ctx.ob('DECSTR', 'trailing-zeroes-are-not-digits', retried, None,
           'an error of the exact parse is retried on the text without the trailing zeroes of its fractional part: %s' % retried)
    ctx.ob('DECSTR', 'parsed-exactly', not rounding and exact >= 1, None,
           'decimal text parsed with the rounding FromStr: %s; with from_str_exact: %d site(s)' % (rounding or 'nowhere', exact))


def null_unit_variant_rule(ctx):
    """(shared with C02) a unit variant under a `null` schema"""
    f = ctx.f
    suv = None
    for b in f.body_list:
        if b.name == 'serialize_unit_variant' and b.j['kind'] != 'closure' and 'DatumSerializer' in (b.j.get('self_ty') or ''):
            suv = b
    # ... and directly under a `null` schema the same holds: nothing is written, under Ok, exactly for the unit variant the
    # decoder presents a null as - the Ok sits on the *equal* edge of the comparison with that name (any other variant of
    # the caller's enum is not a null)
    okn_, detn_ = False, 'no arm for a null schema in serialize_unit_variant'
    if suv is not None:
        nr = [r for r in enum_regions(suv, SCHEMA_NODE) if r.variants == frozenset({'Null'}) or set(r.variants) == {'Null'}]
        if nr:
            okn_, detn_ = True, ''
            oks_ = ok_return_blocks(suv, nr[0].blocks)
            cmps_ = [(bb, suv.term(bb)) for bb in sorted(nr[0].blocks) if suv.term(bb)['k'] == 'call' and not suv.is_cleanup(bb) and
                     (suv.term(bb).get('callee') or '').endswith(('PartialEq::eq', 'PartialEq::ne')) and
                     any('Null' in {x for x in origin(suv, a).consts() if isinstance(x, str)} for a in suv.term(bb)['args'])]
            if len(cmps_) != 1 or not oks_:
                okn_, detn_ = False, '%d comparison(s) of the variant name with "Null" in the null arm, %d Ok return(s)' % (len(cmps_), len(oks_))
            else:
                cb_, ct_ = cmps_[0]
                sw_ = ct_.get('target')
                while sw_ is not None and suv.term(sw_)['k'] == 'goto':
                    sw_ = suv.term(sw_)['target']
                if sw_ is None or suv.term(sw_)['k'] != 'switch':
                    okn_ = False
                else:
                    z_ = [x['bb'] for x in suv.term(sw_)['targets'] if x['v'] == 0]
                    eq_edge = suv.term(sw_)['otherwise'] if ct_['callee'].endswith('::eq') else (z_[0] if z_ else None)
                    ne_edge = (z_[0] if z_ else None) if ct_['callee'].endswith('::eq') else suv.term(sw_)['otherwise']
                    okn_ = eq_edge is not None and ne_edge is not None and eq_edge != ne_edge and \
                        all(suv.dominates(eq_edge, o_) for o_ in oks_) and not any(suv.dominates(ne_edge, o_) for o_ in oks_)
                detn_ = 'Ok with nothing written only on the edge where the variant name equals "Null": %s' % okn_
    ctx.ob('NAMEPAIR', 'Null/unit-variant-under-a-null-schema', okn_, short_loc(suv.span) if suv else None, detn_)


def enum_presentation_rule(ctx, dm=None):
    """An Avro enum is matched to the caller's variants by SYMBOL: the serializer resolves a unit variant by its name,
    so every hint through which a Rust enum / identifier / string asks for the value (identifier, any, str, string)
    must present the symbol text (read_enum_as_str), never the bare position in the schema's symbol list - a Rust enum
    declaring its variants in another order, or only some of them, would silently decode to a different variant."""
    f = ctx.f
    dm = dm if dm is not None else de_matrix(f)
    allb = datum_deserializer_bodies(f)

    def cell_tokens(name, depth=0):
        if name in dm:
            b, cells = dm[name]
            for variants, r, toks in cells:
                if 'Enum' in variants:
                    return b, [t[0] for t in toks]
            return b, None
        b = allb.get(name)
        if b is None:
            return None, None
        return b, [t[0] for t in region_tokens_de(b, b.live_blocks(), f)]

    def resolve(name, depth=0, seen=()):
        b, toks = cell_tokens(name)
        if toks is None or depth > 4 or name in seen:
            return b, set()
        out = set()
        for tok in toks:
            if tok[0] == 'FWD':
                out |= resolve(tok[1], depth + 1, seen + (name,))[1]
            else:
                out.add(tok[0])
        return b, out
    n = 0
    for hint in ('deserialize_identifier', 'deserialize_any', 'deserialize_str', 'deserialize_string'):
        b, kinds = resolve(hint)
        if b is None:
            continue
        n += 1
        ok = 'ENUMSTR' in kinds and not ({'DISCRAW', 'VARINT'} & kinds)
        ctx.ob('ENUMSYM', hint, ok, short_loc(b.span),
               'an enum asked for through %s is presented by symbol text: %s (reads in that cell: %s)' % (hint, ok, sorted(kinds & set(WIRE_KINDS)) or 'none'))
    ctx.floor('ENUMSYM', 'hints', n, 4)


def name_pair(ctx):
    f = ctx.f
    nb, regs = registrations(f)
    ctx.touched(nb)
    dec = None
    for b in f.body_list:
        if fn_label(b) == '<de::deserializer::types::union::SchemaTypeNameDeserializer as serde_core::de::Deserializer>::deserialize_any':
            dec = b
    if dec is None:
        ctx.ob('NAMEPAIR', 'anchor', False, None, 'SchemaTypeNameDeserializer::deserialize_any not found')
        return
    ctx.touched(dec)
    # the single visit_str call takes a value selected per kind: collect, per region, what is assigned to it
    visits = [(bb, t) for bb, t in dec.calls() if (t.get('callee') or '') == 'serde_core::de::Visitor::visit_str']
    ctx.ob('NAMEPAIR', 'decoder/one-visit', len(visits) == 1, short_loc(dec.span), '%d visit_str call(s)' % len(visits), nontrivial=False)
    if len(visits) != 1:
        return
    names = {}
    for r in enum_regions(dec, SCHEMA_NODE):
        got = set()
        for bb in sorted(r.blocks):
            for s in dec.stmts(bb):
                if 'assign' in s and s['rv']['k'] == 'use':
                    v = const_str(s['rv']['op'])
                    if v is not None:
                        got.add(v)
            t = dec.term(bb)
            if t['k'] == 'call' and cname(t).endswith('Name::fully_qualified_name'):
                got.add('<fullname>')
        for kind in r.variants:
            names.setdefault(kind, set()).update(got)
    # the &str given to the visitor is one of those and nothing else
    vo = origin(dec, visits[0][1]['args'][1])
    allc = set()
    for v in names.values():
        allc |= v
    okv = all((a[0] == 'const' and a[1] in allc) or (a[0] == 'call' and a[1].endswith('Name::fully_qualified_name')) for a in vo.atoms)
    ctx.ob('NAMEPAIR', 'decoder/visit-arg', okv, short_loc(dec.span), 'visit_str receives %s' % vo.describe())
    ctx.floor('NAMEPAIR', 'kinds named by the decoder', len([k for k in names if names[k]]), 23)
    # a decimal is named by what it is written over: a decimal over a *fixed* by that fixed's own fullname - the name under
    # which the encoder registers it at top precedence; its "Decimal" alias is registered below a bytes decimal's type name,
    # so a decoder that calls both "Decimal" sends the fixed one back into the bytes branch - ; a bytes decimal by "Decimal"
    DREPR = 'schema::self_referential::DecimalRepr'
    per_repr = {}
    for r in enum_regions(dec, SCHEMA_NODE):
        if set(r.variants) != {'Decimal'}:
            continue
        for r2 in enum_regions(dec, DREPR):
            if not (set(r2.blocks) & set(r.blocks)):
                continue
            got = set()
            for bb in sorted(r2.blocks):
                for s_ in dec.stmts(bb):
                    if 'assign' in s_ and s_['rv']['k'] == 'use' and const_str(s_['rv']['op']) is not None:
                        got.add(const_str(s_['rv']['op']))
                t_ = dec.term(bb)
                if t_['k'] == 'call' and cname(t_).endswith('Name::fully_qualified_name'):
                    got.add('<fullname>')
            for v_ in r2.variants:
                per_repr.setdefault(v_, set()).update(got)
    okd = per_repr.get('Fixed') == {'<fullname>'} and per_repr.get('Bytes') == {'Decimal'}
    ctx.ob('NAMEPAIR', 'Decimal/named-by-representation', okd, short_loc(dec.span),
           'decoder names a decimal over a fixed %s and a bytes decimal %s (expected: the fixed\'s fullname / "Decimal")' % (
               sorted(per_repr.get('Fixed', [])) or 'without looking at the representation', sorted(per_repr.get('Bytes', [])) or '-'))
    for kind in KINDS:
        prop = names.get(kind, set())
        reg = regs.get(kind, {'type_names': set(), 'named': False})
        have = set(reg['type_names']) | ({'<fullname>'} if reg['named'] else set())
        missing = prop - have
        ctx.ob('NAMEPAIR', kind, bool(prop) and not missing, short_loc(reg.get('loc')),
               'decoder proposes %s for a %s branch; the per-name lookup registers %s%s' % (
                   sorted(prop), kind, sorted(have), ('; NOT registered: %s' % sorted(missing)) if missing else ''))
    # a `null` branch reaches an enum-shaped target as the UNIT variant named "Null" (no payload to visit): the encoder
    # has to take that same unit variant back to the null branch - it selects union branches for unit variants by TYPE
    # (string and enum branches come first), so the name has to be looked at: in serialize_unit_variant's union arm the
    # lookup key Null is used under a comparison of the variant name with the name the decoder proposes
    suv = None
    for b in f.body_list:
        if b.name == 'serialize_unit_variant' and b.j['kind'] != 'closure' and 'DatumSerializer' in (b.j.get('self_ty') or ''):
            suv = b
    oku, detu = False, 'DatumSerializer::serialize_unit_variant not found'
    if suv is not None:
        ctx.touched(suv)
        prop = sorted(names.get('Null', set()))
        ur = [r for r in enum_regions(suv, SCHEMA_NODE) if 'Union' in r.variants]
        detu = 'no union arm'
        if ur:
            keys = set()
            cmp_names = set()
            for bb in sorted(ur[0].blocks):
                t = suv.term(bb)
                if suv.is_cleanup(bb):
                    continue
                for s_ in suv.stmts(bb):
                    if 'assign' in s_ and s_['rv']['k'] == 'agg' and s_['rv'].get('adt') == KEY_ADT:
                        keys.add(s_['rv'].get('variant'))
                if t['k'] == 'call':
                    for a in t.get('args', []):
                        keys |= {x[2] for x in origin(suv, a).atoms if x[0] == 'agg' and x[1] == KEY_ADT}
                    if (t.get('callee') or '').endswith(('PartialEq::eq', 'PartialEq::ne')):
                        for a in t['args']:
                            cmp_names |= {x for x in origin(suv, a).consts() if isinstance(x, str)}
            oku = 'Null' in keys and bool(prop) and set(prop) <= cmp_names
            detu = 'decoder presents the null branch as unit variant %s; union arm of serialize_unit_variant compares the variant name with %s and can select lookup keys %s' % (prop, sorted(cmp_names) or 'nothing', sorted(k for k in keys if k))
    ctx.ob('NAMEPAIR', 'Null/unit-variant-selects-null-branch', oku, short_loc(suv.span) if suv else None, detu)
    null_unit_variant_rule(ctx)
    # named kinds register both the short and the full name; names of named types and built-in type names ("Duration",
    # "Date", "String" ...) share one table, so what a name designates follows a precedence: the full name of a named type
    # (what the decoder proposes for it) beats a type name, which beats the namespace-less short name of a named type that has
    # a namespace.  Two accepted shapes:
    # every registration goes through one helper taking (name, precedence) with three distinct constants, which keeps the
    # entry already there when its precedence is lower (a comparison guards the insert).  (A two-level scheme - named types
    # always win - was the F39 repair; it let `com.acme.Date` shadow the type name `Date`: F45.)
    cls = f.closures_of(nb)

    def ccalls(cb):
        return [(bb, t) for bb, t in cb.calls() if not cb.is_cleanup(bb)]
    rn = None
    for cb in cls:
        cs = [cname(t) for bb, t in ccalls(cb)]
        if any(c.endswith('Name::name') for c in cs) and any(c.endswith('Name::fully_qualified_name') for c in cs):
            rn = cb
    tn = None
    for cb in cls:
        tys = ' '.join((cb.local_ty(i) or '') for i in range(1, cb.nargs + 1))
        if ("&'static str" in tys or '&str' in tys) and 'u8' not in tys.replace('&str', ''):
            tn = cb
    helper = None
    # the precedence is an integer or a field-less private enum (ordered by discriminant, as derived `Ord` does)
    prec_enums = {a['path']: {v['name']: v['discr'] for v in a['variants']} for a in f.j.get('adts', [])
                  if a.get('kind') == 'enum' and a.get('variants') and all(not v.get('fields') for v in a['variants'])
                  and all(isinstance(v.get('discr'), int) for v in a['variants'])}
    for cb in cls:
        tys = [(cb.local_ty(i) or '') for i in range(1, cb.nargs + 1)]
        if any('Cow<' in t_ for t_ in tys) and any(t_ in ('u8', 'u16', 'u32', 'usize', 'i8', 'i16', 'i32', 'isize') or t_ in prec_enums for t_ in tys):
            helper = cb
    ok_names, ok_prec, det_prec = False, False, 'registration closures not found'
    if rn is not None and tn is not None:
        def const_ints(cb, t):
            out = set()
            for a in t.get('args', []):
                o = origin(cb, a)
                for x in o.consts():
                    if isinstance(x, int):
                        out.add(x)
                for at in o.atoms:
                    if at[0] == 'agg' and at[1] in prec_enums and at[2] in prec_enums[at[1]]:
                        out.add(prec_enums[at[1]][at[2]])
            return out
        if helper is not None:
            rcalls = [(bb, t) for bb, t in ccalls(rn) if (t.get('resolved') or '') == helper.id or 'FnMut' in cname(t) or 'Fn::call' in cname(t) or 'Fn>::call' in cname(t)]
            tcalls = [(bb, t) for bb, t in ccalls(tn) if (t.get('resolved') or '') == helper.id or 'Fn::call' in cname(t) or 'Fn>::call' in cname(t)]
            full_p, short_p = set(), set()
            for bb, t in rcalls:
                ko = set()
                for a in t.get('args', []):
                    ko |= {strip_generics(n_).rsplit('::', 1)[-1] for n_ in deep_call_names(rn, a, 5) if 'Name::' in n_}
                if 'fully_qualified_name' in ko and 'name' not in ko:
                    full_p |= const_ints(rn, t)
                elif 'name' in ko and 'fully_qualified_name' not in ko:
                    short_p |= const_ints(rn, t)
            type_p = set()
            for bb, t in tcalls:
                type_p |= const_ints(tn, t)
            guarded = False
            ins_blocks = []
            for bb, t in ccalls(helper):
                if strip_generics(cname(t)).endswith(('OccupiedEntry::insert', 'HashMap::insert')) or strip_generics(cname(t)).endswith('::insert') and 'HashMap' in cname(t):
                    ins_blocks.append(bb)
                    guarded = guarded or any(g['op'] in ('Lt', 'Le', 'Gt', 'Ge') for g in cmp_guards(helper, bb)) or \
                        any(si.get('kind') != 'enum' for d, si, taken in dominating_switches(helper, bb))
            if not guarded and ins_blocks:
                # `match map.get(&name) { Some(&(p, _)) if p < precedence => {} Some(_) | None => { map.insert(..) } }`: the
                # insert sits in a join (reached from `None` and from the failed guard); what matters is that ONE edge of
                # an ordering comparison leads to no insert at all
                for d in helper.live_blocks():
                    tm = helper.term(d)
                    if tm.get('k') != 'switch' or helper.is_cleanup(d):
                        continue
                    si = helper.switch_info(d)
                    if si.get('kind') == 'enum':
                        continue
                    c = switch_condition(helper, si)
                    while c[0] == 'not':
                        c = c[1]
                    ordering = (c[0] == 'cmp' and c[1] in ('Lt', 'Le', 'Gt', 'Ge')) or \
                               (c[0] == 'call' and c[1].rsplit('::', 1)[-1] in ('lt', 'le', 'gt', 'ge') and 'PartialOrd' in c[1])
                    if not ordering:
                        continue
                    reach = [any(ib in helper.reachable_from(s_) for ib in ins_blocks) for s_ in helper.succs(d)]
                    if any(reach) and not all(reach):
                        guarded = True
            ok_names = bool(full_p) and bool(short_p)
            ok_prec = len(full_p) == 1 and len(type_p) == 1 and len(short_p) == 1 and max(full_p) < min(type_p) < min(short_p) and guarded
            det_prec = 'tiered: full names at %s, type names at %s, short names at %s; an entry of lower precedence is kept (comparison before the insert): %s' % (sorted(full_p), sorted(type_p), sorted(short_p), guarded)
        else:
            cs = [cname(t) for bb, t in ccalls(rn)]
            ins = [c for c in cs if c.endswith('HashMap::<K, V, S, A>::insert') or c.endswith('::insert')]
            ok_names = len(ins) >= 2
            ok_prec = False
            det_prec = 'names are registered without a precedence: whichever of a type name and the short name of a namespaced named type (com.acme.Date next to a date) comes last, or is inserted unconditionally, shadows the other'
    ctx.ob('NAMEPAIR', 'register_name/short-and-full', ok_names, short_loc(nb.span), 'register_name registers both name() and fully_qualified_name(): %s' % ok_names)
    ctx.ob('NAMEPAIR', 'name-precedence', ok_prec, short_loc(nb.span), det_prec)
    # a type name is registered at type-name precedence only for the branches the decoder names by it: a decimal over a
    # fixed is named by the fixed's own name when decoding, so its "Decimal" alias must not compete with a bytes decimal's
    fixed_as_type, n_dec_tn = [], 0
    if tn is not None:
        for bb, t in nb.calls():
            if nb.is_cleanup(bb) or (t.get('resolved') or '') != tn.id:
                continue
            doms = dominating_switches(nb, bb)
            if not any(si.get('kind') == 'enum' and taken[0] == 'variant' and 'Decimal' in taken[1] for d, si, taken in doms):
                continue
            n_dec_tn += 1
            # the call must sit on an edge of a switch on the representation that excludes `Fixed`
            if not any(si.get('kind') == 'enum' and (si.get('adt') or '').endswith('DecimalRepr') and
                       taken[0] in ('variant', 'otherwise_variants') and taken[1] and 'Fixed' not in taken[1]
                       for d, si, taken in doms):
                fixed_as_type.append(short_loc(t.get('span')))
    ctx.ob('NAMEPAIR', 'Decimal/fixed-alias-below-type-names', not fixed_as_type, short_loc(nb.span),
           '%d registration(s) of a type name in the decimal arm; reachable for a decimal over a fixed (whose decoder-side name is the fixed\'s own, '
           'so that "Decimal" would compete with a bytes decimal at equal precedence): %s' % (n_dec_tn, fixed_as_type or 'none'))


# (kind, key) registered without a serializer capability: reviewed, one reason each
REG_WITHOUT_CAP = {
    ('Double', 'Float4'): 'registered "just for better error" (source comment); serialize_f32 x Double is an explicit Err',
    # (BigDecimal x Integer* used to be listed here as "yields Err, never wrong bytes" - but a branch that the lookup selects
    # for an integer and that then refuses it is a round-trip failure: Some(5_i64) under ["null", big-decimal] (F34))
}


def cap_reg(ctx, sm):
    f = ctx.f
    nb, regs = registrations(f)
    n = 0
    users = {}
    for name, (b, cells) in sorted(sm.items()):
        keys = set()
        active = set()
        for variants, r, toks in cells:
            for tok, tb, tbb, t in toks:
                if tok[0] == 'UNION':
                    keys |= set(tok[1])
            if 'Union' in variants:
                continue
            real = [t for t in toks if t[0][0] not in ('UNCLASSIFIED',)]
            for kind in variants:
                if real or (kind == 'Null' and ok_return_blocks(b, r.blocks)):
                    active.add(kind)
        if not keys:
            continue
        for key in keys:
            users.setdefault(key, []).append((name, active))
        for kind in sorted(active):
            for key in sorted(keys):
                # a function that chooses among several keys uses the key that names a kind (Null, Boolean ...) for that
                # kind of branch only
                if len(keys) > 1 and key in KINDS and kind != key:
                    continue
                n += 1
                ok = key in regs.get(kind, {}).get('keys', {})
                ctx.ob('CAPREG', '%s/%s/%s' % (name, kind, key), ok, short_loc(regs.get(kind, {}).get('loc')),
                       '%s can serialize into %s and dispatches unions with key %s: %s' % (name, kind, key, 'registered' if ok else 'NOT registered in PerTypeLookup::new'))
    ctx.floor('CAPREG', '(function, kind, key) capabilities', n, 60)
    priorities(ctx, regs)
    allkeys = {v['name'] for v in f.adts[KEY_ADT]['variants']} if KEY_ADT in f.adts else set()
    ctx.ob('CAPREG', 'keys-used', allkeys and set(users) == allkeys, None, 'lookup keys used by the serializer: %d of %d' % (len(users), len(allkeys)), nontrivial=False)
    # converse
    for kind, ent in sorted(regs.items()):
        for key in sorted(ent['keys']):
            cap = any(kind in active for name, active in users.get(key, []))
            if not cap and (kind, key) in REG_WITHOUT_CAP:
                ctx.ob('CAPREG', 'converse/%s/%s' % (kind, key), True, short_loc(ent.get('loc')), 'reviewed: ' + REG_WITHOUT_CAP[(kind, key)], nontrivial=False)
            else:
                ctx.ob('CAPREG', 'converse/%s/%s' % (kind, key), cap, short_loc(ent.get('loc')),
                       '(%s, %s) is registered; a serializer function using that key %s %s' % (kind, key, 'can write' if cap else 'has NO arm for', kind))


# reviewed registration table (DESIGN appendix D): kind -> {lookup key: priority}.  A change of this table changes
# which union branch a value is written to (or makes the choice ambiguous): it is reported until re-reviewed.
EXPECTED_REG = {
    'Null': {'Null': 0, 'UnitStruct': 0, 'UnitVariant': 2},
    'Boolean': {'Boolean': 0},
    'Int': {'Integer': 0, 'Integer4': 0, 'Integer8': 1}, 'Date': {'Integer': 0, 'Integer4': 0, 'Integer8': 1},
    'TimeMillis': {'Integer': 0, 'Integer4': 0, 'Integer8': 1},
    'Long': {'Integer': 0, 'Integer4': 1, 'Integer8': 0}, 'TimeMicros': {'Integer': 0, 'Integer4': 1, 'Integer8': 0},
    'TimestampMillis': {'Integer': 0, 'Integer4': 1, 'Integer8': 0}, 'TimestampMicros': {'Integer': 0, 'Integer4': 1, 'Integer8': 0},
    'Float': {'Float4': 0, 'Float8': 1}, 'Double': {'Float8': 0, 'Float4': 1},
    'Bytes': {'Str': 10, 'UnitStruct': 10, 'SliceU8': 0, 'SeqOrTupleOrTupleStruct': 2, 'UnitVariant': 10},
    'String': {'Str': 0, 'UnitStruct': 0, 'SliceU8': 1, 'UnitVariant': 1},
    'Array': {'SeqOrTupleOrTupleStruct': 0}, 'Map': {'StructOrMap': 0}, 'Union': {},
    'Record': {'StructOrMap': 0},
    'Enum': {'Integer': 10, 'Integer4': 10, 'Integer8': 10, 'UnitStruct': 0, 'Str': 5, 'UnitVariant': 0},
    'Fixed': {'Str': 15, 'SliceU8': 0, 'SeqOrTupleOrTupleStruct': 2},
    'Decimal': {'Integer': 5, 'Integer4': 5, 'Integer8': 5, 'Float8': 2, 'Str': 20},
    'BigDecimal': {'Integer': 5, 'Integer4': 5, 'Integer8': 5, 'Float8': 2, 'Str': 20},
    'Uuid': {'Str': 0},
    'Duration': {'StructOrMap': 5, 'SeqOrTupleOrTupleStruct': 5, 'SliceU8': 5},
}


def priorities(ctx, regs):
    for kind in KINDS:
        got = regs.get(kind, {}).get('keys', {})
        want = EXPECTED_REG.get(kind, {})
        diff = {k: (want.get(k), got.get(k)) for k in set(want) | set(got) if want.get(k) != got.get(k)}
        ctx.ob('CAPREG', 'priorities/%s' % kind, not diff, short_loc(regs.get(kind, {}).get('loc')),
               'union lookup registrations of %s %s' % (kind, 'match the reviewed table' if not diff else
                                                     'differ from the reviewed table (key: reviewed priority -> found): %s' % diff))
    # the property the table is reviewed for: an exact-width integer (i32 / i64) never ties between int-like and long-like
    for key, first, second in (('Integer4', 'Int', 'Long'), ('Integer8', 'Long', 'Int')):
        a = regs.get(first, {}).get('keys', {}).get(key)
        b_ = regs.get(second, {}).get('keys', {}).get(key)
        ctx.ob('CAPREG', 'no-tie/%s' % key, a is not None and b_ is not None and a < b_, None,
               '%s: %s has priority %s, %s has %s (strictly preferred: no conflict in [int, long])' % (key, first, a, second, b_))


def borrow(ctx):
    f = ctx.f
    b = fn_by_label(f, '<de::read::SliceRead as de::read::ReadSlice>::read_slice')
    ok = False
    if b is not None:
        ctx.touched(b)
        vb = [(bb, t) for bb, t in b.calls() if (t.get('callee') or '').endswith('de::read::ReadVisitor::visit_borrowed')]
        pv = [(bb, t) for bb, t in b.calls() if (t.get('callee') or '').endswith('de::read::ReadVisitor::visit')]
        ok = len(vb) == 1 and not pv
        if ok:
            o = origin(b, vb[0][1]['args'][1])
            sp = [c for c in o.calls if call_matches(c, SPLIT_AT)]
            ok = len(sp) == 1 and 'slice' in origin(b, sp[0]['args'][0]).fields and not o.params()
    ctx.ob('BORROW', 'SliceRead::read_slice', ok, short_loc(b.span) if b else None, 'slice reads hand the input sub-slice to visit_borrowed: %s' % ok)
    for vis, meth in (('StringVisitor', 'visit_borrowed_str'), ('BytesVisitor', 'visit_borrowed_bytes')):
        b = fn_by_label(f, '<de::deserializer::types::length_delimited::%s as de::read::ReadVisitor>::visit_borrowed' % vis)
        ok = False
        if b is not None:
            ctx.touched(b)
            cs = [(bb, t) for bb, t in b.calls() if (t.get('callee') or '') == 'serde_core::de::Visitor::' + meth]
            ok = len(cs) == 1
            if ok:
                o = origin(b, cs[0][1]['args'][1])
                if o.params() == {2}:
                    ok = True
                else:
                    ps = [c for c in o.calls if cname(c).endswith('parse_str')]
                    ok = len(ps) == 1 and origin(b, ps[0]['args'][0]).params() == {2} and not o.params()
        ctx.ob('BORROW', '%s::visit_borrowed' % vis, ok, short_loc(b.span) if b else None, '%s::visit_borrowed reaches %s with the borrowed input: %s' % (vis, meth, ok))
