"""C04 - decoding untrusted bytes is total and resource-bounded (structural part).

  PANIC    closed, reviewed inventory of panic-capable constructs on the datum decode path (guarded idioms accepted
           automatically; anything else must be a reviewed table line)
  DEPTH    every construction of a budget-carrying type on a schema descent takes the budget from the fallible
           decrement; access types copy the stored budget; the root comes from the public limit; same-node forwards
           form a DAG
  SEQCAP   the cumulative element count is compared with max_seq_size before more elements are announced
  ALLOC    allocation-capable callees on the decode path: only error constructors, plus the reader scratch resize
           which is dominated by the max_alloc_size test; and a DeError is built only inside a closure that returns it
           (ok_or_else / map_err) or where every path returns Err - never eagerly on a path that can still return Ok
  LOOP     every CFG cycle on the decode path contains an input-consuming step or a bounded iterator
  TAKE     shared from c11: a block taken out of a reader keeps the caller's allocation cap, and gives it back unchanged
  PANIC    ... `assert!(n >= 1)` on n = NonZero::get() is a guarded idiom; a reviewed entry is lent to another function
           only when the function it was reviewed under has no site of that kind left
It does NOT decide stack bytes per frame, behaviour of dependencies/visitors, or total work as a number.
"""
from ..lib import *
from ..dematrix import *
from ..inventory import *
from ..core import short_loc, op_place, const_int

EXPLANATION = ("Totality/resource bounds of datum decoding, structural part: closed inventories of panic-capable constructs, "
               "allocations and loops over the decode path; depth budget decremented on every schema descent; sequence and "
               "allocation caps dominate their actions. Stack bytes, dependency behaviour and work as a number are not decided.")

# reviewed panic-capable sites: (function label, kind) -> (max count, reason)
PANIC_REVIEWED = {
    ('de::deserializer::types::boolean::read_bool::{closure#0}', 'assert:bounds'):
        (1, 's[0]: the closure is only called by read_slice(1, ..) which hands over exactly 1 byte'),
    ('de::deserializer::types::decimal::read_decimal', 'index'):
        (2, 'buf[start..] / buf[0..start] with start = 16.checked_sub(size)? <= 16'),
    ('<de::deserializer::types::duration::DurationMapAndSeqAccess as serde_core::de::MapAccess>::next_key_seed', 'panic'):
        (1, 'unreachable!: the buffer is built with 12 bytes and consumed 4 by 4'),
    ('<de::deserializer::types::duration::DurationMapAndSeqAccess as serde_core::de::MapAccess>::next_value_seed', 'split_at'):
        (1, 'serde protocol: next_value after next_key returned Some => at least 4 bytes left'),
    ('<de::deserializer::types::duration::DurationMapAndSeqAccess as serde_core::de::MapAccess>::next_value_seed', 'unwrap'):
        (1, 'try_into of a 4-byte slice into [u8; 4]'),
    ('<de::deserializer::types::duration::DurationMapAndSeqAccess as serde_core::de::SeqAccess>::next_element_seed', 'unwrap'):
        (1, 'try_into of a 4-byte slice into [u8; 4]'),
    ('<de::deserializer::types::record::RecordMapAccess as serde_core::de::MapAccess>::next_value_seed', 'expect'):
        (1, 'serde protocol: next_value after next_key returned Some'),
    ('<de::deserializer::DatumDeserializer as serde_core::de::Deserializer>::deserialize_option', 'assert:overflow(Sub)'):
        (1, '1 - d: arm reached only if variants.get(d) is Some and len == 2 => d in {0,1}'),
    ('<de::deserializer::DatumDeserializer as serde_core::de::Deserializer>::deserialize_option', 'index'):
        (1, 'variants[1 - d] with len == 2 (short-circuit && before the index)'),
    ('<de::read::SliceRead as de::read::Read>::read_varint', 'index'):
        (1, '&slice[read..]: read <= len by the contract of VarInt::decode_var'),
    ('<de::read::ReaderRead as de::read::ReadSlice>::read_slice', 'index'):
        (1, '&mut scratch[..n] after scratch.resize(n) when shorter'),
    ('schema::self_referential::Schema::root', 'assert'):
        (1, 'assert!(!nodes.is_empty()): freeze rejects an empty graph (C10/C19)'),
    ('schema::self_referential::Schema::root', 'panic'):
        (1, 'assert!(!nodes.is_empty()): freeze rejects an empty graph (C10/C19)'),
}


def _cond_option_index(body, bb):
    """variants[1 - d] / 1 - d: only under the Some arm of variants.get(d) and `variants.len() == 2`"""
    some = False
    for names, adt, oo, d_, oth in option_guards(body, bb):
        if 'Some' in names and 'get' in oo.flags and 'variants' in oo.fields:
            some = True
    two = False
    for g in cmp_guards(body, bb):
        if g['op'] == 'Eq' and 'len' in g['l'].flags and 'variants' in g['l'].fields and g['r'].consts() == {2}:
            two = True
    return some and two


def _guarded_subs_only(body, o):
    """every subtraction the value went through is guarded (dominated by minuend >= subtrahend)"""
    found = False
    for bb in sorted(body.live_blocks()):
        for s in body.stmts(bb):
            if 'assign' in s and s['rv']['k'] == 'bin' and s['rv']['op'].startswith('Sub'):
                lo = origin(body, s['rv']['l'])
                if lo.atoms & o.atoms or True:
                    # is this statement part of o's derivation? (its result local feeds o): conservative: consider subs whose operands share atoms with o
                    if (lo.atoms | origin(body, s['rv']['r']).atoms) <= o.atoms | {a for a in o.atoms}:
                        found = True
                        if not sub_is_guarded(body, bb, s['rv']['l'], s['rv']['r']):
                            return False
    return found


def _cond_checked_sub_start(body, bb):
    """buf[start..] / buf[0..start]: start comes from a checked_sub whose None is an error, or from a subtraction
    dominated by the corresponding comparison"""
    t = body.term(bb)
    o = origin(body, t['args'][1])
    cs = [c for c in o.calls if call_matches(c, ['::checked_sub'])]
    if cs and 'ok_or' in o.flags and 'try' in o.flags:
        return True
    if cs:
        # `let Some(start) = a.checked_sub(b) else { return Err(..) }` / match with None => Err
        from .c11 import option_none_errs
        if all(option_none_errs(body, c)[0] for c in cs):
            return True
    if {x for x in o.flags if x.startswith('arith:')} <= {'arith:SubWithOverflow', 'arith:Sub'} and o.has_arith():
        return _guarded_subs_only(body, o)
    return False


def _cond_scratch_after_resize(body, bb):
    """&mut scratch[..n]: the same n is given to scratch.resize when the scratch is shorter"""
    t = body.term(bb)
    no = origin(body, t['args'][1])
    for rbb, rt in body.calls():
        if call_matches(rt, ['Vec::<T, A>::resize']):
            ro = origin(body, rt['args'][1])
            if ro.params() == no.params() and not ro.has_arith() and not no.has_arith() and 'scratch' in origin(body, rt['args'][0]).fields:
                for g in cmp_guards(body, rbb):
                    if g['op'] == 'Gt' and g['l'].params() == no.params() and 'len' in g['r'].flags and 'scratch' in g['r'].fields:
                        return True
    return False


def _cond_decode_var_count(body, bb):
    """&slice[read..]: read is the count returned by decode_var on that slice"""
    t = body.term(bb)
    o = origin(body, t['args'][1])
    return any((c.get('callee') or '').endswith('VarInt::decode_var') for c in o.calls) and not o.has_arith()


PANIC_CONDITIONS = {
    ('<de::deserializer::DatumDeserializer as serde_core::de::Deserializer>::deserialize_option', 'assert:overflow(Sub)'): _cond_option_index,
    ('<de::deserializer::DatumDeserializer as serde_core::de::Deserializer>::deserialize_option', 'index'): _cond_option_index,
    ('de::deserializer::types::decimal::read_decimal', 'index'): _cond_checked_sub_start,
    ('<de::read::ReaderRead as de::read::ReadSlice>::read_slice', 'index'): _cond_scratch_after_resize,
    ('<de::read::SliceRead as de::read::Read>::read_varint', 'index'): _cond_decode_var_count,
}


PANIC_REVIEWED = {(short_fn(k[0]), k[1]): v for k, v in PANIC_REVIEWED.items()}
PANIC_CONDITIONS = {(short_fn(k[0]), k[1]): v for k, v in PANIC_CONDITIONS.items()}


def in_scope(b):
    i = b.id
    if i.startswith('de::') or i.startswith('<de::'):
        return True
    if fn_label(b) in ('from_datum_slice', 'from_datum_reader', 'schema::self_referential::Schema::root',
                       'schema::self_referential::NodeRef::as_ref',
                       '<schema::self_referential::NodeRef as core::ops::deref::Deref>::deref'):
        return True
    return False


def const_only(body, op):
    o = origin(body, op)
    return bool(o.atoms) and all(a[0] == 'const' for a in o.atoms)


def auto_accept(body, kind, bb):
    """guarded idioms that cannot fire"""
    t = body.term(bb)
    if kind in ('assert:misaligned', 'assert:null'):
        return 'compiler-inserted debug pointer check'
    if kind.startswith('assert:'):
        if const_only(body, t['cond']):
            return 'assert over constants only'
        # find the arithmetic that produced the flag
        p = op_place(t['cond'])
        if p is not None:
            for d in body.defs().get(p['l'], []):
                if d[2] == 'assign' and d[3]['k'] == 'bin':
                    rv = d[3]
                    lo, ro = origin(body, rv['l']), origin(body, rv['r'])
                    if rv['op'].startswith('Sub') and 'nz_get' in lo.flags and ro.consts() == {1} and len(ro.atoms) == 1:
                        return 'NonZero::get() - 1'
                    if rv['op'].startswith('Sub') and ro.consts() == {1} and len(ro.atoms) == 1:
                        # `match n { 0 => .., l => l - 1 }`: the subtraction sits on the edge that excludes zero
                        for d_, si_, taken_ in dominating_switches(body, d[0]):
                            if si_.get('kind') != 'enum' and taken_[0] == 'not' and 0 in taken_[1] and not lo.has_arith() and \
                                    origin(body, si_['op']).atoms == lo.atoms:
                                return 'n - 1 in the non-zero arm of a match on n'
                    if rv['op'].startswith('Sub') and sub_is_guarded(body, d[0], rv['l'], rv['r']):
                        return 'subtraction dominated by a comparison establishing minuend >= subtrahend'
                    if rv['op'] in ('Div', 'Rem') or kind in ('assert:div_zero', 'assert:rem_zero'):
                        pass
        if kind in ('assert:div_zero', 'assert:rem_zero'):
            # cond is `Eq(divisor, 0)`
            p = op_place(t['cond'])
            if p is not None:
                for d in body.defs().get(p['l'], []):
                    if d[2] == 'assign' and d[3]['k'] == 'bin' and const_int(d[3]['l']) not in (None, 0) and const_int(d[3]['r']) == 0:
                        return 'constant non-zero divisor'
        if kind == 'assert:bounds':
            # index < len with both constant
            p = op_place(t['cond'])
            if p is not None:
                for d in body.defs().get(p['l'], []):
                    if d[2] == 'assign' and d[3]['k'] == 'bin' and const_int(d[3]['l']) is not None and const_int(d[3]['r']) is not None:
                        return 'constant index into a fixed-size array'
                    # `(x & MASK) as usize < N` with MASK < N (table lookups by a masked byte)
                    if d[2] == 'assign' and d[3]['k'] == 'bin' and d[3]['op'] == 'Lt' and const_int(d[3]['r']) is not None:
                        n_ = const_int(d[3]['r'])
                        q = op_place(d[3]['l'])
                        for _ in range(6):
                            if q is None or q.get('p'):
                                break
                            # a value that is (a widening of) a u8 / u16 indexes an array at least that large
                            bits_ = {'u8': 256, 'u16': 65536}.get(body.local_ty(q['l']))
                            if bits_ is not None and bits_ <= n_:
                                return 'index is a widened %s into an array of %d' % (body.local_ty(q['l']), n_)
                            cds = [x for x in body.defs().get(q['l'], []) if x[2] == 'call']
                            if len(cds) == 1 and (cds[0][3].get('callee') or '').endswith(('convert::From::from', 'convert::Into::into')) and len(cds[0][3]['args']) == 1:
                                q = op_place(cds[0][3]['args'][0])
                                continue
                            ds = [x for x in body.defs().get(q['l'], []) if x[2] == 'assign']
                            if len(ds) != 1:
                                break
                            rv2 = ds[0][3]
                            if rv2['k'] == 'use' or (rv2['k'] == 'cast' and rv2.get('cast') == 'IntToInt'):
                                q = op_place(rv2['op'])
                                continue
                            if rv2['k'] == 'bin' and rv2['op'] == 'BitAnd':
                                m_ = const_int(rv2['r']) if const_int(rv2['r']) is not None else const_int(rv2['l'])
                                if m_ is not None and 0 <= m_ < n_:
                                    return 'index masked with %d into an array of %d' % (m_, n_)
                            break
        return None
    if kind == 'index' and len(t.get('arg_tys', [])) > 1 and ('RangeFrom<' in t['arg_tys'][1] or 'RangeTo<' in t['arg_tys'][1]):
        # `&slice[n..]` / `&slice[..n]` after `n > len => return Err` (the explicit spelling of `.get(n..)`)
        no = origin(body, t['args'][1])
        na = {a for a in no.atoms if a[0] != 'agg'}
        for g in cmp_guards(body, bb):
            if g['op'] == 'Le' and na and g['l'].atoms == na and 'len' in g['r'].flags and not g['l'].has_arith():
                return 'range bound dominated by n <= len'
    if kind in ('panic', 'assert'):
        # an assertion restating what the type says: `assert!(n >= 1)` / `n > 0` / `n != 0` on n = NonZero::get()
        for g in cmp_guards(body, bb):
            if 'nz_get' in g['l'].flags and not g['l'].has_arith() and not g['r'].params() and not g['r'].fields and not g['r'].call_names() and \
                    ((g['op'] == 'Lt' and g['r'].consts() == {1}) or (g['op'] in ('Le', 'Eq') and g['r'].consts() == {0})):
                return 'failure arm of an assertion that NonZero::get() is at least 1'
    if kind == 'split_at':
        no = origin(body, t['args'][1])
        for g in cmp_guards(body, bb):
            if g['op'] == 'Le' and g['l'].atoms == no.atoms and 'len' in g['r'].flags:
                return 'dominated by n <= len'
            if g['op'] == 'Ge' and g['r'].atoms == no.atoms and 'len' in g['l'].flags:
                return 'dominated by len >= n'
    return None


def run(ctx):
    f = ctx.f
    scope = [b for b in f.body_list if in_scope(b) and not b.j.get('from_expansion')]
    ctx.floor('PANIC', 'functions on the decode path', len(scope), 120)
    nsites = 0
    matcher = ReviewedMatcher('C04', PANIC_REVIEWED, {short_fn(fn_label(b)) for b in scope})
    ctx.panic_matcher = matcher
    used = matcher.used
    # (kinds of site each function of the scope still has: a reviewed entry is lent to a renamed function only when the
    # function it was reviewed under has no such site any more)
    matcher.site_kinds = {(short_fn(fn_label(b)), k_) for b in scope for k_, _, _, _ in panic_sites(b)}
    for b in scope:
        ctx.touched(b, len(b.calls()))
        for kind, bb, loc_, txt in panic_sites(b):
            nsites += 1
            why = auto_accept(b, kind, bb)
            fl = fn_label(b)
            if why is None:
                key = (short_fn(fl), kind)
                cond = PANIC_CONDITIONS.get(key)
                why = matcher.match(b, short_fn(fl), kind, bb, cond)
                if why and cond:
                    why += ' [structural condition re-checked]'
            ordn = used.get((short_fn(fl), kind), 0)
            ctx.ob('PANIC', '%s/%s#%d' % (fl, kind, ordn if why and why.startswith('reviewed') else sum(1 for k2, bb2, _, _ in panic_sites(b) if k2 == kind and bb2 < bb)),
                   why is not None, loc_,
                   ('panic-capable construct `%s` (%s): %s' % (kind, txt[:70], why)) if why else
                   ('UNREVIEWED panic-capable construct `%s` (%s) on the datum decode path: not a guarded idiom and not in the reviewed table' % (kind, txt[:90])))
    ctx.floor('PANIC', 'panic-capable constructs examined', nsites, 15)

    depth_rule(ctx)
    seqcap_rule(ctx)
    alloc_rule(ctx, scope)
    # the allocation cap set by the caller is the one in force inside a block taken out of a reader, and after it
    # (shared with C11: a sub-reader built with the default cap lifts the caller's bound for good)
    from .c11 import take_rule
    take_rule(ctx)
    loop_rule(ctx, scope)


# ---------------------------------------------------------------------------

def budget_adt(f):
    dd = f.adts.get(DD)
    if not dd:
        raise Inconclusive('DatumDeserializer not found')
    for fld in dd['variants'][0]['fields']:
        if fld['name'] == 'allowed_depth':
            return fld['ty'].split('<')[0]
    raise Inconclusive('DatumDeserializer has no allowed_depth field')


def depth_rule(ctx):
    f = ctx.f
    AD = budget_adt(f)
    carriers = {}
    for path, a in f.adts.items():
        if a['kind'] != 'struct':
            continue
        for i, fld in enumerate(a['variants'][0]['fields']):
            if fld['ty'].split('<')[0] == AD:
                carriers[path] = fld['name']
    ctx.floor('DEPTH', 'budget-carrying types', len(carriers), 5)
    # the decrement
    decs = [b for b in f.body_list if b.j.get('self_adt') == AD and b.j['kind'] != 'closure' and 'Result<' in b.local_ty(0) and AD in b.local_ty(0)]
    if len(decs) != 1:
        ctx.ob('DEPTH', 'decrement/anchor', False, None, 'expected exactly one fallible method on %s returning itself, found %d' % (AD, len(decs)))
        return
    dec = decs[0]
    ctx.touched(dec)
    cs = [(bb, t) for bb, t in dec.calls() if call_matches(t, ['::checked_sub'])]
    ok = False
    for bb, t in cs:
        o1 = origin(dec, t['args'][1])
        if o1.consts() == {1}:
            # None => Err
            for sbb in sorted(dec.live_blocks()):
                if dec.term(sbb)['k'] == 'switch':
                    si = dec.switch_info(sbb)
                    if si.get('kind') == 'enum' and si.get('adt') == 'core::option::Option':
                        nb = si['variants'].get('None')
                        if nb is not None and all_paths_err(dec, nb):
                            ok = True
    if not ok:
        # combinator form: `x.checked_sub(1).map(Self::new).ok_or_else(|| Err..)`: the returned Result comes from
        # ok_or / ok_or_else applied (through map) to the checked_sub, and nothing else
        ro = return_origin(dec)
        for bb, t in cs:
            if origin(dec, t['args'][1]).consts() == {1} and any(c is t for c in ro.calls) and 'ok_or' in ro.flags and \
                    not [a for a in ro.atoms if a[0] == 'agg' and a[1] == 'core::result::Result' and a[2] == 'Ok']:
                ok = True
    if not ok:
        # equivalent form: `if x == 0 { return Err } ; x - 1`
        for bb in sorted(dec.live_blocks()):
            for st in dec.stmts(bb):
                if 'assign' in st and st['rv']['k'] == 'bin' and st['rv']['op'].startswith('Sub') and const_int(st['rv']['r']) == 1:
                    if sub_is_guarded(dec, bb, st['rv']['l'], st['rv']['r']):
                        for g in cmp_guards(dec, bb):
                            if all(all_paths_err(dec, s_) for s_ in g['other']):
                                ok = True
    ctx.ob('DEPTH', 'decrement/checked', ok, short_loc(dec.span), '%s decrements by 1 with exhaustion => Err (checked_sub(1) or guarded subtraction): %s' % (fn_label(dec), ok))
    dec_name = dec.id

    def budget_operands(b):
        """(site label, operand, schema operand or None, loc) for every budget hand-over in body b"""
        out = []
        for bb in sorted(b.live_blocks()):
            if b.is_cleanup(bb):
                continue
            for s in b.stmts(bb):
                if 'assign' in s and s['rv']['k'] == 'agg' and s['rv'].get('agg') == 'adt' and s['rv']['adt'] in carriers:
                    rv = s['rv']
                    i = rv['fields'].index(carriers[rv['adt']])
                    sch = None
                    for fld in ('schema_node', 'variant_schema', 'elements_schema'):
                        if fld in rv['fields']:
                            sch = rv['ops'][rv['fields'].index(fld)]
                    out.append((strip_generics(rv['adt']).rsplit('::', 1)[1], rv['ops'][i], sch, s.get('span'), bb))
            t = b.term(bb)
            if t['k'] == 'call' and strip_generics(cname(t)).endswith('types::blocks::BlockReader::new'):
                for i, ty in enumerate(t.get('arg_tys', [])):
                    if ty.split('<')[0] == AD:
                        out.append(('BlockReader::new', t['args'][i], None, t.get('span'), bb))
        return out

    ndec = ncopy = nroot = nsame = 0
    for b in f.body_list:
        sites = budget_operands(b)
        if not sites:
            continue
        ctx.touched(b)
        fl = fn_label(b)
        is_deser_impl = b.j.get('impl_trait') == 'serde_core::de::Deserializer'
        counts = {}
        for what, op, sch, sp, bb in sites:
            o = origin(b, op)
            k = counts.get(what, 0)
            counts[what] = k + 1
            key = '%s/%s#%d' % (fl, what, k)
            from_dec = any(a[0] == 'call' and a[1] == dec_name for a in o.atoms) and len([a for a in o.atoms if a[0] != 'const']) == 1 and 'try' in o.flags
            verbatim = o.params() == {1} and not o.call_names() and ({'allowed_depth'} & o.fields) and not o.has_arith() and not o.consts()
            if what == 'BlockReader' and fl.endswith('BlockReader::new'):
                # the constructor itself stores its parameter
                okc = o.params() and not o.call_names()
                ctx.ob('DEPTH', key, okc, short_loc(sp), 'constructor stores its budget parameter: %s' % o.describe(), nontrivial=False)
                continue
            if from_dec:
                ndec += 1
                ctx.ob('DEPTH', key, True, short_loc(sp), 'budget for %s comes from the fallible decrement (%s)' % (what, o.describe()))
            elif verbatim and not is_deser_impl:
                ncopy += 1
                ctx.ob('DEPTH', key, True, short_loc(sp), 'access type hands on the budget stored at its construction (%s)' % o.describe())
            elif verbatim and is_deser_impl and sch is not None:
                so = origin(b, sch)
                same = so.params() == {1} and not so.call_names() and 'schema_node' in so.fields and so.flags <= {'deref'}
                if same:
                    nsame += 1
                ctx.ob('DEPTH', key, same, short_loc(sp),
                       'undecremented budget in a Deserializer method: allowed only for the same schema node; node derives from %s' % so.describe())
            elif any(a[0] == 'call' and strip_generics(a[1]).endswith('AllowedDepth::new') for a in o.atoms) or \
                    (b.j.get('self_adt') == 'de::DeserializerState' and any(a[0] == 'call' for a in o.atoms)):
                # root: AllowedDepth::new(config.allowed_depth)
                src = None
                for c in o.calls:
                    pass
                newc = [(bb2, t2) for bb2, t2 in b.calls() if t2.get('dest', {}).get('l') is not None and strip_generics(cname(t2)).endswith(AD.rsplit('::', 1)[1] + '::new')]
                okr = False
                for bb2, t2 in newc:
                    oo = origin(b, t2['args'][0])
                    if 'allowed_depth' in oo.fields and 'config' in oo.fields and not oo.has_arith():
                        okr = True
                nroot += 1
                ctx.ob('DEPTH', key, okr and fl == 'de::DeserializerState::deserializer', short_loc(sp),
                       'root budget = new(config.allowed_depth): %s (in %s)' % (okr, fl))
            else:
                ctx.ob('DEPTH', key, False, short_loc(sp),
                       'budget handed to %s derives from %s: neither the fallible decrement nor a stored copy' % (what, o.describe()))
    ctx.floor('DEPTH', 'decrement sites', ndec, 13)
    ctx.floor('DEPTH', 'stored-budget copies in access types', ncopy, 5)
    ctx.floor('DEPTH', 'root', nroot, 1)
    ctx.floor('DEPTH', 'same-node wrapper copies', nsame, 1)

    # same-node forwards between the Deserializer methods form a DAG (no budget-free cycle)
    dd = datum_deserializer_bodies(f)
    edges = {}
    for name, b in dd.items():
        outs = set()
        for bb, t in b.calls():
            tok = classify_de(b, bb, t)
            if tok and tok[0] == 'FWD':
                recv = origin(b, t['args'][0])
                if recv.params() == {1} and not recv.call_names() and not any(a[0] == 'agg' for a in recv.atoms):
                    outs.add(tok[1])
        edges[name] = outs
    cyc = find_cycle(edges)
    ctx.ob('DEPTH', 'same-node-forwards-acyclic', cyc is None, None,
           'forwards on the same node among DatumDeserializer methods: %s' % ('acyclic (%d edges)' % sum(len(v) for v in edges.values()) if cyc is None else 'cycle ' + ' -> '.join(cyc)))


def find_cycle(edges):
    color = {}
    stack = []

    def dfs(u):
        color[u] = 1
        stack.append(u)
        for v in edges.get(u, ()):
            if color.get(v, 0) == 1:
                return stack[stack.index(v):] + [v]
            if color.get(v, 0) == 0 and v in edges:
                r = dfs(v)
                if r:
                    return r
        stack.pop()
        color[u] = 2
        return None
    for u in list(edges):
        if color.get(u, 0) == 0:
            r = dfs(u)
            if r:
                return r
    return None


def seqcap_rule(ctx):
    f = ctx.f
    hm = None
    for b in f.body_list:
        if fn_label(b) == 'de::deserializer::types::blocks::BlockReader::has_more':
            hm = b
    if hm is None:
        ctx.ob('SEQCAP', 'has_more', False, None, 'anchor BlockReader::has_more not found')
        return
    ctx.touched(hm)
    # the comparison with config.max_seq_size
    cap = None
    for sbb in sorted(hm.live_blocks()):
        if hm.term(sbb)['k'] != 'switch':
            continue
        si = hm.switch_info(sbb)
        cond = switch_condition(hm, si)
        if cond[0] == 'cmp' and cond[1] in ('Gt', 'Ge', 'Lt', 'Le'):
            lo, ro = origin(hm, cond[2]), origin(hm, cond[3])
            if 'max_seq_size' in ro.fields and cond[1] in ('Gt', 'Ge'):
                cap = (sbb, cond[1], lo, ro, si)
            elif 'max_seq_size' in lo.fields and cond[1] in ('Lt', 'Le'):
                cap = (sbb, cond[1], ro, lo, si)
    if cap is None:
        ctx.ob('SEQCAP', 'has_more/cap-test', False, short_loc(hm.span), 'no comparison of the cumulative count with config.max_seq_size')
        return
    sbb, op, cnt, lim, si = cap
    sat = any(call_matches(c, ['::saturating_add']) for c in cnt.calls) or any('saturating_add' in a[1] for a in cnt.atoms if a[0] == 'call')
    # saturating_add(self.n_read, l): look at its operands
    acc = False
    acc_field = None
    for bb, t in hm.calls():
        if call_matches(t, ['::saturating_add']):
            a0, a1 = origin(hm, t['args'][0]), origin(hm, t['args'][1])
            # (flow-insensitive provenance folds the stored sum back into the field once a helper is spliced in)
            if len(a0.fields) == 1 and a0.params() == {1} and all('saturating_add' in n_ for n_ in a0.call_names()) and any('read_block_len' in cname(c) for c in a1.calls) and \
                    ('nz_get' in a1.flags or not a1.has_arith()):
                acc = True
                acc_field = list(a0.fields)[0]
    ctx.ob('SEQCAP', 'has_more/cumulative-saturating', sat and acc, short_loc(hm.span),
           'count compared is saturating_add(self.%s, header count): %s/%s' % (acc_field, sat, acc))
    # exceeded edge errs
    t0 = [x['bb'] for x in hm.term(sbb)['targets'] if x['v'] == 0][0]
    exceeded = hm.term(sbb)['otherwise']
    ctx.ob('SEQCAP', 'has_more/exceeded-errs', all_paths_err(hm, exceeded), short_loc(hm.span), 'count > max_seq_size returns Err on every path')
    # every Ok(true) reachable after a header read passes the test
    rb = [bb for bb, t in hm.calls() if 'read_block_len' in cname(t)]
    trues = []
    for bb in ok_return_blocks(hm):
        for s in hm.stmts(bb):
            if 'assign' in s and s['assign']['l'] == 0 and s['rv']['k'] == 'agg' and const_int(s['rv']['ops'][0]) == 1:
                trues.append(bb)
    ok = bool(rb) and bool(trues) and all(must_pass(hm, r, trues, [sbb]) for r in rb)
    ctx.ob('SEQCAP', 'has_more/cap-dominates-more', ok, short_loc(hm.span),
           'every path from a block-header read to Ok(true) passes the max_seq_size comparison: %s' % ok)
    # n_read is stored back
    st = False
    for bb in hm.live_blocks():
        for s in hm.stmts(bb):
            if 'assign' in s and acc_field and any(isinstance(e, dict) and e.get('f') == acc_field for e in s['assign'].get('p', [])):
                o = origin(hm, s['rv']['op']) if s['rv']['k'] == 'use' else None
                if o is not None and any(call_matches(c, ['::saturating_add']) for c in o.calls):
                    st = True
    ctx.ob('SEQCAP', 'has_more/count-accumulates', st, short_loc(hm.span), 'self.%s = the saturating sum: %s' % (acc_field, st))


def alloc_rule(ctx, scope):
    n = 0
    for b in scope:
        fl = fn_label(b)
        for bb, t, c in alloc_sites(b):
            n += 1
            base = fl.split('::{closure')[0]
            if base.startswith('de::error::') or base.startswith('<de::error::'):
                ctx.ob('ALLOC', '%s/%s' % (fl, c.rsplit('::', 1)[1]), True, short_loc(t.get('span')), 'allocation inside an error constructor (failure path only)', nontrivial=False)
                continue
            if base == '<de::read::ReaderRead as de::read::ReadSlice>::read_slice' and c.endswith('::resize'):
                no = origin(b, t['args'][1])
                ok = False
                for g in cmp_guards(b, bb):
                    if g['op'] == 'Le' and g['l'].atoms == no.atoms and 'max_alloc_size' in g['r'].fields:
                        ok = all(all_paths_err(b, s) for s in g['other'])
                    if g['op'] == 'Ge' and g['r'].atoms == no.atoms and 'max_alloc_size' in g['l'].fields:
                        ok = all(all_paths_err(b, s) for s in g['other'])
                ctx.ob('ALLOC', '%s/resize' % fl, ok and no.params() == {2} and not no.has_arith(), short_loc(t.get('span')),
                       'scratch.resize(n) dominated by n <= max_alloc_size (other edge returns Err): %s' % ok)
                continue
            ctx.ob('ALLOC', '%s/%s' % (fl, c.rsplit('::', 1)[1]), False, short_loc(t.get('span')),
                   'allocation-capable call %s on the datum decode path outside the error constructors' % c)
    ctx.floor('ALLOC', 'allocation-capable call sites examined', n, 4)
    # ... "failure path only" is a fact about the CALL SITES of the error constructors: a `DeError` built eagerly -
    # `checked_sub(size).ok_or(DeError::custom(..))?` - formats and boxes its message on every successful decode.  A
    # DeError is built either inside a closure that returns it (run by ok_or_else / map_err on failure) or at a point from
    # which every path returns Err.
    m, eager = 0, []
    for b in scope:
        fl = fn_label(b)
        base = fl.split('::{closure')[0]
        if base.startswith('de::error::') or base.startswith('<de::error::'):
            continue
        for bb, t in b.calls():
            d = t.get('dest') or {}
            if b.is_cleanup(bb) or d.get('p') or not (b.local_ty(d.get('l', 0)) or '').endswith('de::error::DeError'):
                continue
            m += 1
            lazy = b.j['kind'] == 'closure' and 'Result' not in (b.local_ty(0) or '')
            if not (lazy or ('target' in t and all_paths_err(b, t['target']))):
                eager.append('%s at %s' % (short_fn(fl), short_loc(t.get('span'))))
    ctx.ob('ALLOC', 'errors-built-on-failure-paths-only', not eager, None,
           '%d sites build a DeError on the decode path; built where an Ok return is still reachable: %s' % (m, eager or 'none'))
    ctx.floor('ALLOC', 'DeError construction sites examined', m, 20)
    # error constructors are only reached on failure paths: they return DeError (never part of an Ok value)
    # (structural: their return type is DeError)
    for b in scope:
        fl = fn_label(b)
        if (fl.startswith('de::error::DeError::') or fl.startswith('<de::error::DeError as serde_core::de::Error>')) and alloc_sites(b):
            ctx.ob('ALLOC', 'error-ctor/%s' % fl, 'DeError' in b.local_ty(0), short_loc(b.span), 'returns %s' % b.local_ty(0), nontrivial=False)


PROGRESS = ['de::read::Read::read_varint', 'de::read::Read::skip_bytes', 'de::read::ReadSlice::read_slice',
            'de::read::Read::read_const_size_buf', 'std::io::Read::read_exact']


def loop_rule(ctx, scope):
    n = 0
    for b in scope:
        for h, blk in natural_loops(b).items():
            n += 1
            calls = [(bb, b.term(bb)) for bb in blk if b.term(bb)['k'] == 'call']
            prog = [cname(t) for bb, t in calls if (t.get('callee') or '') in PROGRESS]
            iters = [cname(t) for bb, t in calls if (t.get('callee') or '').endswith('iter::traits::iterator::Iterator::next')]
            ok = False
            why = ''
            if prog:
                # every cycle through the header must pass a progress call whose failure leaves the loop (`?`):
                # remove those blocks, no cycle may remain
                pb = set()
                for bb, t in calls:
                    if (t.get('callee') or '') in PROGRESS:
                        te = try_edges(b, bb)
                        if te is not None and te[1] is not None and all_paths_err(b, te[1]):
                            pb.add(bb)
                rem = blk - pb
                cyc = False
                for s in b.succs(h):
                    if s in rem and h in b.reachable_from(s, avoid=(set(range(b.n)) - rem)):
                        cyc = True
                if h in pb:
                    cyc = False
                if not pb:
                    cyc = True
                ok = not cyc
                why = 'every iteration consumes input (%s)' % sorted(set(prog))[0]
                if cyc:
                    why = 'a cycle through bb%d avoids every input-consuming call' % h
            elif iters:
                # bounded iterator: the loop exits on None of next()
                ok = True
                why = 'bounded iterator (%s)' % iters[0][:60]
            else:
                why = 'no input-consuming step and no bounded iterator in the loop'
            ctx.ob('LOOP', '%s/loop@%d' % (fn_label(b), sum(1 for h2 in natural_loops(b) if h2 < h)), ok, short_loc(b.span), why)
    ctx.floor('LOOP', 'loops on the decode path', n, 1)
