"""C06 - container files follow the Avro file layout (structural part).

  MAGIC     HEADER_CONST == b"Obj\\x01"; written first; the reader compares the first 4 bytes with it before anything else
  META      metadata keys avro.schema / avro.codec on both sides; header schema map<bytes>; codec names emitted ==
            accepted == {null deflate bzip2 snappy xz zstandard} and each codec variant is written under its spec name
  DEFLATE   raw deflate on both sides (Compress::new(_, false) / DeflateDecoder, not ZlibDecoder)
  SNAPPY    CRC32 of the *uncompressed* data, big-endian, appended after / read after the compressed bytes; the
            declared block size includes the 4 bytes on both sides
  FRAMING   block header = varint(count) then varint(byte size of the codec-framed data); one vectored write of
            [header, data, sync]; the reader reads count, size, takes `size` bytes, then compares 16 bytes with the
            header's marker; sync marker is 16 bytes on both sides; count and size reach the varint encoder with no
            narrowing cast; the magic and the sync marker are compared as whole arrays (no sub-range)
  HEADER    every Ok return of the builder is dominated by the write of the complete header; schema JSON is the
            configuration schema's json()
  META      ... avro.codec is optional in the header (absent = null)                           (found F31)
  BLOCKCFG  data blocks are decoded under a fresh default configuration over the file's schema, never under the
            tightened configuration of the header (shared with C05): what any conforming writer wrote is readable
  shared    SLICE / VARINT / FIXEDBUF reading primitives (c11); SINK/one-block-writer (c16)
It does NOT decide that third-party tools read the file.
"""
from ..lib import *
from ..core import short_loc, op_place, const_int, const_str, const_bytes
from .c03 import fn_by_label
from ..dematrix import classify_de

EXPLANATION = ("Container-file layout, structural part: format constants and field order agree with the Avro specification table "
               "on the writer and the reader (magic, metadata keys, codec names, raw deflate, big-endian CRC of uncompressed data, "
               "count/size/data/sync order) and the header is fully written before the builder returns. Interoperability with "
               "other implementations is not decided.")

P = 'object_container_file_encoding::'
SPEC_CODECS = {'Null': 'null', 'Deflate': 'deflate', 'Bzip2': 'bzip2', 'Snappy': 'snappy', 'Xz': 'xz', 'Zstandard': 'zstandard'}
FEAT = {'Deflate': 'deflate', 'Bzip2': 'bzip2', 'Snappy': 'snappy', 'Xz': 'xz', 'Zstandard': 'zstandard'}


def strs_in(b, blocks=None):
    out = set()
    for bb in (blocks if blocks is not None else b.live_blocks()):
        for s in b.stmts(bb):
            if 'assign' in s and s['rv']['k'] == 'use':
                v = const_str(s['rv']['op'])
                if v is not None:
                    out.add(v)
        t = b.term(bb)
        if t['k'] == 'call':
            for a in t['args']:
                v = const_str(a)
                if v is not None:
                    out.add(v)
    return out


def run(ctx):
    from .c16 import complete_write_rules
    complete_write_rules(ctx)
    # files of any conforming writer must be readable: the blocks are decoded under the default limits, not under the
    # tightened configuration of the header (shared with C05)
    from .c05 import blockcfg_rule
    blockcfg_rule(ctx)
    codec_default_rule(ctx)
    # a conforming file is read back value for value only if the reading primitives hand the decoder exactly the bytes of
    # each value, whichever way the (decompressed) block reaches them - borrowed slice, buffered reader or the scratch
    # copy of a value that straddles a refill (shared with C03 / C11)
    from . import c11
    c11.slice_rule(ctx)
    c11.varint_rule(ctx)
    c11.fixedbuf_rule(ctx)
    f = ctx.f
    # ---- MAGIC
    hc = f.consts.get(P + 'HEADER_CONST')
    val = (hc or {}).get('value', {}).get('mem')
    ctx.ob('MAGIC', 'value', val == '4f626a01', None, 'HEADER_CONST = %s (spec: 4f 62 6a 01 = "Obj\\x01")' % val)
    bw = fn_by_label(f, P + 'writer::WriterBuilder::build_with_user_metadata')
    rd = fn_by_label(f, P + 'reader::Reader::new_and_metadata')
    if bw is None or rd is None:
        ctx.ob('MAGIC', 'anchors', False, None, 'builder / reader constructor not found')
        return
    ctx.touched(bw, len(bw.calls())); ctx.touched(rd, len(rd.calls()))
    # writer: first write into the header buffer is HEADER_CONST
    was = [(bb, t) for bb, t in bw.calls() if (t.get('callee') or '') == 'std::io::Write::write_all']
    first = None
    for bb, t in was:
        if all(bw.dominates(bb, bb2) for bb2, _ in was):
            first = (bb, t)
    okw = False
    if first:
        o = origin(bw, first[1]['args'][1])
        okw = any(a[0] == 'const' and str(a[1]).endswith('HEADER_CONST') for a in o.atoms) or any('4f626a01' in str(a[1]) for a in o.atoms if a[0] == 'const')
    ctx.ob('MAGIC', 'writer-first', okw, short_loc(bw.span), 'first bytes written into the header buffer are HEADER_CONST: %s' % okw)
    # reader: first read is read_const_size_buf::<4>, compared with HEADER_CONST; mismatch => Err
    reads = [(bb, t) for bb, t in rd.calls() if classify_de(rd, bb, t) and classify_de(rd, bb, t)[0] in ('FIXED', 'VARINT', 'SLICE', 'LENDELIM')] + \
            [(bb, t) for bb, t in rd.calls() if (t.get('callee') or '') == 'serde_core::de::Deserialize::deserialize']
    f4 = [(bb, t) for bb, t in rd.calls() if classify_de(rd, bb, t) == ('FIXED', 4)]
    okr = len(f4) == 1 and all(rd.dominates(f4[0][0], bb) for bb, _ in reads)
    cmp_ok = False
    if okr:
        for bb, t in rd.calls():
            if (t.get('callee') or '') in ('core::cmp::PartialEq::ne', 'core::cmp::PartialEq::eq'):
                a0, a1 = origin(rd, t['args'][0]), origin(rd, t['args'][1])
                if any(c is f4[0][1] for c in a0.calls + a1.calls) and any(a[0] == 'const' and ('HEADER_CONST' in str(a[1]) or '4f626a01' in str(a[1])) for a in a0.atoms | a1.atoms) \
                        and compares_whole_arrays(rd, t, 4):
                    # result switched on; the "different" edge errs
                    sw = t.get('target')
                    while sw is not None and rd.term(sw)['k'] == 'goto':
                        sw = rd.term(sw)['target']
                    if sw is not None and rd.term(sw)['k'] == 'switch':
                        ne = (t.get('callee') or '').endswith('::ne')
                        t0 = [x['bb'] for x in rd.term(sw)['targets'] if x['v'] == 0][0]
                        diff = rd.term(sw)['otherwise'] if ne else t0
                        cmp_ok = all_paths_err(rd, diff)
    ctx.ob('MAGIC', 'reader-first', okr and cmp_ok, short_loc(rd.span), 'the 4-byte magic is read before anything else: %s; mismatch returns Err: %s' % (okr, cmp_ok))

    # ---- META
    ser = [b for b in f.body_list if (P + '_::') in b.id and b.name == 'serialize' and b.j['kind'] != 'closure']
    de_vis = [b for b in f.body_list if (P + '_::') in b.id and b.name in ('visit_str', 'visit_bytes', 'visit_borrowed_str', 'visit_map')]
    emitted = set()
    for b in ser:
        emitted |= strs_in(b)
    accepted = set()
    for b in de_vis:
        accepted |= strs_in(b)
    for key in ('avro.schema', 'avro.codec'):
        ctx.ob('META', 'key/%s' % key, key in emitted and key in accepted, None, 'metadata key %s: written %s, read %s' % (key, key in emitted, key in accepted))
    # codec names per variant in the derived Serialize
    cser = None
    for b in ser:
        if b.switches_on_adt(P + 'CompressionCodec'):
            cser = b
    names = {}
    if cser is not None:
        ctx.touched(cser)
        for r in enum_regions(cser, P + 'CompressionCodec'):
            st = strs_in(cser, r.blocks) - {'CompressionCodec'}
            for v in r.variants:
                names[v] = st
    for v, nm in SPEC_CODECS.items():
        if v in FEAT and not ctx.has_feature(FEAT[v]):
            continue
        ctx.ob('META', 'codec-name/%s' % v, names.get(v) == {nm}, short_loc(cser.span) if cser else None,
               'CompressionCodec::%s is written as %s (spec: "%s")' % (v, sorted(names.get(v, [])), nm))
        ctx.ob('META', 'codec-accepted/%s' % v, nm in accepted, None, 'codec name "%s" is accepted by the reader: %s' % (nm, nm in accepted))
    # header schema = map<bytes>
    ms = [b for b in f.body_list if b.j['kind'] == 'const' and b.id == P + 'METADATA_SCHEMA']
    ok = False
    det = 'METADATA_SCHEMA initialiser not found'
    if ms:
        kinds = []
        for blk in ms[0].blocks:
            for s in blk['stmts']:
                if 'assign' in s and s['rv']['k'] == 'agg' and s['rv'].get('adt') == SCHEMA_NODE:
                    kinds.append(s['rv']['variant'])
        for pr in ms[0].j.get('promoted', []):
            for blk in pr:
                for s in blk['stmts']:
                    if 'assign' in s and s['rv']['k'] == 'agg' and s['rv'].get('adt') == SCHEMA_NODE:
                        kinds.append(s['rv']['variant'])
        ok = sorted(kinds) == ['Bytes', 'Map']
        det = 'METADATA_SCHEMA is built from nodes %s (spec: map<bytes>)' % kinds
    ctx.ob('META', 'header-schema', ok, None, det)
    # both sides use it
    use_w = any(a[0] == 'const' and 'METADATA_SCHEMA' in str(a[1]) for bb, t in bw.calls() for arg in t['args'] for a in origin(bw, arg).atoms)
    use_r = any(a[0] == 'const' and 'METADATA_SCHEMA' in str(a[1]) for bb, t in rd.calls() for arg in t['args'] for a in origin(rd, arg).atoms)
    ctx.ob('META', 'header-schema-used', use_w and use_r, None, 'METADATA_SCHEMA used by the writer: %s, by the reader: %s' % (use_w, use_r))
    # schema json = config schema's json(); codec = compression.codec()
    mdagg = None
    for bb in bw.live_blocks():
        for s in bw.stmts(bb):
            if 'assign' in s and s['rv']['k'] == 'agg' and s['rv'].get('adt') == P + 'Metadata':
                mdagg = s['rv']
    ok = False
    if mdagg:
        so = origin(bw, mdagg['ops'][mdagg['fields'].index('schema')])
        co = origin(bw, mdagg['ops'][mdagg['fields'].index('codec')])
        sn = deep_call_names(bw, mdagg['ops'][mdagg['fields'].index('schema')])
        cn = deep_call_names(bw, mdagg['ops'][mdagg['fields'].index('codec')])
        cc = [c for c in co.calls if cname(c).endswith('Compression::codec')]
        ok = any(n_.endswith('Schema::json') for n_ in sn) and any(strip_generics(n_).endswith('SerializerConfig::schema') for n_ in sn) and \
            bool(cc) and 'compression' in origin(bw, cc[0]['args'][0]).fields
    ctx.ob('META', 'schema-json-and-codec', ok, short_loc(bw.span), 'avro.schema = serializer_config.schema().json(), avro.codec = self.compression.codec(): %s' % ok)

    deflate(ctx)
    snappy(ctx)
    framing(ctx, bw, rd)
    reject(ctx)
    # the object count announced by a block equals the number of objects whose bytes it holds: a failed value is
    # neither kept nor counted (shared with C15)
    from .c15 import failed_rule
    failed_rule(ctx)


def codec_default_rule(ctx):
    """`avro.codec` is optional in the header ("If codec is absent, it is assumed to be null"; the Java writer leaves it out
    unless a codec was set): the header reader requires `avro.schema` only - a header without avro.codec is not a
    "missing field" error"""
    f = ctx.f
    req = set()
    n = 0
    for b in f.body_list:
        if 'object_container_file_encoding::' not in b.id or 'Metadata' not in b.id:
            continue
        for bb, t in b.calls():
            if cname(t).endswith('de::missing_field') and not b.is_cleanup(bb):
                n += 1
                for a in t['args']:
                    v = const_str(a)
                    if v is not None:
                        req.add(v)
    ctx.ob('META', 'codec-is-optional', n >= 1 and 'avro.schema' in req and 'avro.codec' not in req, None,
           'header keys whose absence is an error: %s (the specification requires avro.schema only; an absent avro.codec means null)' % sorted(req))


def deflate(ctx):
    f = ctx.f
    if not ctx.has_feature('deflate'):
        return
    nb = fn_by_label(f, P + 'writer::compression::CompressionCodecState::new')
    ok = False
    if nb:
        for bb, t in nb.calls():
            if cname(t) == 'flate2::mem::Compress::new':
                ok = const_int(t['args'][1]) == 0
    ctx.ob('DEFLATE', 'writer-raw', ok, short_loc(nb.span) if nb else None, 'flate2::Compress::new(_, zlib_header = false): %s' % ok)
    st = fn_by_label(f, P + 'reader::decompression::state')
    okr = False
    zl = False
    if st:
        for bb, t in st.calls():
            c = cname(t)
            if 'DeflateDecoder' in c and c.endswith('::new'):
                okr = True
            if 'ZlibDecoder' in c or 'GzDecoder' in c:
                zl = True
    ctx.ob('DEFLATE', 'reader-raw', okr and not zl, short_loc(st.span) if st else None, 'reader uses DeflateDecoder (raw): %s; zlib/gzip decoder present: %s' % (okr, zl))


def snappy(ctx):
    f = ctx.f
    if not ctx.has_feature('snappy'):
        return
    enc = with_helpers(fn_by_label(f, P + 'writer::compression::CompressionCodecState::encode'))
    ok = False
    det = 'crc call not found'
    if enc:
        ctx.touched(enc)
        for bb, t in enc.calls():
            if cname(t) == 'crc32fast::hash':
                src = origin(enc, t['args'][0])
                ext = [(b2, t2) for b2, t2 in enc.calls() if cname(t2).endswith('Extend<T>>::extend') or cname(t2).endswith('extend_from_slice')]
                be = False
                after = False
                for b2, t2 in ext:
                    eo = origin(enc, t2['args'][1])
                    if any(c is t for c in eo.calls):
                        be = 'to_be' in eo.flags and 'to_le' not in eo.flags
                        tr = [b3 for b3, t3 in enc.calls() if call_matches(t3, ['Vec::<T, A>::truncate'])]
                        after = bool(tr) and all(enc.dominates(x, b2) for x in tr) and 'output_vec' in origin(enc, t2['args'][0]).fields
                ok = src.params() == {2} and not src.fields and be and after
                det = 'crc32 over the uncompressed input parameter: %s; to_be_bytes: %s; appended to the output after truncation: %s' % (src.params() == {2} and not src.fields, be, after)
    ctx.ob('SNAPPY', 'writer', ok, short_loc(enc.span) if enc else None, det)
    st = fn_by_label(f, P + 'reader::decompression::state')
    ok = False
    det = 'crc call not found'
    if st:
        ctx.touched(st)
        for bb, t in st.calls():
            if cname(t) == 'crc32fast::hash':
                src = origin(st, t['args'][0])
                # the buffer hashed is the one the snappy decoder wrote into (same parameter / local of `state`)
                outs = set()
                for cb in [st] + f.closures_of(st):
                    for b3, t3 in cb.calls():
                        if cname(t3).endswith('Decoder::decompress') and len(t3['args']) > 2:
                            oo = origin(cb, t3['args'][2])
                            outs |= {a for a in oo.atoms if a[0] == 'param'}
                over = bool(outs) and {a for a in src.atoms if a[0] == 'param'} == outs and 'index' not in src.flags and 'subslice' not in src.flags and not src.has_arith()
                # expected: from_be_bytes(read_const_size_buf::<4>) read AFTER the compressed slice
                exp = None
                for b2, t2 in st.calls():
                    if classify_de(st, b2, t2) == ('FIXED', 4):
                        exp = (b2, t2)
                rs = [(b2, t2) for b2, t2 in st.calls() if classify_de(st, b2, t2) and classify_de(st, b2, t2)[0] in ('SLICE', 'SIZED', 'FIXED') and (t2.get('callee') or '').endswith('read_slice')]
                sub4 = False
                for b2, t2 in st.calls():
                    if call_matches(t2, ['::checked_sub']) and origin(st, t2['args'][1]).consts() == {4} and origin(st, t2['args'][0]).params():
                        sub4 = 'try' in origin(st, {'copy': t2['dest']}).flags or True
                # ... or the explicit form: `if block_size < 4 { return Err(..) }  block_size - 4`
                for b2 in sorted(st.live_blocks()):
                    for s2 in st.stmts(b2):
                        if 'assign' in s2 and s2['rv']['k'] == 'bin' and s2['rv']['op'] in ('Sub', 'SubWithOverflow') and const_int(s2['rv']['r']) == 4 \
                                and origin(st, s2['rv']['l']).params() and sub_is_guarded(st, b2, s2['rv']['l'], s2['rv']['r']):
                            sub4 = True
                be = False
                cmp_err = False
                if exp:
                    for sbb in sorted(st.live_blocks()):
                        if st.term(sbb)['k'] == 'switch':
                            cond = switch_condition(st, st.switch_info(sbb))
                            if cond[0] == 'cmp' and cond[1] in ('Ne', 'Eq'):
                                lo, ro = origin(st, cond[2]), origin(st, cond[3])
                                sides = [lo, ro]
                                if any(any(c is t for c in s_.calls) or any(a[0] == 'call' and a[1] == 'crc32fast::hash' for a in s_.atoms) for s_ in sides) and any(any(c is exp[1] for c in s_.calls) for s_ in sides):
                                    be = any('from_be' in s_.flags and 'from_le' not in s_.flags for s_ in sides)
                                    t0 = [x['bb'] for x in st.term(sbb)['targets'] if x['v'] == 0][0]
                                    diff = st.term(sbb)['otherwise'] if cond[1] == 'Ne' else t0
                                    cmp_err = all_paths_err(st, diff)
                order = bool(rs) and exp is not None and all(st.dominates(b2, exp[0]) for b2, _ in rs)
                ok = over and be and cmp_err and order and sub4
                det = 'crc over the decompressed buffer: %s; expected value = from_be_bytes(4 bytes read after the compressed slice): %s/%s; mismatch => Err: %s; compressed length = block size - 4 (checked): %s' % (over, be, order, cmp_err, sub4)
    ctx.ob('SNAPPY', 'reader', ok, short_loc(st.span) if st else None, det)


def framing(ctx, bw, rd):
    f = ctx.f
    fb = fn_by_label(f, P + 'writer::WriterInner::finish_block')
    fl = fn_by_label(f, P + 'writer::Writer::flush_finished_block')
    nx = fn_by_label(f, P + 'reader::Reader::deserialize_next_inner')
    for nm, b in (('WriterInner::finish_block', fb), ('Writer::flush_finished_block', fl), ('Reader::deserialize_next_inner', nx)):
        if b is None:
            ctx.ob('FRAMING', nm, False, None, 'anchor %s not found' % nm)
            return
        ctx.touched(b, len(b.calls()))
    ev = [(bb, t) for bb, t in fb.calls() if (t.get('callee') or '').endswith('VarInt::encode_var')]
    ok = len(ev) == 2 and fb.dominates(ev[0][0], ev[1][0])
    det = '%d encode_var calls' % len(ev)
    if ok:
        o1 = origin(fb, ev[0][1]['args'][0]); o2 = origin(fb, ev[1][1]['args'][0])
        long1 = ev[0][1]['substs'][0] == 'i64' and ev[1][1]['substs'][0] == 'i64' if ev[0][1].get('substs') else False
        c1 = 'n_elements_in_block' in o1.fields and not o1.has_arith() and not narrowing_casts(o1)
        c2 = any(cname(c).endswith('WriterInner::<\'c, \'s>::compressed_block') for c in o2.calls) and 'len' in o2.flags and not o2.has_arith() and not narrowing_casts(o2)
        # second varint goes right after the first one in the header buffer
        d2 = origin(fb, ev[1][1]['args'][1])
        after = False
        for c in d2.calls:
            if call_matches(c, ['IndexMut::index_mut', 'IndexMut<I>>::index_mut']):
                ro = origin(fb, c['args'][1])
                after = any(x is ev[0][1] for x in ro.calls) and any(a[0] == 'agg' and a[1].endswith('RangeFrom') for a in ro.atoms) and not ro.has_arith()
        after = after and 'block_header_buffer' in d2.fields
        d1 = origin(fb, ev[0][1]['args'][1])
        ok = c1 and c2 and after and 'block_header_buffer' in d1.fields and long1
        det = 'first varint = object count (long): %s; second = compressed_block().len() (long): %s; second written right after the first: %s' % (c1, c2, after)
    ctx.ob('FRAMING', 'writer/header-count-then-size', ok, short_loc(fb.span), det)
    # header size = n + n2
    hs = False
    for bb, t in fb.calls():
        if strip_generics(cname(t)).endswith('NonZero::new'):
            o = origin(fb, t['args'][0])
            if len([c for c in o.calls if (c.get('callee') or '').endswith('VarInt::encode_var')]) == 2 and {x for x in o.flags if x.startswith('arith:')} <= {'arith:AddWithOverflow', 'arith:Add'} and o.has_arith():
                hs = True
    ctx.ob('FRAMING', 'writer/header-size', hs, short_loc(fb.span), 'block_header_size = n + n2 (the two varint lengths): %s' % hs)
    # vectored write of [header[..size], compressed_block(), sync_marker]
    vw = [(bb, t) for bb, t in fl.calls() if cname(t).endswith('vectored_write_polyfill::write_all_vectored')]
    ok = len(vw) == 1
    det = '%d write_all_vectored call(s)' % len(vw)
    if ok:
        arr = None
        p = op_place(vw[0][1]['args'][1])
        for d in fl.defs().get(p['l'], []) if p else []:
            if d[2] == 'assign' and d[3]['k'] == 'agg' and d[3].get('agg') == 'array':
                arr = d[3]['ops']
        if arr and len(arr) == 3:
            o0, o1, o2 = (origin(fl, x) for x in arr)
            rng = set()
            for c in o0.calls:
                if call_matches(c, ['Index::index', 'Index<I>>::index', 'index::Index<I>>::index']):
                    rng |= origin(fl, c['args'][1]).fields
            ros = [origin(fl, c['args'][1]) for c in o0.calls if call_matches(c, ['Index::index', 'Index<I>>::index', 'index::Index<I>>::index'])]
            # (the pending size is a NonZeroUsize read with get(), or a plain usize with 0 standing for "nothing pending")
            h_ok = 'block_header_buffer' in o0.fields and bool(rng) and \
                ('nz_get' in ''.join(sorted(set().union(*[r_.flags for r_ in ros] or [set()]))) or
                 ('block_header_size' in rng and not any(r_.has_arith() for r_ in ros) and all(any(a[0] == 'agg' and a[1].endswith('RangeTo') for a in r_.atoms) for r_ in ros)))
            d_ok = any(cname(c).endswith('compressed_block') for c in o1.calls)
            s_ok = 'sync_marker' in o2.fields
            ok = h_ok and d_ok and s_ok
            det = 'array order [header[..size]: %s, compressed_block(): %s, sync_marker: %s]' % (h_ok, d_ok, s_ok)
        else:
            ok = False
            det = 'argument is not a 3-element array'
    ctx.ob('FRAMING', 'writer/header-data-sync', ok, short_loc(fl.span), det)
    # sync marker 16 bytes both sides
    wr = None
    for path, a in f.adts.items():
        if path == P + 'writer::WriterInner':
            wr = {fl_['name']: fl_['ty'] for fl_ in a['variants'][0]['fields']}
    rdr = None
    for path, a in f.adts.items():
        if path == P + 'reader::Reader':
            rdr = {fl_['name']: fl_['ty'] for fl_ in a['variants'][0]['fields']}
    ctx.ob('FRAMING', 'sync-16-bytes', bool(wr) and bool(rdr) and array_newtype(f, wr.get('sync_marker') or '', 16) and array_newtype(f, rdr.get('sync_marker') or '', 16), None,
           'sync marker types: writer %s, reader %s' % ((wr or {}).get('sync_marker'), (rdr or {}).get('sync_marker')))
    # header: sync marker written after metadata, then whole buffer to the sink; Ok only after
    was = [(bb, t) for bb, t in bw.calls() if (t.get('callee') or '') == 'std::io::Write::write_all']
    sink = [(bb, t) for bb, t in was if origin(bw, t['args'][0]).params() == {2}]
    buf_w = [(bb, t) for bb, t in was if (bb, t) not in sink]
    ok = len(sink) == 1
    det = '%d write(s) to the sink in the builder' % len(sink)
    if ok:
        sbb, st_ = sink[0]
        te = try_edges(bw, sbb)
        oks = ok_return_blocks(bw)
        dom = te is not None and all(bw.dominates(te[0], o) for o in oks) and te[1] is not None and all_paths_err(bw, te[1])
        last = all(bw.dominates(bb, sbb) for bb, _ in buf_w)
        sync_last = False
        if buf_w:
            lastw = [x for x in buf_w if all(bw.dominates(y[0], x[0]) for y in buf_w)]
            if lastw:
                so = origin(bw, lastw[0][1]['args'][1])
                sync_last = any(bw.local_name(a[1]) == 'sync_marker' for a in so.atoms if a[0] == 'param') or 'enforce_sync_marker_value' in so.fields or \
                    any('rand' in cname(c) or 'Rng' in cname(c) for c in so.calls) or 'array:16' in so.flags or any(str(fl_).startswith('repeat:16') for fl_ in so.flags)
        meta_ser = [(bb, t) for bb, t in bw.calls() if (t.get('callee') or '') == 'serde_core::ser::Serialize::serialize']
        meta_before = bool(meta_ser) and all(bw.dominates(bb, sbb) for bb, _ in meta_ser)
        whole = 'index' not in origin(bw, st_['args'][1]).flags and 'subslice' not in origin(bw, st_['args'][1]).flags
        ok = dom and last and sync_last and meta_before and whole
        det = 'magic, metadata (%s) and sync marker (%s) are appended before the single sink write of the whole buffer (%s); every Ok return is after its success (%s)' % (meta_before, sync_last, whole and last, dom)
    ctx.ob('HEADER', 'builder/complete-before-ok', ok, short_loc(bw.span), det)
    # reader header: 16-byte marker read after metadata
    f16 = [(bb, t) for bb, t in rd.calls() if classify_de(rd, bb, t) == ('FIXED', 16)]
    md = [(bb, t) for bb, t in rd.calls() if (t.get('callee') or '') == 'serde_core::de::Deserialize::deserialize']
    ok = len(f16) == 1 and bool(md) and all(rd.dominates(bb, f16[0][0]) for bb, _ in md)
    ctx.ob('HEADER', 'reader/marker-after-metadata', ok, short_loc(rd.span), '16-byte sync marker read after the metadata map: %s' % ok)
    # reader block: count, size, state(block_size), 16-byte marker compared with self.sync_marker
    reg = None
    RS = P + 'reader::ReaderState'
    for r in enum_regions(nx, RS):
        if 'NotInBlock' in r.variants and len(r.variants) == 1:
            reg = r
    ok = False
    det = 'NotInBlock arm not found'
    if reg:
        vr = [(bb, nx.term(bb)) for bb in sorted(reg.blocks) if nx.term(bb)['k'] == 'call' and classify_de(nx, bb, nx.term(bb)) and classify_de(nx, bb, nx.term(bb))[0] == 'VARINT']
        stc = [(bb, nx.term(bb)) for bb in sorted(reg.blocks) if nx.term(bb)['k'] == 'call' and strip_generics(cname(nx.term(bb))).endswith('decompression::state')]
        ok = len(vr) == 2 and len(stc) == 1
        det = '%d varint reads, %d state() calls in the NotInBlock arm' % (len(vr), len(stc))
        if ok:
            a_, b_ = vr
            first, second = (a_, b_) if nx.dominates(a_[0], b_[0]) else (b_, a_)
            bs = origin(nx, stc[0][1]['args'][-1])
            size_from_second = any(c is second[1] for c in bs.calls) and not any(c is first[1] for c in bs.calls) and 'try_into' in bs.flags and not bs.has_arith()
            long_ = first[1]['substs'][-1] == 'i64' and second[1]['substs'][-1] == 'i64'
            # count goes to n_objects_in_block
            cnt = False
            for bb in reg.blocks:
                for s in nx.stmts(bb):
                    if 'assign' in s and s['rv']['k'] == 'agg' and s['rv'].get('adt') == RS and s['rv']['variant'] == 'InBlock':
                        co = origin(nx, s['rv']['ops'][s['rv']['fields'].index('n_objects_in_block')])
                        cnt = any(c is first[1] for c in co.calls) and 'try_into' in co.flags and not co.has_arith()
            ok = size_from_second and long_ and cnt
            det = 'first long = object count (%s), second long = byte size handed to the codec state (%s)' % (cnt, size_from_second)
    ctx.ob('FRAMING', 'reader/count-then-size', ok, short_loc(nx.span), det)
    # end of block: 16 bytes compared with self.sync_marker
    f16 = [(bb, t) for bb, t in nx.calls() if classify_de(nx, bb, t) == ('FIXED', 16)]
    ok = False
    if len(f16) == 1:
        for bb, t in nx.calls():
            if (t.get('callee') or '') in ('core::cmp::PartialEq::ne', 'core::cmp::PartialEq::eq'):
                a0, a1 = origin(nx, t['args'][0]), origin(nx, t['args'][1])
                if any(x is f16[0][1] for x in a0.calls + a1.calls) and ('sync_marker' in a0.fields or 'sync_marker' in a1.fields) and compares_whole_arrays(nx, t, 16):
                    ok = True
    ctx.ob('FRAMING', 'reader/sync-compared', ok, short_loc(nx.span), 'all 16 trailing bytes compared with the header\'s sync marker: %s' % ok)


# rejection sites of the container reader (all features): reviewed once, each is a spec violation of the input
REJECT_REVIEWED = 12
REJECT_REASONS = [
    'header: magic mismatch (NotAvroObjectContainerFile)',
    'block header: negative object count / negative byte size (2 conversion errors)',
    'block end: sync marker mismatch; reader reused after an error (Broken)',
    'snappy: block size < 4, decompression error, decompressed length mismatch, CRC mismatch, decompressed data left after the announced objects (5)',
    'zstandard: driving the decoder to its end fails / leaves data (2)',
]


def reject(ctx):
    """a conforming file must be accepted: every place where the reader *originates* an error is reviewed; a new
    one (e.g. an extra plausibility check on counts or sizes) is reported"""
    f = ctx.f
    Pr = P + 'reader::'
    sites = []
    for b in f.body_list:
        fl = fn_label(b)
        if not (fl.startswith(Pr) or fl.startswith('<' + Pr)) or b.j.get('from_expansion'):
            continue
        for bb, t in b.calls():
            c = strip_generics(cname(t))
            if (c.startswith('de::error::DeError::') and c.rsplit('::', 1)[1] in ('new', 'custom', 'custom_io', 'io', 'unexpected_eof')) or \
                    c.endswith('de::Error>::custom') or c.endswith('serde_core::de::Error::custom'):
                if (t.get('span') or {}).get('exp') and 'Derive' in (t.get('span') or {}).get('macro', ''):
                    continue
                msg = None
                for a in t['args']:
                    msg = msg or const_str(a)
                sites.append((fl, short_loc(t.get('span')), msg))
        for bb in b.live_blocks():
            if b.is_cleanup(bb):
                continue
            for s_ in b.stmts(bb):
                if 'assign' in s_ and s_['rv']['k'] == 'agg' and (s_['rv'].get('adt') or '').endswith('FailedToInitializeReader') and not s_['rv']['ops']:
                    sites.append((fl, short_loc(s_.get('span')), s_['rv']['variant']))
    n = len(sites)
    ctx.counts['REJECT:error-origination sites in the container reader'] = {'actual': n, 'floor': 0}
    extra = ''
    if n > REJECT_REVIEWED:
        extra = '; sites: ' + '; '.join('%s @%s (%s)' % (x[0].rsplit('::', 2)[-2] + '::' + x[0].rsplit('::', 1)[-1], x[1], (x[2] or '')[:50]) for x in sites)
    ctx.ob('REJECT', 'reader/rejection-sites', n <= REJECT_REVIEWED, None,
           'the container reader originates an error at %d place(s); %d are reviewed (%s)%s' % (n, REJECT_REVIEWED, ' | '.join(REJECT_REASONS), extra))
