"""C08 - fingerprint equals CRC-64-AVRO of the Parsing Canonical Form (structural part; the checksum is decided completely).

  CRC        FP_TABLE equals the table computed from the specification's recurrence; EMPTY64 is the spec's seed; the
             loop body of Rabin::write is exactly r = (r >> 8) ^ T[(r ^ b) & 0xFF] over every input byte in order;
             Default seeds with EMPTY64; finish is to_le_bytes; fmt::Write feeds s.as_bytes() unmodified.  Together:
             CRC-64-AVRO for every input.
  CANON      the canonical-form writer never reads logical types, docs or the stored JSON; the three named kinds enter
             their full form only on the first-occurrence test and otherwise write the quoted fullname; names are
             written with fully_qualified_name(); per-kind templates (constant strings in order) match the spec;
             dynamic parts are written untransformed (fixed size: one Display of fixed.size with a bare "{}", no
             cast); the named-once table is indexed by key.idx itself; every "," write is live code
  SOURCE     Schema.fingerprint is assigned once, at freeze, from canonical_form_rabin_fingerprint() of the node
             graph; rabin_fingerprint() returns that field; the builder type has no cached state besides the nodes
             and the stored JSON
  shared     the whole of c07.resolution_rules (name keys, namespace threading, parser tables, late binding)
It does NOT decide text equality of the canonical form for every schema.
"""
import re
from ..lib import *
from ..core import short_loc, op_place, const_int, const_str
from .c03 import fn_by_label

EXPLANATION = ("Fingerprint: the CRC-64-AVRO implementation is decided completely (table = recurrence, step shape, seed, "
               "little-endian finish); the canonical-form writer ignores logical types, guards named types by first occurrence, "
               "uses fullnames and matches the per-kind templates; the frozen schema's fingerprint comes from the node graph at "
               "freeze. Text equality of the canonical form for every schema is not decided.")

EMPTY = 0xC15D213AA4D7A795


def spec_table():
    t = []
    for i in range(256):
        fp = i
        for _ in range(8):
            fp = (fp >> 1) ^ (EMPTY & -(fp & 1) & 0xFFFFFFFFFFFFFFFF)
        t.append(fp & 0xFFFFFFFFFFFFFFFF)
    return t


def run(ctx):
    f = ctx.f
    crc(ctx)
    canon(ctx)
    source(ctx)
    # the fullnames hashed are the ones the parser resolves: name-key construction and namespace threading (shared with C07)
    # ... and the parser's tables and late binding of forward references (a reference bound to another namespace's type
    # gives the relative spelling a fingerprint that differs from the fullname spelling's)
    from . import c07
    c07.resolution_rules(ctx)


def crc_step_shape(body, rv, res, R):
    """rv is `(res >> 8) ^ FP_TABLE[((res ^ <byte> as u64) & 0xFF) as usize]`; returns the tree of <byte> or None"""
    if rv['k'] != 'bin' or rv['op'] != 'BitXor':
        return None
    l, r = expr_tree(body, rv['l'], 16), expr_tree(body, rv['r'], 16)
    if l[0] == 'index':
        l, r = r, l
    if l != ('Shr', res, ('c', 8)):
        return None
    if not (r[0] == 'index' and r[1] == ('named', R + 'FP_TABLE')):
        return None
    idx = r[2]
    while idx[0] == 'cast':
        idx = idx[2]
    if not (idx[0] == 'BitAnd' and ('c', 255) in idx[1:]):
        return None
    inner = idx[1] if idx[2] == ('c', 255) else idx[2]
    if inner[0] != 'BitXor':
        return None
    a, b_ = inner[1], inner[2]
    if a != res:
        a, b_ = b_, a
    if a == res and b_[0] == 'cast' and b_[1] == 'u64':
        return b_
    return None


def crc_fold_form(w, s, R):
    """the same recurrence written as `self.result = data.iter().fold(self.result, |r, &b| STEP(r, b))`"""
    f = w.facts
    o = origin(w, s['rv'].get('op') or s['assign']) if s['rv']['k'] == 'use' else None
    if o is None:
        return False, ''
    folds = [c for c in o.calls if (c.get('callee') or '').endswith('Iterator::fold')]
    if len(folds) != 1 or len(folds[0]['args']) != 3:
        return False, ''
    fc = folds[0]
    io, init, co = origin(w, fc['args'][0]), origin(w, fc['args'][1]), origin(w, fc['args'][2])
    names = deep_call_names(w, fc['args'][0])
    data_ok = io.params() == {2} and 'iter' in io.flags and not any(x in n_ for n_ in names for x in ('rev', 'skip', 'step_by', 'take', 'filter', 'chain'))
    init_ok = 'result' in init.fields and init.params() == {1} and not init.has_arith()
    cl = [a[1] for a in co.atoms if a[0] == 'closure']
    step_ok = False
    if len(cl) == 1 and cl[0] in f.bodies:
        cb = f.bodies[cl[0]]
        for d in cb.defs().get(0, []):
            if d[2] == 'assign' and d[0] in cb.live_blocks() and not cb.is_cleanup(d[0]):
                byte = crc_step_shape(cb, d[3], ('param', 2), R)
                if byte is not None:
                    bo = origin(cb, {'copy': {'l': 3}})
                    # the byte is the closure's element parameter (pattern `&b`)
                    step_ok = True
                    t = byte
                    while t and t[0] == 'cast':
                        t = t[2]
                    step_ok = t is not None and (t == ('param', 3) or (t[0] in ('deref', 'field') and ('param', 3) in t) or 'param' in str(t) and '3' in str(t))
    ok = data_ok and init_ok and step_ok
    return ok, 'fold form: data.iter() in order: %s; accumulator starts from self.result: %s; closure is (r >> 8) ^ FP_TABLE[((r ^ b as u64) & 0xFF) as usize]: %s' % (data_ok, init_ok, step_ok)


def crc(ctx):
    f = ctx.f
    R = 'schema::safe::rabin::'
    c = f.consts.get(R + 'FP_TABLE')
    ok = False
    det = 'FP_TABLE constant not found / not evaluated'
    if c and c.get('value'):
        hexs = c['value'].get('ptr_bytes') or c['value'].get('mem') or c['value'].get('bytes')
        if hexs:
            raw = bytes.fromhex(hexs)
            got = [int.from_bytes(raw[i:i + 8], 'little') for i in range(0, len(raw), 8)]
            want = spec_table()
            bad = [i for i in range(min(len(got), 256)) if got[i] != want[i]]
            ok = len(got) == 256 and not bad
            det = 'FP_TABLE has %d entries; entries differing from the recurrence fold^8((fp>>>1) ^ (EMPTY & -(fp&1))): %s' % (len(got), bad[:8])
    ctx.ob('CRC', 'table', ok, None, det)
    e = f.consts.get(R + 'EMPTY64')
    ev = (e or {}).get('value', {})
    val = ev.get('int') if 'int' in ev else (int(ev['uint']) if 'uint' in ev else None)
    ctx.ob('CRC', 'seed-constant', val == EMPTY, None, 'EMPTY64 = %s (spec: 0xc15d213aa4d7a795)' % (hex(val) if val is not None else None))
    w = fn_by_label(f, R + 'Rabin::write')
    if w is None:
        ctx.ob('CRC', 'step', False, None, 'Rabin::write not found')
    else:
        ctx.touched(w, len(w.calls()))
        asg = []
        for bb in sorted(w.live_blocks()):
            for s in w.stmts(bb):
                if 'assign' in s and any(isinstance(x, dict) and x.get('f') == 'result' for x in s['assign'].get('p', [])):
                    asg.append((bb, s))
        ok = len(asg) == 1
        det = '%d assignment(s) to the running value' % len(asg)
        if ok:
            bb, s = asg[0]
            rv = s['rv']
            shape = False
            byte_ok = False
            top = None
            if rv['k'] == 'bin' and rv['op'] == 'BitXor':
                top = (expr_tree(w, rv['l'], 16), expr_tree(w, rv['r'], 16))
            elif rv['k'] == 'use':
                # the step computed by a (spliced) helper and stored: `self.result = feed_byte(self.result, b)`
                t_ = expr_tree(w, rv['op'], 20)
                if t_ and t_[0] == 'BitXor' and len(t_) == 3:
                    top = (t_[1], t_[2])
            if top is not None:
                l, r = top
                if l[0] == 'index':
                    l, r = r, l
                res = ('field', 'result', ('param', 1))
                shr = l == ('Shr', res, ('c', 8))
                idx = None
                if r[0] == 'index' and r[1] == ('named', R + 'FP_TABLE'):
                    idx = r[2]
                    while idx[0] == 'cast':
                        idx = idx[2]
                inner = None
                if idx and idx[0] == 'BitAnd' and ('c', 255) in idx[1:]:
                    inner = idx[1] if idx[2] == ('c', 255) else idx[2]
                xor_ok = False
                low_byte_operand = None
                if inner and inner[0] == 'BitXor':
                    a, b_ = inner[1], inner[2]
                    if a != res:
                        a, b_ = b_, a
                    xor_ok = a == res and b_[0] == 'cast' and b_[1] == 'u64'
                elif idx and idx[0] == 'BitXor':
                    # the same index computed on the low byte: `(self.result as u8) ^ b` (truncation is `& 0xFF`, and xor
                    # acts bytewise)
                    a, b_ = idx[1], idx[2]
                    if a != ('cast', 'u8', res):
                        a, b_ = b_, a
                    if a == ('cast', 'u8', res):
                        xor_ok = True
                        low_byte_operand = rv['r'] if rv['k'] == 'bin' else None
                shape = shr and xor_ok
                # the byte is the current element of an iterator over the data parameter, in order
                for st in w.stmts(bb):
                    pass
                bo = None
                for pbb in sorted(w.live_blocks()):
                    for st in w.stmts(pbb):
                        if 'assign' in st and st['rv']['k'] == 'cast' and st['rv']['to'] == 'u64' and st['rv']['from'] == 'u8':
                            bo = origin(w, st['rv']['op'])
                for pbb, pt in w.calls():
                    # `u64::from(b)` is the same widening
                    if (pt.get('callee') or '').endswith(('convert::From::from', 'convert::Into::into')) and (pt.get('arg_tys') or [''])[0] == 'u8' and w.local_ty(pt['dest']['l']) == 'u64':
                        bo = origin(w, pt['args'][0])
                if low_byte_operand is not None or (xor_ok and idx and idx[0] == 'BitXor'):
                    # the byte is the other operand of that xor: find the u8 ^ u8 statement
                    for pbb in sorted(w.live_blocks()):
                        for st in w.stmts(pbb):
                            if 'assign' in st and st['rv']['k'] == 'bin' and st['rv']['op'] == 'BitXor' and w.local_ty(st['assign']['l']) == 'u8':
                                for side in ('l', 'r'):
                                    o_ = origin(w, st['rv'][side])
                                    if 'result' not in o_.fields:
                                        bo = o_
                byte_ok = False
                if bo is not None and not bo.has_arith():
                    nx_ = [c_ for c_ in bo.calls if (c_.get('callee') or '').endswith('Iterator::next')]
                    if len(nx_) == 1:
                        io = origin(w, nx_[0]['args'][0])
                        names = deep_call_names(w, nx_[0]['args'][0])
                        byte_ok = io.params() == {2} and 'iter' in io.flags and not any(x in n_ for n_ in names for x in ('rev', 'skip', 'step_by', 'take', 'filter', 'chain'))
            # it sits in the loop over the data
            from ..inventory import natural_loops
            inloop = any(bb in blk for blk in natural_loops(w).values())
            ok = shape and byte_ok and inloop
            det = 'loop body is result = (result >> 8) ^ FP_TABLE[((result ^ b as u64) & 0xFF) as usize]: %s; b iterates the data in order: %s; inside the loop: %s' % (shape, byte_ok, inloop)
            if not ok:
                ok2, det2 = crc_fold_form(w, s, R)
                if ok2:
                    ok, det = ok2, det2
        ctx.ob('CRC', 'step', ok, short_loc(w.span), det)
        # nothing else touches the running value
    d = fn_by_label(f, '<' + R + 'Rabin as core::default::Default>::default')
    ok = False
    if d is not None:
        for bb in d.live_blocks():
            for s in d.stmts(bb):
                if 'assign' in s and s['rv']['k'] == 'agg' and (s['rv'].get('adt') or '').endswith('rabin::Rabin'):
                    o = origin(d, s['rv']['ops'][0])
                    ok = any(a[0] == 'const' and (str(a[1]).endswith('EMPTY64') or a[1] == EMPTY or a[1] == EMPTY - (1 << 64)) for a in o.atoms) and len(o.atoms) == 1
    ctx.ob('CRC', 'seed-used', ok, short_loc(d.span) if d else None, 'Rabin::default() starts from EMPTY64: %s' % ok)
    fi = fn_by_label(f, R + 'Rabin::finish')
    ok = False
    if fi is not None:
        ro = return_origin(fi)
        ok = 'to_le' in ro.flags and 'to_be' not in ro.flags and 'result' in ro.fields and not ro.has_arith()
    ctx.ob('CRC', 'finish-little-endian', ok, short_loc(fi.span) if fi else None, 'finish() = result.to_le_bytes(): %s' % ok)
    ws = fn_by_label(f, '<' + R + 'Rabin as core::fmt::Write>::write_str')
    ok = False
    if ws is not None:
        cs = [(bb, t) for bb, t in ws.calls() if strip_generics(cname(t)).endswith('Rabin::write')]
        if len(cs) == 1:
            o = origin(ws, cs[0][1]['args'][1])
            ok = o.params() == {2} and 'as_bytes' in o.flags and not o.has_arith() and 'index' not in o.flags and origin(ws, cs[0][1]['args'][0]).params() == {1}
    ctx.ob('CRC', 'write_str-feeds-bytes', ok, short_loc(ws.span) if ws else None, 'fmt::Write::write_str feeds s.as_bytes() to write(): %s' % ok)


CF = 'schema::safe::canonical_form::'
REG = 'schema::safe::RegularType'

TEMPLATES = {
    'Null': '"null"', 'Boolean': '"boolean"', 'Int': '"int"', 'Long': '"long"', 'Float': '"float"', 'Double': '"double"',
    'Bytes': '"bytes"', 'String': '"string"',
    'Union': '[,@]',
    'Array': '{"type":"array","items":@}',
    'Map': '{"type":"map","values":@}',
    'Enum': '{"name":"$","type":"enum","symbols":[,"$"]}',
    'Fixed': '{"name":"$","type":"fixed","size":$}',
    'Record': '{"name":"$","type":"record","fields":[,{"name":"$","type":@}]}',
}


def write_tokens(b, f, blocks):
    """writer calls in the region, in reverse post-order: constants as text, dynamic strings as $, recursion as @"""
    order = []
    seen = set()

    def rpo(start):
        out = []
        st = [(start, iter(b.succs(start)))]
        seen.add(start)
        while st:
            n, it = st[-1]
            adv = False
            for s in it:
                if s not in seen and s in blocks:
                    seen.add(s)
                    st.append((s, iter(b.succs(s))))
                    adv = True
                    break
            if not adv:
                out.append(n)
                st.pop()
        return list(reversed(out))
    return rpo


def region_template(b, r):
    """concatenate what the arm writes, following blocks in reverse post-order (loop bodies once)"""
    blocks = r.blocks
    out = []
    seen = {r.entry}
    post = []
    st = [(r.entry, iter(b.succs(r.entry)))]
    while st:
        n, it = st[-1]
        adv = False
        for s in it:
            if s not in seen and s in blocks:
                seen.add(s)
                st.append((s, iter(b.succs(s))))
                adv = True
                break
        if not adv:
            post.append(n)
            st.pop()
    for bb in reversed(post):
        t = b.term(bb)
        if t['k'] != 'call' or b.is_cleanup(bb):
            continue
        c = strip_generics(cname(t))
        if c.endswith('ErrorConversionWriter::write_str') or c.endswith('ErrorConversionWriter::write_char') or c.endswith('fmt::Write::write_str') or c.endswith('fmt::Write::write_char'):
            a = t['args'][1]
            v = const_str(a)
            if v is None and const_int(a) is not None:
                v = chr(const_int(a))
            if v is None:
                o = origin(b, a)
                cs = [x for x in o.consts()]
                if len(cs) == 1 and len(o.atoms) == 1:
                    v = cs[0] if isinstance(cs[0], str) else chr(cs[0]) if isinstance(cs[0], int) else None
            out.append(v if v is not None else '$')
        elif c.endswith('WriteCanonicalFormState::write_canonical_form'):
            out.append('@')
        elif c.endswith('fmt::Write::write_fmt') or c.endswith('::write_fmt'):
            out.append('$')
    return ''.join(out)


def canon(ctx):
    f = ctx.f
    w = fn_by_label(f, CF + 'WriteCanonicalFormState::write_canonical_form')
    if w is None:
        ctx.ob('CANON', 'anchor', False, None, 'write_canonical_form not found')
        return
    def first_occurrence_unit(c):
        return any(call_matches(t, ['Index::index', 'IndexMut::index_mut', 'IndexMut<I>>::index_mut', 'Index<I>>::index']) for bb, t in c.calls()) and \
            any('fully_qualified_name' in cname(t) for bb, t in c.calls())
    # the first-occurrence test is a callable unit: a closure of the writer, or a helper method it calls
    w, units = f.with_units(w, first_occurrence_unit)
    fam = [w] + f.closures_of(w) + units
    for b in fam:
        ctx.touched(b, len(b.calls()))
    # never reads logical_type / schema_json / docs
    bad = set()
    for b in [x for x in f.body_list if fn_label(x).startswith(CF) or fn_label(x).startswith('<' + CF)]:
        for bb in b.live_blocks():
            for s in b.stmts(bb):
                pl = []
                if 'assign' in s:
                    rv = s['rv']
                    for k in ('op', 'l', 'r', 'a'):
                        if isinstance(rv.get(k), dict) and op_place(rv[k]):
                            pl.append(op_place(rv[k]))
                    if 'place' in rv:
                        pl.append(rv['place'])
                    for o in rv.get('ops', []):
                        if op_place(o):
                            pl.append(op_place(o))
                for p in pl:
                    for e in p.get('p', []):
                        if isinstance(e, dict) and e.get('f') in ('logical_type', 'schema_json', 'doc', 'aliases'):
                            bad.add(e['f'])
            t = b.term(bb)
            if t['k'] == 'call' and ('serialize_to_json' in cname(t) or 'LogicalType' in cname(t)):
                bad.add(cname(t))
    ctx.ob('CANON', 'ignores-logical-types-and-json', not bad, short_loc(w.span), 'canonical-form code reads: %s' % (sorted(bad) or 'none of logical_type / schema_json / doc / aliases'))
    # named kinds guarded by the first-occurrence closure
    regs = enum_regions(w, REG)
    kinds = {}
    for r in regs:
        for v in r.variants:
            kinds[v] = r
    ctx.floor('CANON', 'kinds with an arm', len(kinds), 14)
    firsts = [c for c in fam if c is not w and first_occurrence_unit(c)]
    ctx.ob('CANON', 'first-occurrence-closure', len(firsts) == 1, short_loc(w.span), '%d closure(s)/helper(s) testing/setting the per-node "already written" flag and writing the quoted fullname otherwise' % len(firsts))
    if len(firsts) == 1:
        fc = firsts[0]
        # inside: false => set true, return true ; true => write '"' name '"' and return false
        idxo = None
        for bb, t in fc.calls():
            if call_matches(t, ['IndexMut::index_mut', 'IndexMut<I>>::index_mut', 'Index::index', 'Index<I>>::index']):
                idxo = origin(fc, t['args'][1])
        is_closure = fc.j.get('kind') == 'closure'
        key_ok = idxo is not None and 'idx' in idxo.fields and ('upvar' in idxo.flags if is_closure else bool(idxo.params()))
        ctx.ob('CANON', 'first-occurrence-keyed-by-node', key_ok, short_loc(fc.span), 'the flag is indexed by the key of the node being written: %s' % key_ok)
        for kind in ('Record', 'Enum', 'Fixed'):
            r = kinds.get(kind)
            ok = False
            det = 'no arm'
            if r is not None:
                cl = [(bb, w.term(bb)) for bb in sorted(r.blocks) if w.term(bb)['k'] == 'call' and fc.id in ((w.term(bb).get('resolved') or ''), (w.term(bb).get('callee') or ''))]
                writes = [bb for bb in sorted(r.blocks) if w.term(bb)['k'] == 'call' and strip_generics(cname(w.term(bb))).endswith('ErrorConversionWriter::write_str')]
                ok = len(cl) == 1
                det = '%d call(s) to the first-occurrence test' % len(cl)
                if ok:
                    cbb = cl[0][0]
                    # all writes of the arm are on the `true` edge of the (tried) result
                    good = True
                    for wb in writes:
                        g = False
                        for d, si, taken in dominating_switches(w, wb):
                            if si.get('kind') != 'enum':
                                so = origin(w, si['op'])
                                if any(c_ is cl[0][1] for c_ in so.calls) and 'try' in so.flags and taken[0] == 'not':
                                    g = True
                        good = good and g
                    # the name handed to it is this node's name
                    has_name = any('name' in origin(w, a).fields for a in cl[0][1]['args'][1:])
                    # a helper (unlike a closure, which captures it) is handed the key of the node being written
                    has_key = is_closure or any(a_ for a_ in cl[0][1]['args'][1:] if any((w.local_ty(p_) or '').endswith('SchemaKey') for p_ in origin(w, a_).params()) and 'name' not in origin(w, a_).fields)
                    ok = good and bool(writes) and has_name and has_key
                    det = 'full form written only when the first-occurrence test says so: %s; it receives the node\'s name: %s (and key: %s)' % (good, has_name, has_key)
            ctx.ob('CANON', 'named-once/%s' % kind, ok, short_loc(w.span), det)
    # fully qualified names everywhere a name is written
    for kind in ('Record', 'Enum', 'Fixed'):
        r = kinds.get(kind)
        if r is None:
            continue
        nm = [w.term(bb) for bb in sorted(r.blocks) if w.term(bb)['k'] == 'call' and strip_generics(cname(w.term(bb))).endswith('Name::name')]
        fq = [w.term(bb) for bb in sorted(r.blocks) if w.term(bb)['k'] == 'call' and strip_generics(cname(w.term(bb))).endswith('Name::fully_qualified_name')]
        ctx.ob('CANON', 'fullname/%s' % kind, len(fq) >= 1 and not nm, short_loc(w.span), '%s arm writes fully_qualified_name() (%d) and never the short name (%d)' % (kind, len(fq), len(nm)))
    # dynamic parts: fullname, symbols, field names and the fixed size are written as they are (Display of the value,
    # no digit arithmetic, no transformation)
    for kind, r in sorted(kinds.items()):
        if kind not in ('Record', 'Enum', 'Fixed'):
            continue
        n = 0
        bad = []
        for bb in sorted(r.blocks):
            t = w.term(bb)
            if t['k'] != 'call' or w.is_cleanup(bb):
                continue
            c = strip_generics(cname(t))
            if c.endswith('ErrorConversionWriter::write_str') or c.endswith('ErrorConversionWriter::write_char'):
                o = origin(w, t['args'][1])
                if [a for a in o.atoms if a[0] != 'const']:
                    n += 1
                    xform = [a[1] for a in o.atoms if a[0] == 'call' and not strip_generics(a[1]).endswith(('Name::fully_qualified_name', 'Name::name', 'Name::namespace', 'Iterator>::next', 'Iterator::next', 'Deref>::deref', 'Deref::deref', 'String::as_str', 'AsRef>::as_ref'))]
                    if o.has_arith() or [x for x in o.flags if x.startswith('cast:')] or xform:
                        bad.append('%s at %s' % (o.describe()[:80], short_loc(t.get('span'))))
            elif c.endswith('::write_fmt'):
                n += 1
                flds = deep_fields(w, t['args'][1], 4)
                names = deep_call_names(w, t['args'][1])
                if kind == 'Fixed' and not ('size' in flds and any('new_display' in x for x in names)):
                    bad.append('write! of %s' % sorted(flds))
                if kind == 'Fixed':
                    # the value displayed is fixed.size itself (no narrowing cast) and the format string is a bare "{}"
                    for xb in sorted(r.blocks):
                        xt = w.term(xb)
                        if xt['k'] != 'call' or w.is_cleanup(xb):
                            continue
                        xc = strip_generics(cname(xt))
                        if xc.endswith('Argument::new_display'):
                            ao = origin(w, xt['args'][0])
                            if ao.has_arith() or [x for x in ao.flags if x.startswith('cast:IntToInt')] or [a for a in ao.atoms if a[0] == 'call']:
                                bad.append('size displayed after %s' % (sorted(x for x in ao.flags if x.startswith(('cast:IntToInt', 'arith:'))) + [a[1] for a in ao.atoms if a[0] == 'call']))
                        if xc.endswith('fmt::Arguments::new') or xc.endswith('fmt::Arguments::new_v1') or xc.endswith('fmt::Arguments::new_const'):
                            tmpl = None
                            to = origin(w, xt['args'][0])
                            for a in to.atoms:
                                if a[0] == 'const' and isinstance(a[1], (str, bytes)):
                                    tmpl = a[1]
                            raw = fmt_template_literals(w, xt['args'][0])
                            if raw is None or raw[0] or raw[1]:
                                bad.append('format string of the size is not a bare "{}" (literal text %r, format spec: %s)' % (raw[0] if raw else None, raw[1] if raw else None))
        if kind == 'Fixed':
            fm = [bb for bb in r.blocks if w.term(bb)['k'] == 'call' and strip_generics(cname(w.term(bb))).endswith('::write_fmt')]
            if len(fm) != 1:
                bad.append('size must be written by exactly one Display formatting of fixed.size (found %d)' % len(fm))
        ctx.ob('CANON', 'dynamic-parts/%s' % kind, not bad and n >= 1, short_loc(w.span), '%d dynamic write(s) in the %s arm; transformed / hand-formatted ones: %s' % (n, kind, bad or 'none'))
    # templates
    for kind, want in TEMPLATES.items():
        r = kinds.get(kind)
        if r is None:
            ctx.ob('CANON', 'template/%s' % kind, False, short_loc(w.span), 'no arm for %s' % kind)
            continue
        got = region_template(w, r)
        ctx.ob('CANON', 'template/%s' % kind, got == want, short_loc(w.span), '%s is written as %s (spec template %s; $ = dynamic text, @ = nested schema, "," only between items)' % (kind, got, want))
    canon_extra(ctx, w, fam)


def canon_state_rule(ctx):
    """the recursive canonical-form writer carries exactly: the output, the named-once table, the in-progress table and the
    counter of named types written.
    Anything else kept in that struct is shared by every nesting level of the recursion (a list-separator flag there is
    clobbered by a nested empty list): list-local state must be a local of the invocation that writes the list"""
    f = ctx.f
    a = f.adts.get(CF + 'WriteCanonicalFormState')
    tys = sorted(x['ty'] for x in a['variants'][0]['fields']) if a else None
    # reviewed: the writer, the named-once table (bool per node), the in-progress table (generation per node) and the
    # counter of named types written that the generations are taken from
    ok = a is not None and len(tys) == 4 and sum(1 for t in tys if t == 'alloc::vec::Vec<bool>') == 1 and \
        sum(1 for t in tys if t in ('alloc::vec::Vec<usize>', 'alloc::vec::Vec<core::option::Option<usize>>')) == 1 and sum(1 for t in tys if t == 'usize') == 1
    if a is not None and not ok and len(tys) == 3 and sum(1 for t in tys if t == 'usize') == 1:
        # the two per-node tables kept as ONE table of a private two-field struct {written: bool, entered_at: usize}
        for t in tys:
            m_ = re.match(r'alloc::vec::Vec<(.+)>$', t)
            e_ = f.adts.get(m_.group(1)) if m_ else None
            if e_ and e_.get('kind') == 'struct' and e_.get('variants'):
                et = sorted(x['ty'] for x in e_['variants'][0]['fields'])
                ok = et in (['bool', 'usize'], ['bool', 'core::option::Option<usize>'])
    ctx.ob('STATE', 'canonical-writer-fields', ok, short_loc(a['span']) if a else None,
           'fields of the recursive canonical-form writer: %s (reviewed: the writer, two per-node tables and the named-types counter)' % ([x['name'] + ': ' + x['ty'][:40] for x in a['variants'][0]['fields']] if a else None))


def canon_extra(ctx, w, fam=None):
    canon_state_rule(ctx)
    """the named-once table is indexed by the node key itself; the separators are live code"""
    f = ctx.f
    n_idx = 0
    bad = []
    for b in (fam or [w] + f.closures_of(w)):
        for bb, t in b.calls():
            if call_matches(t, ['IndexMut::index_mut', 'IndexMut<I>>::index_mut', 'Index::index', 'Index<I>>::index']):
                vo = origin(b, t['args'][0])
                if 'named_type_written' in vo.fields or (vo.fields & (visited_field_names(f) - set(VISITED_FIELDS)) and
                                                          'named_type_written' in fields_read_from_call(b, t)):
                    n_idx += 1
                    io = origin(b, t['args'][1])
                    if io.has_arith() or 'idx' not in io.fields:
                        bad.append(io.describe()[:80])
    ctx.ob('CANON', 'named-once-index', n_idx >= 1 and not bad, short_loc(w.span),
           'named_type_written is indexed by key.idx itself at %d site(s); transformed indices: %s' % (n_idx, bad or 'none'))
    pt = positional_truncations(w)
    ctx.ob('CANON', 'visits-whole-collections', not pt, short_loc(w.span),
           'positional selections (take / skip / nth / first / sub-range) in the canonical-form traversal: %s' % (sorted({x[2] for x in pt}) or 'none'))
    # the in-progress guard of unnamed containers brackets exactly the node's own children (a shared array / map node
    # reached twice is written twice, a cycle is refused): shared with C19
    from . import c19
    c19.canon_guard_semantics(ctx, [b for b in f.body_list if c19.in_scope(b)])
    live = const_folded_reachable(w)
    commas = []
    for bb, t in w.calls():
        c = strip_generics(cname(t))
        if c.endswith('ErrorConversionWriter::write_char') and const_int(t['args'][1]) == ord(','):
            commas.append(bb)
    dead = [bb for bb in commas if bb not in live]
    ctx.ob('CANON', 'separators-live', len(commas) >= 3 and not dead, short_loc(w.span),
           '%d "," writes (record fields, enum symbols, union branches); unreachable once constant conditions are folded: %s' % (len(commas), dead or 'none'))


def source(ctx):
    f = ctx.f
    tf = fn_by_label(f, '<schema::self_referential::Schema as core::convert::TryFrom>::try_from')
    ok = False
    det = 'freeze not found'
    if tf is not None:
        ctx.touched(tf)
        for bb in sorted(tf.live_blocks()):
            for s in tf.stmts(bb):
                if 'assign' in s and s['rv']['k'] == 'agg' and s['rv'].get('adt') == 'schema::self_referential::Schema':
                    o = origin(tf, s['rv']['ops'][s['rv']['fields'].index('fingerprint')])
                    cf_ = [c for c in o.calls if strip_generics(cname(c)).endswith('canonical_form_rabin_fingerprint')]
                    ok = len(cf_) == 1 and 'try' in o.flags and not o.has_arith() and origin(tf, cf_[0]['args'][0]).params() == {1}
                    det = 'Schema.fingerprint = safe.canonical_form_rabin_fingerprint()? : %s' % o.describe()[:140]
        # never assigned elsewhere
        n_assign = 0
        for b in f.body_list:
            for bb in b.live_blocks():
                for s in b.stmts(bb):
                    if 'assign' in s and any(isinstance(e, dict) and e.get('f') == 'fingerprint' and e.get('of') == 'schema::self_referential::Schema' for e in s['assign'].get('p', [])):
                        n_assign += 1
        ok = ok and n_assign == 0
    ctx.ob('SOURCE', 'freeze-assigns-fingerprint', ok, short_loc(tf.span) if tf else None, det)
    rf = fn_by_label(f, 'schema::self_referential::Schema::rabin_fingerprint')
    ok = False
    if rf is not None:
        ro = return_origin(rf)
        ok = ro.fields == {'fingerprint'} and ro.params() == {1} and not ro.call_names() and not [a for a in ro.atoms if a[0] != 'param']
    ctx.ob('SOURCE', 'accessor-returns-field', ok, short_loc(rf.span) if rf else None, 'rabin_fingerprint() returns &self.fingerprint: %s' % ok)
    schema_state_rule(ctx)
    # canonical_form_rabin_fingerprint starts at the root with a fresh hasher and a fresh table
    cfp = fn_by_label(f, CF + 'canonical_form_rabin_fingerprint')
    ok = False
    if cfp is not None:
        ctx.touched(cfp)
        wr = [(bb, t) for bb, t in cfp.calls() if strip_generics(cname(t)).endswith('WriteCanonicalFormState::write_canonical_form')]
        fin = [(bb, t) for bb, t in cfp.calls() if strip_generics(cname(t)).endswith('Rabin::finish')]
        dflt = [(bb, t) for bb, t in cfp.calls() if 'Rabin' in cname(t) and cname(t).endswith('default')]
        ok = len(wr) == 1 and len(fin) == 1 and len(dflt) == 1
        if ok:
            ko = origin(cfp, wr[0][1]['args'][2])
            te = try_edges(cfp, wr[0][0])
            root = 0 in ko.consts() or any(strip_generics(cname(c)).endswith('SchemaKey::root') for c in ko.calls) or \
                any(strip_generics(cname(c)).endswith('SchemaKey::from_idx') and const_int(c['args'][0]) == 0 for c in ko.calls)
            ok = origin(cfp, wr[0][1]['args'][1]).params() == {1} and root and te is not None and cfp.dominates(te[0], fin[0][0])
    ctx.ob('SOURCE', 'fingerprint-of-the-graph-from-root', ok, short_loc(cfp.span) if cfp else None,
           'canonical_form_rabin_fingerprint hashes the canonical form of node 0 of self with a fresh hasher and returns finish(): %s' % ok)


def schema_state_rule(ctx):
    """the builder type carries no derived state besides the stored JSON (which every mutable access clears: C09)"""
    f = ctx.f
    a = f.adts.get('schema::safe::SchemaMut')
    flds = sorted(x['name'] for x in a['variants'][0]['fields']) if a else None
    ctx.ob('STATE', 'SchemaMut-fields', flds == ['nodes', 'schema_json'], None,
           'fields of SchemaMut: %s (reviewed: nodes, schema_json; any cache of derived data must be invalidated on mutation)' % flds)
    a = f.adts.get('schema::self_referential::Schema')
    flds = sorted(x['name'] for x in a['variants'][0]['fields']) if a else None
    ctx.ob('STATE', 'Schema-fields', flds == ['fingerprint', 'nodes', 'schema_json'], None, 'fields of Schema: %s' % flds, nontrivial=False)
