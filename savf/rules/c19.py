"""C19 - schema construction is total (structural part).

  RECGUARD-T  every recursive edge of the graph traversals (canonical form, JSON rendering, zero-size-cycle check,
              parsing) is behind a visited / in-progress test keyed by the node, or recurses structurally over the
              owned raw JSON tree
  RECGUARD-S  every such recursion carries a depth budget whose exhaustion returns Err, or runs over a value whose
              depth is bounded elsewhere by a constant (raw JSON tree <= serde_json's recursion limit)
  JSONLIMIT   serde_json's recursion limit is in force (feature unbounded_depth off, no disable_recursion_limit)
  PANIC       closed, reviewed inventory of panic-capable constructs over schema construction
  WHOCALLS    the unchecked-indexing cycle check is reachable only from parsing (where keys are resolved)
              the canonical form's in-progress guard is generation based: re-entry allowed only after a named type was
              written in full since (F16: the first F8 repair refused every re-entry); the zero-size-cycle search
              visits each record once (F20, shared with C07)
              the generation counter is bumped on the first-occurrence edge only; the JSON guard's release resets the
              node unconditionally
  KEYBOUNDS   ... SchemaKey::root() is node 0; PANIC/name-index: the leading dot of ".x" is removed at index 0
It does NOT decide actual stack use or running time.
"""
import json, os, subprocess
from ..lib import *
from ..inventory import *
from ..core import short_loc, op_place, const_int
from .c04 import auto_accept

EXPLANATION = ("Totality of schema construction, structural part: every recursive edge of the schema-graph traversals is "
               "cycle-guarded (termination) and must be depth-budgeted (stack bound); serde_json's recursion limit is in "
               "force; panic-capable constructs over schema construction form a closed reviewed inventory. Actual stack use "
               "and running time are not decided.")


def in_scope(b):
    i = b.id
    return (i.startswith('schema::') or i.startswith('<schema::')) and not b.j.get('from_expansion')


PANIC_REVIEWED = {
    ('schema::safe::canonical_form::WriteCanonicalFormState::write_canonical_form', 'index'):
        (1, 'unnamed_in_progress[key.idx] after get_mut(key.idx) succeeded on the same vector (same length as nodes)'),
    ('schema::safe::canonical_form::WriteCanonicalFormState::write_canonical_form::{closure#1}', 'index'):
        (1, 'named_type_written[key.idx] after nodes.get(key.idx) succeeded; vectors have the same length'),
    ('schema::safe::canonical_form::WriteCanonicalFormState::enter_unnamed_node', 'assert:overflow(Add)'):
        (1, 'n_named_types_written + 1: the counter is at most the number of nodes (one increment per first-written named node)'),
    ('schema::safe::canonical_form::WriteCanonicalFormState::write_canonical_form::{closure#1}', 'assert:overflow(Add)'):
        (1, 'n_named_types_written += 1 under the first-occurrence flag: at most nodes.len() increments'),
    ('schema::safe::check_for_cycles::check_for_cycles', 'index'):
        (1, 'checked_nodes[idx] with idx from enumerate() over a vector of the same length'),
    ('schema::safe::check_for_cycles::check_no_zero_sized_cycle_inner', 'index'):
        (8, 'unchecked indexing by resolved keys: only reachable from from_str (WHOCALLS), where every key is a valid index'),
    ('schema::safe::check_for_cycles::check_no_zero_sized_cycle_inner', 'panic'):
        (1, 'unreachable!: callers only pass record nodes'),
    ('schema::safe::parsing::from_str::{closure#1}', 'index'):
        (1, 'resolved_names[idx ^ BIT]: the index was created by the same function for that vector'),
    ('schema::safe::parsing::SchemaConstructionState::register_node', 'index'):
        (1, 'nodes[idx]: the slot reserved above by push'),
    ('schema::safe::rabin::Rabin::write', 'assert:bounds'):
        (1, 'FP_TABLE[(.. ) & 0xFF]: 256 entries'),
    ('schema::safe::serialize::SerializeSchema::no_cycle_guard', 'assert:bounds'):
        (1, 'node_traversal_state[key.idx]: serialize() did schema_nodes.get(key.idx) first; same length'),
    ('schema::safe::serialize::SerializeSchema::should_write_as_ref', 'assert:bounds'):
        (1, 'same as no_cycle_guard'),
    ('schema::safe::serialize::SerializeSchema::should_write_as_ref', 'assert:overflow(Add)'):
        (1, 'u64 generation counter: cannot be incremented 2^64 times'),
    ('schema::safe::SchemaMut::root', 'expect'):
        (1, 'documented API panic (public contract)'),
    ('<schema::safe::SchemaMut as core::ops::index::Index>::index', 'index'):
        (1, 'documented API panic of Index<SchemaKey> (public contract)'),
    ('schema::self_referential::Schema::root', 'panic'):
        (1, 'assert!(!nodes.is_empty()): freeze rejects an empty graph'),
    ('schema::self_referential::Schema::root_with_fake_static_lifetime', 'panic'):
        (1, 'assert!(!nodes.is_empty()): freeze rejects an empty graph'),
    ('<schema::self_referential::Schema as core::convert::TryFrom>::try_from', 'panic'):
        (1, 'assert! restating facts checked just above (non-empty, same length)'),
    ('<schema::self_referential::SchemaNode as core::fmt::Debug>::fmt::{closure#0}', 'assert:overflow(Add)'):
        (1, 'Debug depth counter: guard object pairs increment and decrement'),
    ('<<schema::self_referential::SchemaNode as core::fmt::Debug>::fmt::SchemaNodeRenderingDepthGuard as core::ops::drop::Drop>::drop::{closure#0}', 'unwrap'):
        (1, 'Debug depth counter: guard object pairs increment and decrement'),
    ('schema::union_variants_per_type_lookup::PerTypeLookup::unnamed', 'assert:bounds'):
        (1, 'per_direct_union_variant[key as usize]: 13 keys < 20 slots'),
    ('schema::union_variants_per_type_lookup::PerTypeLookup::new', 'expect'):
        (1, 'usize -> i64 of an index of an in-memory vector'),
    ('schema::union_variants_per_type_lookup::PerTypeLookup::new::{closure#0}', 'assert:bounds'):
        (1, 'per_direct_union_variant[key as usize]: 13 keys < 20 slots'),
    ('schema::union_variants_per_type_lookup::PerTypeLookup::new::{closure#1}', 'refcell'):
        (1, 'RefCell borrowed for the duration of one closure call; closures do not nest'),
    ('schema::union_variants_per_type_lookup::PerTypeLookup::new::{closure#2}', 'refcell'):
        (1, 'same'),
    ('schema::Name::from_fully_qualified_name::non_generic_inner', 'string_index'):
        (1, 'remove(0) in the arm where rfind returned Some(0): the string is non-empty'),
    ('schema::Name::name', 'assert:overflow(Add)'): (1, 'delimiter index + 1 of an index into an existing String'),
    ('schema::Name::name', 'index'): (1, 'slicing at the stored delimiter index (private field, computed from rfind / format!)'),
    ('schema::Name::namespace::{closure#0}', 'index'): (1, 'same'),
    ('schema::Name::namespace', 'index'): (1, 'the same site written as a match instead of Option::map (index kept consistent by the name-index rule)'),
}


PANIC_REVIEWED = {(short_fn(k[0]), k[1]): v for k, v in PANIC_REVIEWED.items()}


def family(f, b):
    """b and its closures (transitively; those of helpers spliced into it included)"""
    out = [b]
    for c in f.closures_of(b):
        if c is not b:
            out.append(c)
    return out


def reads_visited_table(cb):
    """a callable unit that consults a per-node visited / in-progress table (a guard: kept as a unit of its own when
    it is a new helper, so that its result is recognised as the guard's answer at the call sites)"""
    for cbb, ct in cb.calls():
        if call_matches(ct, ['Index::index', 'IndexMut::index_mut', 'index::Index>::index', 'index::IndexMut>::index_mut',
                             'slice::<impl [T]>::get', 'slice::<impl [T]>::get_mut']):
            if visited_state_origin(cb, origin(cb, ct['args'][0])):
                return True
    return False


STATE_TYPES = ('alloc::vec::Vec<bool>', '&mut alloc::vec::Vec<bool>', '[core::cell::Cell<u64>]', "&'a [core::cell::Cell<u64>]")


def visited_state_origin(body, o):
    """does the origin touch a per-node visited/in-progress table?"""
    for a in o.atoms:
        if a[0] == 'param' and (is_bool_table(body.local_ty(a[1])) or status_table_enum(body.facts, body.local_ty(a[1])) is not None):
            return True
    vf = visited_field_names(body.facts)
    for fld in o.fields:
        if fld in vf:
            return True
    return False


def guarded_by_visited(f, body, bb, depth=0):
    """is block bb of body dominated by a test on a visited-state table (directly or through a closure result)?"""
    for d, si, taken in dominating_switches(body, bb):
        o = origin(body, si['place']) if si.get('kind') == 'enum' else origin(body, si['op'])
        if visited_state_origin(body, o) and ('index' in o.flags or 'get' in o.flags or any(call_matches(c, ['Index::index', 'IndexMut::index_mut', 'index::Index>::index', 'index::IndexMut>::index_mut']) for c in o.calls)):
            return True, 'test on a per-node table (%s)' % ','.join(sorted(o.fields & {'named_type_written', 'unnamed_in_progress', 'node_traversal_state', 'visited_nodes'}) or ['param'])
        # closure result (should_not_write_only_name / should_write_as_ref / no_cycle_guard)
        for a in o.atoms:
            if a[0] == 'call':
                cb = f.bodies.get(a[1])
                if cb is not None and depth < 2:
                    for cbb in cb.live_blocks():
                        for s in cb.stmts(cbb):
                            pass
                    # the callee reads a per-node table
                    reads = False
                    for cbb, ct in cb.calls():
                        if call_matches(ct, ['Index::index', 'IndexMut::index_mut', 'index::Index>::index', 'index::IndexMut>::index_mut',
                                             'slice::<impl [T]>::get', 'slice::<impl [T]>::get_mut']):
                            oo = origin(cb, ct['args'][0])
                            if visited_state_origin(cb, oo):
                                reads = True
                    for cbb in sorted(cb.live_blocks()):
                        for s in cb.stmts(cbb):
                            if 'assign' in s and s['rv']['k'] in ('ref', 'use'):
                                pl = s['rv'].get('place') or op_place(s['rv'].get('op'))
                                if pl and any(isinstance(e, dict) and 'idx' in e for e in pl.get('p', [])):
                                    oo = origin(cb, pl)
                                    if visited_state_origin(cb, oo):
                                        reads = True
                    if reads:
                        return True, 'result of %s, which tests a per-node table' % fn_label(cb)
    # inside a closure: look at where the closure is built in the parent
    if body.j['kind'] == 'closure' and depth < 3:
        pid = body.id.rsplit('::{closure#', 1)[0]
        parent = f.bodies.get(pid)
        if parent is not None:
            for pbb, cid, ops, dst in closures_built_in(parent, parent.live_blocks()):
                if cid == body.id:
                    return guarded_by_visited(f, parent, pbb, depth + 1)
    return False, None


def has_depth_budget(f, fam):
    """a budget: an integer that is decremented/incremented along the recursion and whose exhaustion returns Err"""
    for b in fam:
        for bb, t in b.calls():
            if call_matches(t, ['::checked_sub', '::checked_add']):
                o0 = origin(b, t['args'][0])
                if any(x in o0.fields for x in ('depth', 'allowed_depth', 'remaining_depth', 'max_depth', 'depth_budget', 'allowed_additional_depth')) or \
                        any(a[0] == 'param' and ('usize' == b.local_ty(a[1]) or 'u32' == b.local_ty(a[1])) and (b.local_name(a[1]) or '').find('depth') >= 0 for a in o0.atoms):
                    return True, 'checked arithmetic on a depth counter in %s' % fn_label(b)
        for g_bb in sorted(b.live_blocks()):
            if b.term(g_bb)['k'] != 'switch':
                continue
            si = b.switch_info(g_bb)
            cond = switch_condition(b, si)
            if cond[0] == 'cmp' and cond[1] in ('Lt', 'Le', 'Gt', 'Ge'):
                lo, ro = origin(b, cond[2]), origin(b, cond[3])
                for s_ in (lo, ro):
                    if any('depth' in x for x in s_.fields) or any(a[0] == 'param' and 'depth' in (b.local_name(a[1]) or '') for a in s_.atoms):
                        return True, 'comparison of a depth counter in %s' % fn_label(b)
    return False, None


def run(ctx):
    f = ctx.f
    scope = [b for b in f.body_list if in_scope(b)]
    ctx.floor('PANIC', 'functions in schema::', len(scope), 80)
    # the key a caller gets for "the root" is the key of node 0: the node every consumer (freeze, rendering, fingerprint,
    # (de)serializers) starts from
    rk_ = [b for b in f.body_list if b.j['kind'] != 'closure' and fn_label(b) == 'schema::safe::SchemaKey::root']
    okr_ = False
    for b in rk_:
        for bb in b.live_blocks():
            for s_ in b.stmts(bb):
                if 'assign' in s_ and s_['assign']['l'] == 0 and s_['rv']['k'] == 'agg' and (s_['rv'].get('adt') or '').endswith('SchemaKey'):
                    okr_ = [const_int(o_) for o_ in s_['rv']['ops']] == [0]
        # (or through the constructor: `Self::from_idx(0)`)
        for bb, t in b.calls():
            if strip_generics(cname(t)).endswith('SchemaKey::from_idx') and t.get('dest', {}).get('l') == 0 and len(t['args']) == 1:
                okr_ = const_int(t['args'][0]) == 0
    ctx.ob('KEYBOUNDS', 'root-key-is-node-zero', okr_, short_loc(rk_[0].span) if rk_ else None, 'SchemaKey::root() is SchemaKey { idx: 0 }: %s' % okr_, nontrivial=False)

    # ---- direct recursions
    rec = []
    for b in scope:
        if b.j['kind'] == 'closure':
            continue
        b, _units = f.with_units(b, reads_visited_table)
        fam = family(f, b)
        sites = []
        for x in fam:
            for bb, t in x.calls():
                if (t.get('resolved') or t.get('callee')) == b.id:
                    sites.append((x, bb, t))
        if sites:
            rec.append((b, fam, sites))
    names = {fn_label(b) for b, _, _ in rec}
    want = {'schema::safe::canonical_form::WriteCanonicalFormState::write_canonical_form',
            'schema::safe::check_for_cycles::check_no_zero_sized_cycle_inner',
            'schema::safe::parsing::SchemaConstructionState::register_node'}
    ctx.ob('RECGUARD-T', 'recursive-functions-found', want <= names, None, 'directly recursive functions in schema:: %s' % sorted(names), nontrivial=False)
    for b, fam, sites in rec:
        ctx.touched(b, len(sites))
        fl = fn_label(b)
        structural = False
        for i, (x, bb, t) in enumerate(sorted(sites, key=lambda s: (s[0].id, s[1]))):
            ok, why = guarded_by_visited(f, x, bb)
            if not ok:
                # structural recursion over an owned finite tree: the node argument is a sub-part of the node parameter
                cand = [a for a, ty in zip(t['args'], t.get('arg_tys', [])) if 'raw::SchemaNode' in ty]
                if cand:
                    o = origin(x, cand[0])
                    rawp = [a for a in o.atoms if a[0] == 'param' and 'raw::' in x.local_ty(a[1])]
                    it = 'iter' in o.flags or o.fields or 'upvar' in o.flags or (x.j['kind'] == 'closure' and rawp)
                    if (rawp or 'upvar' in o.flags) and it and not any(a[0] == 'call' and 'names' in a[1] for a in o.atoms):
                        ok, why = True, 'structural recursion on a sub-value of the owned raw JSON tree (%s)' % o.describe()[:120]
                        structural = True
            ctx.ob('RECGUARD-T', '%s/edge#%d' % (fl, i), ok, short_loc(t.get('span')),
                   ('recursive call is %s' % why) if ok else 'recursive call with NO visited/in-progress test on the node and not structural: a cycle in the graph recurses forever')
        okb, whyb = has_depth_budget(f, fam)
        if structural and not okb:
            okb, whyb = True, 'depth bounded by the raw JSON tree (serde_json recursion limit, see JSONLIMIT)'
        ctx.ob('RECGUARD-S', fl, okb, short_loc(b.span),
               whyb if okb else 'recursion depth follows the schema graph with no depth budget: a deep (acyclic) graph overflows the stack')

    json_recursion(ctx, with_budget=True)
    canon_guard_semantics(ctx, scope)
    # the zero-size-cycle search visits each record once (shared with C07): walking every path is exponential
    from .c07 import cyclecheck
    cyclecheck(ctx)
    name_index_rule(ctx, scope)

    # ---- Debug rendering is depth-limited
    dbg = [b for b in scope if fn_label(b) == '<schema::self_referential::SchemaNode as core::fmt::Debug>::fmt']
    if dbg:
        d = dbg[0]
        ctx.touched(d)
        n_fields = 0
        guarded = 0
        for x in [d] + f.closures_of(d):      # (the per-variant rendering may live in a local closure)
            for bb, t in x.calls():
                if cname(t).endswith('DebugTuple::<\'a, \'b>::field') or cname(t).endswith('::field'):
                    n_fields += 1
                    for g in cmp_guards(x, bb):
                        if g['op'] == 'Lt' and (g['r'].consts() - {0}) and not g['r'].params():
                            guarded += 1
                            break
        ctx.ob('RECGUARD-S', 'Debug for SchemaNode', n_fields > 0 and guarded == n_fields, short_loc(d.span),
               '%d of %d child renderings are under `depth < MAX_DEPTH`' % (guarded, n_fields))

    jsonlimit(ctx)

    # ---- a frozen schema is safe to use whatever its shape (record cycles built with from_nodes bypass the
    #      zero-size-cycle check): the deserializer's depth budget is decremented on every descent (shared with C04)
    from .c04 import depth_rule
    depth_rule(ctx)

    # ---- panic inventory
    nsites = 0
    matcher = ReviewedMatcher('C19', PANIC_REVIEWED, {short_fn(fn_label(b)) for b in scope})
    ctx.panic_matcher = matcher
    matcher.site_kinds = {(short_fn(fn_label(b_)), k_) for b_ in scope for k_, _, _, _ in panic_sites(b_)}
    for b in scope:
        ctx.touched(b)
        fl = fn_label(b)
        for kind, bb, loc_, txt in panic_sites(b):
            nsites += 1
            why = auto_accept(b, kind, bb)
            if why is None:
                why = matcher.match(b, short_fn(fl), kind, bb)
            ordn = sum(1 for k2, bb2, _, _ in panic_sites(b) if k2 == kind and bb2 < bb)
            ctx.ob('PANIC', '%s/%s#%d' % (fl, kind, ordn), why is not None, loc_,
                   ('panic-capable construct `%s` (%s): %s' % (kind, txt[:60], why)) if why else
                   ('UNREVIEWED panic-capable construct `%s` (%s) in schema construction' % (kind, txt[:90])))
    ctx.floor('PANIC', 'panic-capable constructs examined', nsites, 25)

    # ---- who may call the unchecked cycle check
    callers = set()
    for b in f.body_list:
        for bb, t in b.calls():
            if strip_generics(cname(t)).endswith('safe::check_for_cycles::check_for_cycles') or strip_generics(cname(t)).endswith('SchemaMut::check_for_cycles'):
                callers.add(fn_label(b).split('::{closure')[0])
    ok = callers and all(c.endswith('::from_str') and 'parsing' in c for c in callers)
    ctx.ob('WHOCALLS', 'check_for_cycles', ok, None, 'check_for_cycles (unchecked indexing) is called from %s' % sorted(callers))
    # and it is not public API
    vis = [fn for p_, fn in f.fns.items() if strip_generics(p_).endswith('check_for_cycles::check_for_cycles')]
    ctx.ob('WHOCALLS', 'check_for_cycles/not-public', bool(vis) and all(not v['reachable'] for v in vis), None,
           'visibility: %s' % [v['vis'] for v in vis], nontrivial=False)
    # key bounds: freeze's key_to_ref compares with len before pointer arithmetic (shared with C10)
    ktr = [b for b in scope if fn_label(b).startswith('<schema::self_referential::Schema as core::convert::TryFrom>::try_from::{closure')]
    okk = False
    for cb in ktr:
        for bb, t in cb.calls():
            if call_matches(t, ['::add']) and 'ptr' in cname(t):
                for g in cmp_guards(cb, bb):
                    if g['op'] == 'Lt' and 'idx' in g['l'].fields and 'upvar' in g['r'].flags:
                        okk = all(all_paths_err(cb, s) for s in g['other'])
    ctx.ob('KEYBOUNDS', 'freeze/key_to_ref', okk, short_loc(ktr[0].span) if ktr else None, 'pointer offset dominated by idx < len with Err on the other edge: %s' % okk)
    # canonical form / rendering look the node up with get(..) before anything else
    for label, fld in (('schema::safe::canonical_form::WriteCanonicalFormState::write_canonical_form', 'nodes'),
                       ('<schema::safe::serialize::SerializeSchema as serde_core::ser::Serialize>::serialize', 'schema_nodes')):
        bs = [b for b in scope if fn_label(b) == label and (fld == 'nodes' or 'SchemaKey>' in (b.j.get('self_ty') or ''))]
        ok = False
        if bs:
            b = bs[0]
            gets = [(bb, t) for bb, t in b.calls() if call_matches(t, ['slice::<impl [T]>::get']) and fld in origin(b, t['args'][0]).fields]
            if gets:
                gbb = gets[0][0]
                te = try_edges(b, gbb)
                # every other call in the body is after the success edge
                ok = te is not None and te[1] is not None and all_paths_err(b, te[1])
        ctx.ob('KEYBOUNDS', label.rsplit('::', 1)[1] + ('/json' if fld != 'nodes' else ''), ok, short_loc(bs[0].span) if bs else None,
               'node looked up with .get(key.idx) and a missing node returns Err: %s' % ok)


def json_guard_fns(f, scope):
    """the two guards of the JSON renderer, found by what they are rather than by name: inherent methods of
    SerializeSchema that read the per-node traversal table; the one returning Result<Guard, _> takes the cycle guard, the
    one returning bool is the written-as-reference test; the guard's release is the by-value method of the Guard type"""
    pre = 'schema::safe::serialize::SerializeSchema::'
    cands = []
    for b in scope:
        if b.j['kind'] == 'closure' or not fn_label(b).startswith(pre) or b.j.get('impl_trait'):
            continue
        touches = mentions_field(b, 'node_traversal_state')
        if touches:
            cands.append(b)
    enter = [b for b in cands if (b.local_ty(0) or '').startswith('core::result::Result<')]
    test = [b for b in cands if b.local_ty(0) == 'bool']
    enter = enter[0] if len(enter) == 1 else None
    test = test[0] if len(test) == 1 else None
    release = None
    if enter is not None:
        gty = enter.local_ty(0)[len('core::result::Result<'):].split(',')[0].split('<')[0].strip()
        rel = [b for b in scope if b.j['kind'] != 'closure' and b.nargs == 1 and b.local_ty(0) == '()' and
               (b.local_ty(1) or '').split('<')[0] == gty and not b.j.get('impl_trait')]
        release = rel[0] if len(rel) == 1 else None
    return enter, test, release


def json_recursion(ctx, with_budget=False):
    """serde-mediated recursion of the JSON rendering: every child rendering is cycle-guarded"""
    f = ctx.f
    scope = [b for b in f.body_list if in_scope(b)]
    # ---- serde-mediated recursion of the JSON rendering
    ser = [b for b in scope if fn_label(b) == '<schema::safe::serialize::SerializeSchema as serde_core::ser::Serialize>::serialize']
    ctx.ob('RECGUARD-T', 'json/impls-found', len(ser) == 3, None, '%d Serialize impls for SerializeSchema' % len(ser), nontrivial=False)
    keyimpl = [b for b in ser if 'SchemaKey>' in (b.j.get('self_ty') or '')]
    if len(keyimpl) != 1:
        ctx.ob('RECGUARD-T', 'json/key-impl', False, None, 'Serialize impl for SerializeSchema<SchemaKey> not found')
    else:
        kb = keyimpl[0]
        ctx.touched(kb)
        g_enter, g_test, g_release = json_guard_fns(f, scope)
        guard_ids = {g.id for g in (g_enter, g_test) if g is not None}
        n = 0
        for bb, t in sorted(kb.calls()):
            c = strip_generics(cname(t))
            if c.endswith('SerializeSchema::serializable') or c.endswith('SerializeSchema::serializable_with_namespace'):
                n += 1
                ok, why = guarded_by_visited(f, kb, bb)
                if not ok:
                    # guard helpers: no_cycle_guard()? success edge or should_write_as_ref() == false
                    for d, si, taken in dominating_switches(kb, bb):
                        o = origin(kb, si['place']) if si.get('kind') == 'enum' else origin(kb, si['op'])
                        for a in o.atoms:
                            if a[0] == 'call' and a[1] in guard_ids:
                                ok, why = True, 'dominated by the result of %s' % ('the cycle guard' if g_enter is not None and a[1] == g_enter.id else 'the written-as-reference test')
                ctx.ob('RECGUARD-T', 'json/edge#%d' % n, ok, short_loc(t.get('span')),
                       ('child rendering is %s' % why) if ok else 'child rendering with no cycle guard')
        ctx.floor('RECGUARD-T', 'json child renderings', n, 4)
        # the guards themselves test the per-node table and error / short-circuit
        for gname, gfn in (('no_cycle_guard', g_enter), ('should_write_as_ref', g_test)):
            gb = [gfn] if gfn is not None else []
            okg = False
            if gb:
                g = gb[0]
                ctx.touched(g)
                for bb in sorted(g.live_blocks()):
                    if g.term(bb)['k'] == 'switch':
                        si = g.switch_info(bb)
                        cond = switch_condition(g, si)
                        if cond[0] == 'cmp':
                            lo, ro = origin(g, cond[2]), origin(g, cond[3])
                            if 'node_traversal_state' in (lo.fields | ro.fields):
                                okg = True
            ctx.ob('RECGUARD-T', 'json/%s-tests-node-state' % gname, okg, short_loc(gb[0].span) if gb else None,
                   '%s compares the per-node traversal state: %s' % (gname, okg))
        json_guard_semantics(ctx, f, kb, scope)
        fam = ser + [b for b in scope if fn_label(b).startswith('schema::safe::serialize::SerializeSchema::')]
        okb, whyb = has_depth_budget(f, fam)
        if with_budget:
          ctx.ob('RECGUARD-S', 'schema::safe::serialize::SerializeSchema::serialize', okb, short_loc(kb.span),
                 whyb if okb else 'JSON rendering recursion follows the schema graph with no depth budget (the visited table bounds it only by the number of nodes)')


_CMP = {'Eq': lambda a, b: a == b, 'Ne': lambda a, b: a != b, 'Lt': lambda a, b: a < b, 'Le': lambda a, b: a <= b,
        'Gt': lambda a, b: a > b, 'Ge': lambda a, b: a >= b}


def _switch_edges(g, bb):
    """(edge taken when the scrutinee is true, edge taken when it is false) of a bool switch"""
    t = g.term(bb)
    t0 = [x['bb'] for x in t['targets'] if x['v'] == 0]
    if not t0:
        return None
    return t['otherwise'], t0[0]


STRING_MUTATORS = ('String::remove', 'String::drain', 'String::insert', 'String::insert_str', 'String::truncate', 'String::replace_range',
                   'String::push', 'String::push_str', 'String::pop', 'String::clear', 'String::retain')


def name_index_rule(ctx, scope):
    """`Name` stores a byte index into the string it stores (name() / namespace() slice with it, unchecked).  Where a Name
    is built, the index kept is one computed on the string *as stored*: any path that edits the string after looking for
    the dot must drop the index (store None) - otherwise name() slices out of bounds / off a char boundary (panic)"""
    f = ctx.f
    n = 0
    for b in scope:
        aggs = []
        for bb in sorted(b.live_blocks()):
            if b.is_cleanup(bb):
                continue
            for s_ in b.stmts(bb):
                if 'assign' in s_ and s_['rv']['k'] == 'agg' and s_['rv'].get('adt') == 'schema::Name' and 'namespace_delimiter_idx' in (s_['rv'].get('fields') or []):
                    aggs.append((bb, s_))
        if not aggs:
            continue
        n += 1
        ctx.touched(b)
        ok = True
        why = []
        for abb, s_ in aggs:
            fl = s_['rv']['fields']
            sop = s_['rv']['ops'][fl.index('fully_qualified_name')]
            iop = s_['rv']['ops'][fl.index('namespace_delimiter_idx')]
            io = origin(b, iop)
            finds = [c for c in io.calls if strip_generics(cname(c)).endswith(('str>::rfind', 'str>::find', 'str::rfind', 'str::find'))]
            il = op_place(iop)
            muts = [(mb, mt) for mb, mt in b.calls() if strip_generics(cname(mt)).endswith(STRING_MUTATORS) and abb in b.reachable_from(mb)]
            # (the index may reach the aggregate through a binding: `let idx = match .. { .. => None, .. }; Name { idx, .. }`)
            ils = {il['l']} if il is not None else set()
            grew_ = True
            while grew_:
                grew_ = False
                for l_ in list(ils):
                    for d_ in b.defs().get(l_, []):
                        if d_[2] == 'assign' and not d_[4].get('p') and d_[3]['k'] == 'use':
                            sp_ = op_place(d_[3]['op'])
                            if sp_ is not None and not sp_.get('p') and sp_['l'] not in ils:
                                ils.add(sp_['l'])
                                grew_ = True
            for mb, mt in muts:
                if strip_generics(cname(mt)).endswith('String::remove') and (len(mt['args']) < 2 or const_int(mt['args'][1]) != 0):
                    # ".x" is {namespace: None, name: "x"}: what is removed is the leading dot, at index 0
                    ok = False
                    why.append('String::remove at an index other than the constant 0 (the leading dot)')
                # after this edit, on the way to the aggregate, the index local is overwritten with None
                resets = []
                for xb in b.reachable_from(b.term(mb)['target']):
                    for st in b.stmts(xb):
                        if 'assign' in st and il is not None and st['assign'].get('l') in ils and not st['assign'].get('p') and st['rv']['k'] == 'agg' and \
                                st['rv'].get('adt') == 'core::option::Option' and st['rv'].get('variant') == 'None':
                            resets.append(xb)
                good = bool(resets) and must_pass(b, b.term(mb)['target'], [abb], resets)
                if not good:
                    ok = False
                    why.append('%s edits the string but the index computed before survives' % strip_generics(cname(mt)).rsplit('::', 1)[1])
            if not finds and not io.consts() and not any(a[0] == 'agg' for a in io.atoms):
                ok = False
                why.append('index of unknown provenance')
        ctx.ob('PANIC', 'name-index/%s' % short_fn(fn_label(b)), ok, short_loc(b.span),
               'the delimiter index stored in Name is an index into the stored string: %s' % ('; '.join(why) if why else 'no edit of the string outlives the index'))
    ctx.floor('PANIC', 'functions building a Name with an index', n, 1)


def canon_guard_semantics(ctx, scope):
    """the in-progress guard of the canonical-form writer (unnamed containers): entering refuses a node already in
    progress, and the node stays in progress for as long as its children are being written"""
    f = ctx.f
    CFM = 'schema::safe::canonical_form::'
    w = [b for b in scope if fn_label(b) == CFM + 'WriteCanonicalFormState::write_canonical_form' and b.j['kind'] != 'closure']
    if not w:
        ctx.ob('RECGUARD-T', 'canon/anchor', False, None, 'write_canonical_form not found')
        return
    w = w[0]

    def touches(b):
        for bb in b.live_blocks():
            for s_ in b.stmts(bb):
                if 'assign' in s_:
                    rv = s_['rv']
                    pls = [s_['assign']] + ([rv['place']] if 'place' in rv else [])
                    if any(isinstance(e, dict) and e.get('f') == 'unnamed_in_progress' for p_ in pls for e in p_.get('p', [])):
                        return True
        return False
    helpers = [b for b in scope if b.j['kind'] != 'closure' and b is not w and fn_label(b).startswith(CFM) and touches(b)]
    enter = [b for b in helpers if (b.local_ty(0) or '').startswith('core::result::Result')]
    leave = [b for b in helpers if b.local_ty(0) == '()']
    if len(enter) != 1 or len(leave) != 1:
        ctx.ob('RECGUARD-T', 'canon/helpers', False, short_loc(w.span), 'expected one fallible (enter) and one infallible (leave) helper touching unnamed_in_progress, found %d/%d' % (len(enter), len(leave)))
        return
    en, lv = enter[0], leave[0]
    ctx.touched(en); ctx.touched(lv)
    # enter: the node may be entered again only if a named type was fully written since it was last entered (the next
    # time round that type is a reference, so the recursion ends): the table entry (generation at the last entry, 0 when
    # not in progress) is compared with the current generation (1 + number of named types written); entry < generation
    # => stored and Ok, otherwise (equal included: nothing named in between, an unbreakable cycle) => Err.
    # A guard that refuses EVERY re-entry rejects ordinary recursive types whose unnamed nodes are shared
    # (`struct Tree { children: Vec<Tree> }` under `Vec<Tree>`): found as F16 in the first form of the F8 repair.
    COUNTER = 'n_named_types_written'
    ok, det = False, 'no comparison of the table entry with the generation of named types written found'
    FLIP = {'Lt': 'Gt', 'Gt': 'Lt', 'Le': 'Ge', 'Ge': 'Le'}
    for bb in sorted(en.live_blocks()):
        if en.term(bb)['k'] != 'switch':
            continue
        si = en.switch_info(bb)
        if si.get('kind') == 'enum':
            continue
        cond = switch_condition(en, si)
        neg = False
        while cond[0] == 'not':
            cond, neg = cond[1], not neg
        if cond[0] != 'cmp' or cond[1] not in FLIP:
            so = origin(en, si['op'])
            if 'unnamed_in_progress' in so.fields and COUNTER not in so.fields:
                det = 'the guard tests the table entry alone (refuses every re-entry, also through a newly written named type)'
            continue
        lo, ro = origin(en, cond[2]), origin(en, cond[3])
        op = cond[1]
        # (the entry side is the one read from the table; flow-insensitive provenance may fold the stored generation back
        # into it, so the counter on that side too is not a reason to look away)
        if 'unnamed_in_progress' in ro.fields and 'unnamed_in_progress' not in lo.fields and COUNTER in lo.fields:
            lo, ro, op = ro, lo, FLIP[op]
        if not ('unnamed_in_progress' in lo.fields and COUNTER in ro.fields and 'unnamed_in_progress' not in ro.fields):
            continue
        edges = _switch_edges(en, bb)
        if edges is None:
            continue
        t_edge, f_edge = edges
        if neg:
            t_edge, f_edge = f_edge, t_edge
        # entry OP generation: which edge is "strictly older"?
        if op == 'Lt':
            older, other, strict = t_edge, f_edge, True
        elif op == 'Ge':
            older, other, strict = f_edge, t_edge, True
        elif op == 'Le':
            older, other, strict = t_edge, f_edge, False
        else:
            older, other, strict = f_edge, t_edge, False
        marks = False
        for x in en.reachable_from(older):
            for s_ in en.stmts(x):
                if 'assign' in s_ and s_['assign'].get('p') and s_['rv']['k'] == 'use' and 'unnamed_in_progress' in origin(en, s_['assign']).fields and \
                        COUNTER in origin(en, s_['rv']['op']).fields:
                    marks = True
        plus = ro.has_arith() and 1 in ro.consts()
        errs = all_paths_err(en, other)
        ok = strict and marks and errs and plus and bool(ok_return_blocks(en, en.reachable_from(older)))
        det = 'entry older than the current generation => generation stored and Ok: %s; otherwise Err: %s; equal generations refused: %s; generation is 1 + named types written (never the idle value 0): %s' % (marks, errs, strict, plus)
    if not ok:
        # the same guard with the idle state spelled None: `entry.map_or(true, |at| at < written)` => store Some(written), Ok;
        # otherwise Err (the comparison lives in the closure handed to map_or)
        for bb, t in en.calls():
            if en.is_cleanup(bb) or not strip_generics(cname(t)).endswith('Option::map_or') or 'unnamed_in_progress' not in origin(en, t['args'][0]).fields:
                continue
            dflt = const_int(t['args'][1]) == 1
            strict_c = False
            for cb in f.closures_of(en):
                for cbb in sorted(cb.live_blocks()):
                    for s_ in cb.stmts(cbb):
                        if 'assign' in s_ and s_['rv']['k'] == 'bin' and s_['rv']['op'] in ('Lt', 'Gt'):
                            lo_, ro_ = origin(cb, s_['rv']['l']), origin(cb, s_['rv']['r'])
                            if s_['rv']['op'] == 'Gt':
                                lo_, ro_ = ro_, lo_
                            # entry (the closure's own argument) < counter (captured)
                            strict_c = strict_c or (bool(lo_.params()) and 'upvar' not in lo_.flags and ('upvar' in ro_.flags or COUNTER in ro_.fields))
            sw = t.get('target')
            if sw is None or en.term(sw)['k'] != 'switch':
                continue
            edges = _switch_edges(en, sw)
            if edges is None:
                continue
            t_edge, f_edge = edges
            marks = False
            for x in en.reachable_from(t_edge):
                for s_ in en.stmts(x):
                    if 'assign' in s_ and s_['assign'].get('p') and 'unnamed_in_progress' in origin(en, s_['assign']).fields:
                        vo = origin(en, s_['rv']['op']) if s_['rv']['k'] == 'use' else None
                        if s_['rv']['k'] == 'agg' and s_['rv'].get('variant') == 'Some':
                            vo = origin(en, s_['rv']['ops'][0])
                        if vo is not None and (COUNTER in vo.fields or any(a[0] == 'agg' and a[2] == 'Some' for a in vo.atoms)):
                            marks = True
            errs = all_paths_err(en, f_edge)
            ok = dflt and strict_c and marks and errs and bool(ok_return_blocks(en, en.reachable_from(t_edge)))
            det = 'idle (None) or entered before the last named type was written => Some(written) stored and Ok: %s; otherwise Err: %s; equal refused: %s; idle default admits: %s' % (marks, errs, strict_c, dflt)
    ctx.ob('RECGUARD-T', 'canon/enter-refuses-in-progress', ok, short_loc(en.span), det)
    # leave: writes the idle value (0, or None)
    okl = False
    for x in lv.live_blocks():
        for s_ in lv.stmts(x):
            if 'assign' in s_ and s_['assign'].get('p') and 'unnamed_in_progress' in origin(lv, s_['assign']).fields:
                if s_['rv']['k'] == 'use' and const_int(s_['rv']['op']) == 0:
                    okl = True
                if s_['rv']['k'] == 'agg' and s_['rv'].get('adt') == 'core::option::Option' and s_['rv'].get('variant') == 'None':
                    okl = True
                if s_['rv']['k'] == 'use' and any(a[0] == 'agg' and a[1] == 'core::option::Option' and a[2] == 'None' for a in origin(lv, s_['rv']['op']).atoms) and \
                        not any(a[0] == 'agg' and a[2] == 'Some' for a in origin(lv, s_['rv']['op']).atoms):
                    okl = True
    ctx.ob('RECGUARD-T', 'canon/leave-clears', okl, short_loc(lv.span), 'the leave helper resets the entry to the idle value (0 / None): %s' % okl)
    # the generation moves exactly when a named type is written in full: the only writes of the counter are `+= 1` next to
    # the first-occurrence mark (named_type_written[key] = true) - counting references or unnamed nodes would let an
    # unbreakable cycle through
    cw = []
    for b in scope:
        if not fn_label(b).startswith(CFM):
            continue
        for bb in sorted(b.live_blocks()):
            if b.is_cleanup(bb):
                continue
            for s_ in b.stmts(bb):
                if 'assign' in s_ and any(isinstance(e, dict) and e.get('f') == COUNTER for e in s_['assign'].get('p', [])):
                    rv = s_['rv']
                    inc = False
                    if rv['k'] == 'use':
                        o2 = origin(b, rv['op'])
                        inc = COUNTER in o2.fields and 1 in o2.consts() and {x for x in o2.flags if x.startswith('arith:')} <= {'arith:Add', 'arith:AddWithOverflow'} and o2.has_arith()
                    elif rv['k'] == 'bin' and rv['op'] in ('Add', 'AddWithOverflow'):
                        inc = True
                    # next to the first-occurrence mark: a write of `true` into named_type_written on the same straight path
                    marked = False
                    for x in b.live_blocks():
                        if b.dominates(x, bb) or b.dominates(bb, x) or x == bb:
                            for s2 in b.stmts(x):
                                if 'assign' in s2 and s2['assign'].get('p') and s2['rv']['k'] == 'use' and const_int(s2['rv']['op']) == 1 and \
                                        ('named_type_written' in origin(b, s2['assign']).fields or is_bool_table(b.local_ty(s2['assign']['l']) or '') or 'bool' in (b.local_ty(s2['assign']['l']) or '')):
                                    marked = True
                    # ... on the first-occurrence edge itself: every two-way test that decides whether the mark is written
                    # decides the count the same way (counting a *reference* to a named type as a new name lets a cycle of
                    # unnamed containers through one reference go round for ever)
                    if marked:
                        mark_bbs = []
                        for x in b.live_blocks():
                            for s2 in b.stmts(x):
                                if 'assign' in s2 and s2['assign'].get('p') and s2['rv']['k'] == 'use' and const_int(s2['rv']['op']) == 1 and \
                                        ('named_type_written' in origin(b, s2['assign']).fields or is_bool_table(b.local_ty(s2['assign']['l']) or '') or 'bool' in (b.local_ty(s2['assign']['l']) or '')):
                                    mark_bbs.append(x)
                        mine = {(d_, str(tk_)) for d_, si_, tk_ in dominating_switches(b, bb)}
                        same_edge = any({(d_, str(tk_)) for d_, si_, tk_ in dominating_switches(b, mb_) if not b.dominates(mb_, d_)} <= mine for mb_ in mark_bbs)
                        marked = same_edge
                    # (one statement of a helper spliced into several call sites is one write)
                    site = b.blocks[bb].get('inlined_bb') or '%s#%d' % (fn_label(b), bb)
                    cw.append((fn_label(b), inc and marked, site))
    sites_ = {}
    for x in cw:
        sites_[x[2]] = sites_.get(x[2], True) and x[1]
    cw = [(k, v) for k, v in sorted(sites_.items())]
    ctx.ob('RECGUARD-T', 'canon/generation-counts-first-writes', len(cw) == 1 and all(x[1] for x in cw), short_loc(w.span),
           'writes of the named-types counter: %s (expected: one `+= 1` where the first-occurrence flag is set)' % ([('%s: %s' % x) for x in cw] or 'none'))
    # bracket: between enter and leave of the same arm lie all recursive calls of that arm; no recursion after a leave
    ecalls = [(bb, t) for bb, t in w.calls() if (t.get('resolved') or t.get('callee')) == en.id]
    lcalls = [(bb, t) for bb, t in w.calls() if (t.get('resolved') or t.get('callee')) == lv.id]
    rcalls = [(bb, t) for bb, t in w.calls() if (t.get('resolved') or t.get('callee')) == w.id]
    eb = [bb for bb, _ in ecalls]
    n = 0
    for i, (bb, t) in enumerate(sorted(ecalls)):
        te = try_edges(w, bb)
        mine = [r for r, _ in rcalls if te is not None and w.dominates(te[0], r)]
        lv_mine = [l for l, _ in lcalls if te is not None and w.dominates(te[0], l)]
        after_leave = [r for r in mine if any(r in w.reachable_from(w.term(l)['target'], avoid=eb) for l in lv_mine)]
        rets = [x for x in ok_return_blocks(w)]
        own = origin(w, t['args'][1]).params() == {3} and not origin(w, t['args'][1]).fields and \
            all(origin(w, lt['args'][1]).params() == {3} and not origin(w, lt['args'][1]).fields for l, lt in lcalls if l in lv_mine)
        closed = own and bool(lv_mine) and te is not None and bool(mine) and not after_leave and \
            all(must_pass(w, w.term(r)['target'] if try_edges(w, r) is None else try_edges(w, r)[0], rets, lv_mine) for r in mine)
        n += 1
        ctx.ob('RECGUARD-T', 'canon/bracket#%d' % i, closed, short_loc(t.get('span')),
               'children are written while the node is in progress (%d recursive call(s) after enter, %d after a leave) and the node is left on every Ok path: %s' % (len(mine), len(after_leave), closed))
    ctx.floor('RECGUARD-T', 'unnamed containers guarded in the canonical form', n, 3)


def json_guard_semantics(ctx, f, kb, scope):
    """what the two guards of the JSON rendering decide, beyond *that* they look at the per-node table:
    - no_cycle_guard errs when the node is met again with no new name written in between (prev == current included)
    - should_write_as_ref separates the initial table value (never written) from every later generation
    - every guard taken by an unnamed container is released once its children are rendered"""
    g_enter, g_test, g_release = json_guard_fns(f, scope)

    def guard(name):
        return {'no_cycle_guard': g_enter, 'should_write_as_ref': g_test}[name]
    g = guard('no_cycle_guard')
    ok, det = False, 'no_cycle_guard not found'
    if g is not None:
        det = 'no comparison of the previous and the current generation found'
        for bb in sorted(g.live_blocks()):
            if g.term(bb)['k'] != 'switch':
                continue
            cond = switch_condition(g, g.switch_info(bb))
            neg = False
            while cond[0] == 'not':
                neg, cond = not neg, cond[1]
            if cond[0] != 'cmp' or cond[1] not in _CMP:
                continue
            lo, ro = origin(g, cond[2]), origin(g, cond[3])
            prev_l = any(strip_generics(cname(c)).endswith('Cell::replace') for c in lo.calls)
            prev_r = any(strip_generics(cname(c)).endswith('Cell::replace') for c in ro.calls)
            if prev_l == prev_r:
                continue
            edges = _switch_edges(g, bb)
            if edges is None:
                continue
            # value of the condition when prev == current, and when prev < current (a name was written in between)
            prev, cur = (1, 1)
            eq_truth = _CMP[cond[1]](prev, cur) != neg
            lt_truth = (_CMP[cond[1]](0, 1) if prev_l else _CMP[cond[1]](1, 0)) != neg
            eq_edge = edges[0] if eq_truth else edges[1]
            lt_edge = edges[0] if lt_truth else edges[1]
            ok = all_paths_err(g, eq_edge) and not all_paths_err(g, lt_edge) and eq_edge != lt_edge
            det = 'previous generation %s current: equal => Err: %s; smaller (a name was written since) => guard granted: %s' % (
                cond[1], all_paths_err(g, eq_edge), not all_paths_err(g, lt_edge))
    ctx.ob('RECGUARD-T', 'json/no_cycle_guard-errs-on-equal', ok, short_loc(g.span) if g else None, det)

    g = guard('should_write_as_ref')
    ok, det = False, 'should_write_as_ref not found'
    if g is not None:
        det = 'no comparison of the node state with a constant found'
        sets = [bb for bb, t in g.calls() if strip_generics(cname(t)).endswith('Cell::set')]
        for bb in sorted(g.live_blocks()):
            if g.term(bb)['k'] != 'switch':
                continue
            cond = switch_condition(g, g.switch_info(bb))
            neg = False
            while cond[0] == 'not':
                neg, cond = not neg, cond[1]
            if cond[0] != 'cmp' or cond[1] not in _CMP:
                continue
            lo, ro = origin(g, cond[2]), origin(g, cond[3])
            cl = [c for c in lo.consts() if isinstance(c, int) and not isinstance(c, bool)]
            cr = [c for c in ro.consts() if isinstance(c, int) and not isinstance(c, bool)]
            state_l = 'node_traversal_state' in lo.fields
            state_r = 'node_traversal_state' in ro.fields
            if state_l and len(cr) == 1 and not state_r:
                ev = lambda v: _CMP[cond[1]](v, cr[0]) != neg
            elif state_r and len(cl) == 1 and not state_l:
                ev = lambda v: _CMP[cond[1]](cl[0], v) != neg
            else:
                continue
            edges = _switch_edges(g, bb)
            if edges is None:
                continue
            # 0 is the table's initial value (never written); generations start at 1
            separates = ev(0) != ev(1) and ev(1) == ev(2) == ev(10 ** 6)
            fresh_edge = edges[0] if ev(0) else edges[1]
            marks = bool(sets) and all(g.dominates(fresh_edge, sb) for sb in sets)
            ok = separates and marks
            det = 'state %s constant separates 0 (never written) from every generation >= 1: %s; the never-written edge is the one that marks the node and bumps the counter: %s' % (cond[1], separates, marks)
    ctx.ob('RECGUARD-T', 'json/should_write_as_ref-threshold', ok, short_loc(g.span) if g else None, det)

    # release
    gcalls = [(bb, t) for bb, t in kb.calls() if g_enter is not None and (t.get('resolved') or t.get('callee')) == g_enter.id]
    rel = [bb for bb, t in kb.calls() if g_release is not None and (t.get('resolved') or t.get('callee')) == g_release.id]
    rets = [bb for bb in kb.live_blocks() if kb.term(bb)['k'] == 'return']
    n = 0
    for gbb, gt in gcalls:
        te = try_edges(kb, gbb)
        if te is None:
            continue
        ends = [bb for bb, t in kb.calls() if (t.get('callee') or '').endswith(('SerializeMap::end', 'SerializeSeq::end', 'SerializeStruct::end')) and kb.dominates(te[0], bb)]
        n += 1
        okr = bool(ends) and all(must_pass(kb, kb.term(e)['target'], rets, rel) for e in ends)
        ctx.ob('RECGUARD-T', 'json/guard-released#%d' % n, okr, short_loc(gt.get('span')),
               'the guard taken here is released on every path from the end of the container\'s rendering to the return: %s' % okr)
    ctx.floor('RECGUARD-T', 'json guards taken by unnamed containers', n, 3)
    # ... and releasing puts the node back to the table's initial value on every path: a mark left behind by a nested
    # visit makes the next sibling reference to the same (shared) container look like a cycle
    ok, det = False, 'release method of the guard not found'
    if g_release is not None:
        sets = [(bb, t) for bb, t in g_release.calls() if strip_generics(cname(t)).endswith('Cell::set')]
        rets_r = [bb for bb in g_release.live_blocks() if g_release.term(bb)['k'] == 'return']
        zero = [bb for bb, t in sets if len(t['args']) == 2 and const_int(t['args'][1]) == 0]
        always = bool(zero) and must_pass(g_release, 0, rets_r, zero)
        ok = len(sets) == len(zero) == 1 and always
        det = 'release() sets the node state %d time(s), to the initial value 0 at %d of them, on every path to the return: %s' % (len(sets), len(zero), always)
    ctx.ob('RECGUARD-T', 'json/release-resets-unconditionally', ok, short_loc(g_release.span) if g_release is not None else None, det)


_META = {}


def jsonlimit(ctx):
    f = ctx.f
    # no call to disable_recursion_limit anywhere in the workspace crates
    n = 0
    for crate in ('serde_avro_fast', 'serde_avro_derive', 'serde_avro_derive_macros'):
        for b in ctx.facts(crate).body_list:
            for bb, t in b.calls():
                if 'disable_recursion_limit' in cname(t):
                    n += 1
    ctx.ob('JSONLIMIT', 'no-disable_recursion_limit', n == 0, None, '%d call(s) to disable_recursion_limit' % n)
    key = ctx.repo
    if key not in _META:
        try:
            r = subprocess.run(['cargo', 'metadata', '--offline', '--format-version', '1', '--all-features'], cwd=ctx.repo,
                               stdout=subprocess.PIPE, stderr=subprocess.PIPE, text=True, env=dict(os.environ, CARGO_NET_OFFLINE='true'))
            _META[key] = json.loads(r.stdout) if r.returncode == 0 else None
        except Exception:
            _META[key] = None
    md = _META[key]
    if md is None:
        raise Inconclusive('cargo metadata failed')
    feats = None
    for node in md['resolve']['nodes']:
        if node['id'].split('#')[-1].startswith('serde_json@') or '/serde_json-' in node['id'] or ' serde_json ' in node['id'] or node['id'].startswith('serde_json '):
            feats = node['features']
    if feats is None:
        for node in md['resolve']['nodes']:
            if 'serde_json' in node['id']:
                feats = node['features']
    ctx.ob('JSONLIMIT', 'feature-unbounded_depth-off', feats is not None and 'unbounded_depth' not in feats, None,
           'serde_json resolved features: %s' % feats)
