"""C07 - schema parsing resolves names per the specification; invalid schemas rejected (structural part).

  NSARG     namespace argument of every recursive registration call: union variants, array items and map values get
            the enclosing namespace unchanged; record fields get the record's own (resolved) namespace
  NAMEKEY   the reference path and the definition path build their name keys the same way: split on the last '.',
            empty namespace => none; the definition consults the `namespace` attribute only when the name has no
            dot and falls back to the enclosing namespace only when the attribute is absent
  FIXUP     the late-reference fix-up visits every key-bearing variant (array, map, union, record) and runs whenever
            there are unresolved names; unknown names error
  REJECT    duplicate definitions (insert result inspected), missing required attributes (5 complex + 2 decimal),
            missing names, and unconditional record cycles (every Ok of from_str passes check_for_cycles)
  PRESERVE  record fields, symbols, size and logical type are taken from the raw node in order (no reordering calls);
            every logical-type name maps to its own variant (table shared with C09) and unknown names are kept verbatim
  CYCLECHECK / STATE  the zero-size-cycle search is a two-table DFS over *all* records and *all* their fields (no
            positional selection); the parser state has the three reviewed tables; the key of an unresolved
            reference is unresolved_names.len() | marker bit, pushed at one site
  CYCLECHECK ... a child that is already done is not searched again (the search visits records, not paths)   (found F20)
  CYCLECHECK ... the two tables may be one table of a three-state enum (new / on the stack / done): roles read from the code,
             same obligations
  REJECT   ... required attributes are exactly the specification's (decimal scale is optional, default 0: F21); only
           record / enum / fixed define a name (F26)
  FORMS    the `type` of a schema object can hold a reference, not only a built-in type name        (F28, known finding)
  FIXUP    ... the table of resolved names is indexed exactly where (idx & BIT) != 0 holds
  NSARG    ... the enclosing namespace is a parameter of the recursion (kept in mutable parser state it is reported,
           child by child, as a protocol that was not reviewed)
It does NOT decide the resolved graph for every JSON spelling.
"""
from ..lib import *
from ..core import short_loc, op_place, const_int, const_str
from .c03 import fn_by_label

EXPLANATION = ("Schema parsing, structural part: namespace threading at every recursive registration call, both name-key "
               "constructions agree, the late-reference fix-up visits every key-bearing variant, duplicate / unknown / "
               "missing-attribute / cycle checks are on every Ok path. The resolved graph for every spelling is not decided.")

PM = 'schema::safe::parsing::'
REG = 'schema::safe::RegularType'
RAWT = 'schema::safe::parsing::raw::Type'


def run(ctx):
    f = ctx.f
    rn = fn_by_label(f, PM + 'SchemaConstructionState::register_node')
    fs = None
    for b in f.body_list:
        if b.j['kind'] != 'closure' and b.name == 'from_str' and fn_label(b).startswith(('<schema::safe::SchemaMut', PM)) and 'parsing' in (b.span or {}).get('loc', ''):
            fs = b
    if rn is None or fs is None:
        ctx.ob('NSARG', 'anchors', False, None, 'register_node / from_str not found')
        return
    fam = [rn] + f.closures_of(rn)
    for b in fam:
        ctx.touched(b, len(b.calls()))
    ctx.touched(fs, len(fs.calls()))
    nsarg(ctx, rn, fam)
    namekey(ctx, rn, fam)
    fixup(ctx, fs)
    reject(ctx, rn, fam, fs)
    preserve(ctx, rn, fam)
    from . import c09
    c09.logical_pair(ctx, 'PRESERVE')
    cyclecheck(ctx)
    state_rule(ctx, rn)
    object_form_rule(ctx)


def rec_sites(rn, fam):
    out = []
    for x in fam:
        for bb, t in x.calls():
            if (t.get('resolved') or t.get('callee')) == rn.id:
                out.append((x, bb, t))
    return out


def which_child(x, t):
    """which child is being registered: 'items' | 'values' | 'union' | 'field' (from the raw-node argument)"""
    o = origin(x, t['args'][1])
    if 'items' in o.fields:
        return 'items'
    if 'values' in o.fields:
        return 'values'
    if 'type_' in o.fields:
        return 'field'
    return 'union'


def nsarg(ctx, rn, fam):
    sites = rec_sites(rn, fam)
    ctx.floor('NSARG', 'recursive registration calls', len(sites), 4)
    seen = {}
    for x, bb, t in sites:
        w = which_child(x, t)
        seen[w] = seen.get(w, 0) + 1
        if len(t['args']) < 3:
            # the enclosing namespace is no longer an argument of the recursion (kept in mutable parser state, say): set /
            # restore discipline around each child is a different protocol, which was not reviewed
            ctx.ob('NSARG', '%s#%d' % (w, seen[w]), False, short_loc(t.get('span')),
                   '%s child registered without a namespace argument: the enclosing namespace is not threaded through the recursion as a parameter (reviewed protocol: record fields get the record\'s own namespace, other children the unchanged parameter)' % w)
            continue
        o = origin(x, t['args'][2])
        if w == 'field':
            ok = 'namespace' in o.fields and not (o.params() & {3}) and ('upvar' in o.flags or o.params() <= {1, 2}) and \
                not any(a[0] == 'param' and x.j['kind'] != 'closure' and a[1] == 3 for a in o.atoms)
            # it must be the record's own name key (built in this function), not the enclosing parameter
            enclosing = (x is rn and o.params() == {3}) or ('upvar' in o.flags and o.params() == {3} and not o.fields)
            ok = ok and not enclosing
            det = 'record field registered with namespace %s (must be the record\'s own name_key.namespace)' % o.describe()[:140]
        else:
            ok = o.params() == {3} and not o.fields - set() and not o.call_names() and not o.consts()
            ok = ok and 'namespace' not in o.fields
            det = '%s child registered with namespace %s (must be the enclosing_namespace parameter, unchanged)' % (w, o.describe()[:140])
        ctx.ob('NSARG', '%s#%d' % (w, seen[w]), ok, short_loc(t.get('span')), det)
    ctx.ob('NSARG', 'all-four-children', set(seen) == {'items', 'values', 'union', 'field'}, short_loc(rn.span), 'children registered recursively: %s' % sorted(seen), nontrivial=False)


TEXT_FOLDING = ('eq_ignore_ascii_case', 'to_lowercase', 'to_uppercase', 'to_ascii_lowercase', 'to_ascii_uppercase', 'make_ascii_lowercase',
                'make_ascii_uppercase', 'impl str>::trim', 'impl str>::strip_prefix', 'impl str>::strip_suffix', 'impl str>::replace', 'to_pascal_case')


def resolution_rules(ctx):
    """the schema the (de)serializers work from is the one the JSON text denotes: name keys, namespace threading and the
    parser's tables (shared by the datum properties C01 / C03: a reference bound to the wrong definition decodes valid
    data wrongly without any change to the codec itself)"""
    f = ctx.f
    rn = fn_by_label(f, PM + 'SchemaConstructionState::register_node')
    if rn is None:
        ctx.ob('NSARG', 'anchor', False, None, 'register_node not found')
        return
    fam = [rn] + f.closures_of(rn)
    nsarg(ctx, rn, fam)
    namekey(ctx, rn, fam)
    state_rule(ctx, rn)
    # ... and the late-bound keys of forward references are rewritten to the definition their own name key designates
    fs = None
    for b in f.body_list:
        if b.j['kind'] != 'closure' and b.name == 'from_str' and fn_label(b).startswith(('<schema::safe::SchemaMut', PM)) and 'parsing' in (b.span or {}).get('loc', ''):
            fs = b
    if fs is not None:
        fixup(ctx, fs)


def object_form_rule(ctx):
    """the specification's object form is {"type": "typeName", ...attributes...} where typeName is a primitive OR a derived
    (previously defined, named) type: {"type": "Coord"} is a reference to Coord just like the bare string "Coord".  The
    `type` of a schema object must therefore be able to hold a name that is not one of the built-in type names."""
    f = ctx.f
    a = f.adts.get(PM + 'raw::SchemaNodeObject')
    ok, det = False, 'raw::SchemaNodeObject not found'
    if a is not None:
        ty = [fl['ty'] for fl in a['variants'][0]['fields'] if fl['name'] == 'type_']
        det = 'no type_ field'
        if ty:
            import re as _re
            t0 = _re.sub(r'<.*$', '', ty[0])
            ta = f.adts.get(t0)
            closed = ta is not None and all(not v['fields'] for v in ta['variants'])
            ok = not closed
            det = 'the `type` of a schema object is parsed as %s, %s' % (ty[0], 'a closed list of the %d built-in type names: a reference there ({"type": "Coord"}) is a parse error' % len(ta['variants']) if closed else 'which can hold a reference')
    ctx.ob('FORMS', 'object-type-accepts-references', ok, short_loc(a['span']) if a else None, det)


def string_forms_rule(ctx):
    """a JSON string reaches a serde visitor as visit_borrowed_str only when it has no escape; with an escape (or from a
    reader) it arrives through visit_str / visit_string.  Every hand-written visitor of the schema parser that accepts a
    borrowed string therefore also accepts visit_str (visit_string defaults to it): a schema is not rejected for how its
    JSON is spelled"""
    f = ctx.f
    vis = {}
    for b in f.body_list:
        if b.j.get('impl_trait') == 'serde_core::de::Visitor' and b.j['kind'] != 'closure' and not b.j.get('from_expansion') and \
                fn_label(b).startswith(('<schema::', 'schema::', '<<schema::')):
            vis.setdefault(b.j.get('impl') or b.j.get('self_ty') or '?', set()).add(b.name)
    n = 0
    for k, meths in sorted(vis.items()):
        if 'visit_borrowed_str' in meths:
            n += 1
            ctx.ob('REJECT', 'string-forms/%s' % strip_generics(k).rsplit('::', 1)[-1].rstrip('>'), 'visit_str' in meths, None,
                   'hand-written visitor accepting borrowed strings implements %s; visit_str (escaped / owned strings) present: %s' % (sorted(m for m in meths if 'str' in m), 'visit_str' in meths))
    ctx.floor('REJECT', 'hand-written string visitors in the schema parser', n, 1)


def exact_text(ctx):
    """names and type keywords are compared as written: Avro names are case sensitive and `String`, `Long`, `Record` are
    legal user type names, so nothing in schema parsing / naming folds case, trims or rewrites text"""
    f = ctx.f
    found = []
    n = 0
    for b in f.body_list:
        fl = fn_label(b)
        if not fl.startswith(('schema::', '<schema::')):
            continue
        n += 1
        for bb, t in b.calls():
            if b.is_cleanup(bb):
                continue
            c = cname(t)
            if any(x in c for x in TEXT_FOLDING):
                found.append('%s in %s' % (strip_generics(c).rsplit('::', 1)[-1], short_fn(fl)))
    ctx.ob('NAMEKEY', 'text-compared-exactly', not found, None,
           'case-folding / trimming / rewriting calls in the schema modules: %s (%d functions scanned)' % (sorted(set(found)) or 'none', n))
    ctx.floor('NAMEKEY', 'schema functions scanned for text folding', n, 80)


def namekey(ctx, rn, fam):
    exact_text(ctx)
    string_forms_rule(ctx)
    NK = PM + 'NameKey'
    # the two rsplit_once('.') calls and the NameKey aggregates around them
    rs = [(bb, t) for bb, t in rn.calls() if cname(t).endswith('str::<impl str>::rsplit_once')]
    ok = len(rs) == 2 and all(origin(rn, t['args'][1]).consts() == {46} for bb, t in rs)
    ctx.ob('NAMEKEY', 'split-on-last-dot', ok, short_loc(rn.span), '%d rsplit_once(\'.\') call(s) (reference path and definition path)' % len(rs))
    if len(rs) != 2:
        return
    # classify: reference path = the one whose subject derives from the Ref payload / `reference`; definition = from object.name
    paths = {}
    for bb, t in rs:
        so = origin(rn, t['args'][0])
        paths['def' if 'name' in so.fields else 'ref'] = (bb, t)
    ctx.ob('NAMEKEY', 'both-paths-found', set(paths) == {'def', 'ref'}, short_loc(rn.span), 'paths: %s' % sorted(paths), nontrivial=False)
    # (the filter may sit in a closure handed to a combinator: `rsplit_once('.').map(|(ns, name)| NameKey { namespace:
    # Some(ns).filter(..), name })` - then what it filters is judged by what that combinator is applied to)
    filt = [(b_, bb, t) for b_, bb, t in calls_in(rn, rn.live_blocks(), rn.facts) if cname(t).endswith('Option::<T>::filter')]

    def applied_to(cb):
        """origins of the receivers of the calls in rn that are handed the closure cb"""
        out = []
        for bb2, t2 in rn.calls():
            if rn.is_cleanup(bb2) or len(t2.get('args', [])) < 2:
                continue
            if any(a[0] == 'closure' and a[1] == cb.id for x in t2['args'][1:] for a in origin(rn, x).atoms):
                out.append((origin(rn, t2['args'][0]), bb2))
        return out

    def empty_filter_on(opnd_pred):
        n = 0
        for b_, bb, t in filt:
            a0 = origin(b_, t['args'][0])
            co = origin(b_, t['args'][1])
            if b_ is not rn and a0.params():
                recv = applied_to(b_)
                isempty_here = False
                for a in co.atoms:
                    if a[0] == 'closure':
                        cb = rn.facts.bodies.get(a[1])
                        if cb is not None and any(call_matches(ct, ['str::<impl str>::is_empty']) for cbb, ct in cb.calls()):
                            isempty_here = any('assign' in s and s['rv']['k'] == 'un' and s['rv']['op'] == 'Not' for cbb in cb.live_blocks() for s in cb.stmts(cbb))
                if isempty_here:
                    n += sum(1 for ro, rbb in recv if opnd_pred(ro, rbb))
                continue
            isempty = False
            for a in co.atoms:
                if a[0] == 'closure':
                    cb = rn.facts.bodies.get(a[1])
                    if cb is not None and any(call_matches(ct, ['str::<impl str>::is_empty']) for cbb, ct in cb.calls()):
                        # closure is `!s.is_empty()`
                        isempty = any('assign' in s and s['rv']['k'] == 'un' and s['rv']['op'] == 'Not' for cbb in cb.live_blocks() for s in cb.stmts(cbb))
            if isempty and opnd_pred(a0, bb):
                n += 1
        return n
    for which in ('ref', 'def'):
        if which not in paths:
            continue
        pbb, pt = paths[which]
        # dotted: NameKey{namespace: Some(ns).filter(non-empty), name}
        n = empty_filter_on(lambda a0, bb: any(c is pt for c in a0.calls))
        ctx.ob('NAMEKEY', '%s/empty-namespace-is-none' % which, n == 1, short_loc(pt.get('span')),
               '%s path: namespace part of a dotted name goes through filter(!is_empty): %d' % (which, n))
    # definition path, undotted: namespace attribute (filtered) else enclosing
    n = empty_filter_on(lambda a0, bb: 'namespace' in a0.fields and not any(cname(c).endswith('rsplit_once') for c in a0.calls))
    ctx.ob('NAMEKEY', 'def/explicit-empty-namespace-is-none', n == 1, short_loc(rn.span), 'explicit `namespace` attribute goes through filter(!is_empty): %d' % n)
    # the attribute is consulted only in the undotted arm (None of rsplit_once) and the enclosing namespace only when the attribute is None
    if 'def' in paths:
        dbb, dt = paths['def']
        attr_ok = encl_ok = False
        for bb in sorted(rn.live_blocks()):
            for s in rn.stmts(bb):
                if 'assign' in s and s['rv']['k'] == 'agg' and s['rv'].get('adt') == NK:
                    no = origin(rn, s['rv']['ops'][s['rv']['fields'].index('namespace')])
                    og = option_guards(rn, bb)
                    in_none_of_split = any('None' in names and any(c is dt for c in oo.calls) for names, adt, oo, d_, oth in og)
                    if in_none_of_split:
                        # namespace = match object.namespace { Some(ns) => filter.., None => enclosing }
                        flds, prms = set(no.fields), set(no.params())
                        # (the fallback may be handed in as a closure and called here: `namespace: default()`; what it
                        # returns is judged in its body, captured values resolving to this function's)
                        for c in no.calls:
                            if 'call_once' in cname(c) or 'call_once' in (c.get('callee') or ''):
                                for a in origin(rn, c['args'][0]).atoms:
                                    cb_ = rn.facts.bodies.get(a[1]) if a[0] == 'closure' else None
                                    if cb_ is not None:
                                        ro = origin(cb_, {'copy': {'l': 0}})
                                        flds |= set(ro.fields)
                                        prms |= set(ro.params())
                        attr_ok = 'namespace' in flds and 3 in prms
        # the enclosing fallback sits in the None arm of the attribute
        for bb in sorted(rn.live_blocks()):
            for s in rn.stmts(bb):
                if 'assign' in s and s['rv']['k'] == 'use':
                    o = origin(rn, s['rv']['op'])
                    if o.params() == {3} and not o.fields and len(o.atoms) == 1:
                        for names, adt, oo, d_, oth in option_guards(rn, bb):
                            if 'None' in names and 'namespace' in oo.fields and not oo.call_names():
                                encl_ok = True
        ctx.ob('NAMEKEY', 'def/attribute-only-without-dot', attr_ok, short_loc(rn.span), 'undotted definition: namespace = attribute (filtered) | enclosing: %s' % attr_ok)
        ctx.ob('NAMEKEY', 'def/enclosing-only-when-attribute-absent', encl_ok, short_loc(rn.span), 'enclosing namespace used only in the None arm of the `namespace` attribute: %s' % encl_ok)
    if 'ref' in paths:
        rbb, rt = paths['ref']
        # undotted reference: NameKey{namespace: enclosing_namespace, name: reference}
        ok = False
        for bb in sorted(rn.live_blocks()):
            for s in rn.stmts(bb):
                if 'assign' in s and s['rv']['k'] == 'agg' and s['rv'].get('adt') == NK:
                    og = option_guards(rn, bb)
                    if any('None' in names and any(c is rt for c in oo.calls) for names, adt, oo, d_, oth in og):
                        no = origin(rn, s['rv']['ops'][s['rv']['fields'].index('namespace')])
                        ok = no.params() == {3} and not no.fields and not no.call_names()
        ctx.ob('NAMEKEY', 'ref/undotted-uses-enclosing', ok, short_loc(rn.span), 'undotted reference is looked up in the enclosing namespace: %s' % ok)
    # lookups: names.get(&name_key) for references, names.insert(name_key, idx) for definitions
    ins = [(bb, t) for bb, t in rn.calls() if cname(t).endswith('HashMap::<K, V, S, A>::insert') and 'names' in origin(rn, t['args'][0]).fields]
    gets = [(bb, t) for bb, t in rn.calls() if cname(t).endswith('HashMap::<K, V, S, A>::get') and 'names' in origin(rn, t['args'][0]).fields]
    ctx.ob('NAMEKEY', 'one-insert-one-get', len(ins) == 1 and len(gets) == 1, short_loc(rn.span), 'names.insert: %d, names.get: %d' % (len(ins), len(gets)), nontrivial=False)


def fixup(ctx, fs):
    f = ctx.f
    SK = 'schema::safe::SchemaKey'
    fix = None
    for cb in f.closures_of(fs):
        # the closure rewriting a key: indexes resolved_names with key.idx ^ BIT under (idx & BIT != 0)
        ops = set()
        for bb in cb.live_blocks():
            for s in cb.stmts(bb):
                if 'assign' in s and s['rv']['k'] == 'bin':
                    ops.add(s['rv']['op'])
        if 'BitAnd' in ops and 'BitXor' in ops:
            fix = cb
    ctx.ob('FIXUP', 'fix-closure', fix is not None, short_loc(fs.span), 'closure rewriting late-bound keys found: %s' % (fix is not None))
    pt = positional_truncations(fs)
    ctx.ob('FIXUP', 'visits-whole-collections', not pt, short_loc(fs.span), 'positional selections (take / skip / nth / first / sub-range) in the fix-up traversal: %s' % (sorted({x[2] for x in pt}) or 'none'))
    if fix is None:
        return
    ctx.touched(fix)
    # test bit and clear bit use the same constant
    consts = set()
    for bb in fix.live_blocks():
        for s in fix.stmts(bb):
            if 'assign' in s and s['rv']['k'] == 'bin' and s['rv']['op'] in ('BitAnd', 'BitXor'):
                for side in ('l', 'r'):
                    o = origin(fix, s['rv'][side])
                    consts |= {a[1] for a in o.atoms if a[0] == 'const'}
    ctx.ob('FIXUP', 'same-bit', len({c for c in consts if c not in (0,)}) == 1, short_loc(fix.span), 'marker bit tested and cleared with the same constant: %s' % sorted(str(c)[-40:] for c in consts))
    # ... and the rewrite happens exactly under "the marker bit is set": (idx & BIT) != 0 on the edge that looks the key
    # up, nothing rewritten on the other (an unmarked key indexed with idx ^ BIT is out of range; a marked one left as
    # it is dangles)
    lookups = [bb for bb, t in fix.calls() if call_matches(t, ['Index::index', 'Index<I>>::index', 'Index<I> for [T]>::index', 'Index<I> for Vec<T, A>>::index'])
               or cname(t).endswith('::index') or cname(t).endswith('::get')]
    marked = bool(lookups)
    for lb in lookups:
        good = False
        for g in cmp_guards(fix, lb):
            if g['op'] == 'Ne' and any(x.startswith('arith:BitAnd') for x in g['l'].flags) and g['r'].consts() == {0} and not g['r'].params():
                good = True
        marked = marked and good
    ctx.ob('FIXUP', 'rewrite-iff-marked', marked, short_loc(fix.span),
           'the table of resolved names is indexed only where (idx & BIT) != 0 holds (%d lookup site(s)): %s' % (len(lookups), marked))
    # coverage: arms of the match on RegularType in from_str
    regs = {}
    for r in enum_regions(fs, REG):
        for v in r.variants:
            regs[v] = r

    def calls_fix(blocks):
        n = 0
        for bb in sorted(blocks):
            t = fs.term(bb)
            if t['k'] == 'call':
                if (t.get('resolved') or '') == fix.id:
                    n += 1
                # through for_each(fix_key) / for_each(|f| fix_key(..))
                if cname(t).endswith('Iterator::for_each') or cname(t).endswith('iterator::Iterator>::for_each'):
                    co = origin(fs, t['args'][1])
                    for a in co.atoms:
                        if a[0] == 'closure':
                            if a[1] == fix.id:
                                n += 1
                            else:
                                cb = f.bodies.get(a[1])
                                if cb is not None and any((ct.get('resolved') or '') == fix.id for cbb, ct in cb.calls()):
                                    n += 1
                    if 'upvar' in co.flags or any(a[0] == 'closure' for a in co.atoms) is False:
                        # passed by reference to the closure variable
                        for d in fs.defs().get(op_place(t['args'][1])['l'], []) if op_place(t['args'][1]) else []:
                            pass
        return n
    # blocks applying the fix closure (directly, or through for_each with it / with a closure calling it)
    fixb = set()
    for bb, t in fs.calls():
        if (t.get('resolved') or '') == fix.id:
            fixb.add(bb)
        if 'for_each' in cname(t):
            co = origin(fs, t['args'][1])
            for a in co.atoms:
                if a[0] == 'closure':
                    cb = f.bodies.get(a[1])
                    if a[1] == fix.id or (cb is not None and any((ct.get('resolved') or '') == fix.id for cbb, ct in cb.calls())):
                        fixb.add(bb)
    # the rewrite is applied *in place*: what each direct application receives is a reference into the node being
    # visited (the pattern binding), not the address of a local copy of the key
    from .c20gen import ref_base
    inplace = []
    for x in [fs] + f.closures_of(fs):
        if x is fix:
            continue
        for bb, t in x.calls():
            if (t.get('resolved') or '') == fix.id and len(t['args']) > 1:
                good = False
                pa = op_place(t['args'][1])
                for _ in range(8):
                    if pa is None:
                        break
                    ds = [d for d in x.defs().get(pa['l'], []) if d[2] == 'assign' and not d[4].get('p')]
                    if not ds:
                        # parameter / pattern binding: in place iff it is a mutable reference
                        good = x.local_ty(pa['l']).startswith('&mut ')
                        break
                    rvs = [d[3] for d in ds]
                    if all(r_['k'] in ('ref', 'rawptr') for r_ in rvs):
                        pls = [r_['place'] for r_ in rvs]
                        if all(p_.get('p') == ['*'] for p_ in pls) and len(pls) == 1:
                            pa = {'l': pls[0]['l']}          # `&mut *r`: a pure re-borrow, look at r
                            continue
                        # `&mut (*r).field..`: points into what r borrows: in place.  `&mut local`: address of a copy.
                        good = all('*' in p_.get('p', []) and len(p_['p']) > 1 for p_ in pls)
                        break
                    if len(rvs) != 1:
                        break
                    rv_ = rvs[0]
                    if rv_['k'] == 'use':
                        pa = op_place(rv_['op'])
                        continue
                    if rv_['k'] == 'agg' and rv_.get('agg') == 'tuple' and len(rv_['ops']) == 1:
                        pa = op_place(rv_['ops'][0])     # closure call: arguments travel as a tuple
                        continue
                    break
                inplace.append(good)
    ctx.ob('FIXUP', 'applied-in-place', bool(inplace) and all(inplace), short_loc(fs.span),
           'direct applications of the key rewrite: %d, each on a `&mut` borrowed from the visited node: %s' % (len(inplace), inplace))
    sis = fs.switches_on_adt(REG)
    for kind in ('Array', 'Map', 'Union', 'Record'):
        ok = False
        for si in sis:
            tb = si['variants'].get(kind)
            if tb is not None:
                # every way from this arm back to the loop (the switch) or out passes a fix application
                ends = [si['bb']] + fs.exits()
                ok = bool(fixb) and must_pass(fs, tb, ends, fixb)
        ctx.ob('FIXUP', 'visits/%s' % kind, ok, short_loc(fs.span), 'every path through the %s arm of the fix-up loop applies the key rewrite: %s' % (kind, ok))
    # guard: runs whenever unresolved_names is non-empty
    ok = False
    for r in enum_regions(fs, REG)[:1]:
        for d, si, taken in dominating_switches(fs, r.switch_bb):
            if si.get('kind') != 'enum':
                so = origin(fs, si['op'])
                if 'unresolved_names' in so.fields and 'is_empty' in so.flags:
                    ok = taken == ('val', (0,))
    ctx.ob('FIXUP', 'runs-when-unresolved', ok, short_loc(fs.span), 'fix-up runs exactly when unresolved_names is non-empty: %s' % ok)
    # unknown reference => Err: names.get(&name).ok_or(..) ... collect::<Result>()?
    okr = False
    for cb in f.closures_of(fs):
        g = [(bb, t) for bb, t in cb.calls() if cname(t).endswith('HashMap::<K, V, S, A>::get')]
        oo_ = [(bb, t) for bb, t in cb.calls() if cname(t).endswith('Option::<T>::ok_or') or cname(t).endswith('Option::<T>::ok_or_else')]
        if g and oo_ and any(c is g[0][1] for c in origin(cb, oo_[0][1]['args'][0]).calls):
            okr = True
    col = [(bb, t) for bb, t in fs.calls() if cname(t).endswith('Iterator::collect') or 'collect' in cname(t)]
    okc = any(try_edges(fs, bb) is not None and 'Result<' in fs.local_ty(t['dest']['l']) for bb, t in col)
    if not (okr and okc):
        # the explicit spelling: a loop over unresolved_names with `match names.get(&name) { Some(..) => push, None => return Err }`
        for bb, t in fs.calls():
            if not cname(t).endswith('HashMap::<K, V, S, A>::get') or 'names' not in origin(fs, t['args'][0]).fields or fs.is_cleanup(bb):
                continue
            for sb in sorted(fs.live_blocks()):
                if fs.term(sb)['k'] != 'switch':
                    continue
                si = fs.switch_info(sb)
                if si.get('kind') != 'enum' or si.get('adt') != 'core::option::Option' or not any(c is t for c in origin(fs, si['place']).calls):
                    continue
                nb = si['variants'].get('None', si['otherwise'] if 'None' in (si.get('otherwise_variants') or []) else None)
                if nb is not None and all_paths_err(fs, nb):
                    okr = okc = True
    ctx.ob('FIXUP', 'unknown-reference-errs', okr and okc, short_loc(fs.span), 'unresolved names are looked up with get(..).ok_or(Err) and collected with `?`: %s/%s' % (okr, okc))


def reject(ctx, rn, fam, fs):
    f = ctx.f
    # duplicate: insert result inspected, Some => Err
    ins = [(bb, t) for bb, t in rn.calls() if cname(t).endswith('HashMap::<K, V, S, A>::insert') and 'names' in origin(rn, t['args'][0]).fields]
    ok = False
    if len(ins) == 1:
        ibb, it = ins[0]
        for sbb in sorted(rn.live_blocks()):
            if rn.term(sbb)['k'] == 'switch':
                si = rn.switch_info(sbb)
                if si.get('kind') == 'enum' and si.get('adt') == 'core::option::Option' and si['place']['l'] == it['dest']['l']:
                    sb = si['variants'].get('Some')
                    if sb is None and 'Some' in (si.get('otherwise_variants') or []):
                        sb = si['otherwise']
                    ok = sb is not None and all_paths_err(rn, sb)
        if not ok:
            # `if names.insert(..).is_some() { return Err(..) }`
            for bb, t in rn.calls():
                if strip_generics(cname(t)).endswith(('Option::is_some', 'Option::is_none')) and any(c is it for c in origin(rn, t['args'][0]).calls):
                    sw = t.get('target')
                    if sw is not None and rn.term(sw)['k'] == 'switch':
                        t0 = [x['bb'] for x in rn.term(sw)['targets'] if x['v'] == 0]
                        some_edge = rn.term(sw)['otherwise'] if strip_generics(cname(t)).endswith('is_some') else (t0[0] if t0 else None)
                        ok = some_edge is not None and all_paths_err(rn, some_edge)
    ctx.ob('REJECT', 'duplicate-definition', ok, short_loc(rn.span), 'names.insert(..) returning Some (duplicate fullname) returns Err: %s' % ok)
    # only record, enum and fixed DEFINE a name: a `name` attribute on an array, a map or a primitive written as an object is
    # an attribute like `doc` (ignored) - registering it would make unknown references resolve to that node, and a real
    # definition of the same fullname a false "duplicate"
    okn = False
    detn = 'the registration is not under a test of the kind of type being defined'
    if len(ins) == 1:
        for r_ in enum_regions(rn, PM + 'raw::Type'):
            if ins[0][0] in r_.blocks:
                okn = set(r_.variants) <= {'Record', 'Enum', 'Fixed'} and bool(r_.variants)
                detn = 'names.insert(..) happens for types %s' % sorted(r_.variants)
    ctx.ob('REJECT', 'only-named-types-define-names', okn, short_loc(rn.span), detn)
    # missing attributes: count the distinct "Missing field" error sites by attribute
    attrs = {}
    import re as _re
    for x in fam:
        for bb, t in x.calls():
            for txt in const_texts(x, t):
                if 'Missing field' in txt:
                    for m in _re.findall(r'Missing field `([a-z_A-Z]+)`', txt):
                        attrs[m] = attrs.get(m, 0) + 1
    want = {'items', 'values', 'symbols', 'size', 'fields', 'precision'}
    ctx.ob('REJECT', 'missing-attributes', want <= set(attrs), short_loc(rn.span), 'attributes whose absence is an error: %s (required: %s)' % (sorted(attrs), sorted(want)))
    # ... and only those: the specification makes the scale of a decimal optional ("scale, a JSON integer representing the
    # scale (optional). If not specified the scale is 0"), so a document without it is valid and must parse, with scale 0
    # (this rule used to list `scale` as required - the reviewed table was wrong, not only the code: F21)
    optional = {'scale': 0}
    over = sorted(set(attrs) & set(optional))
    dflt = {}
    for x in fam:
        for bb in sorted(x.live_blocks()):
            if x.is_cleanup(bb):
                continue
            for s_ in x.stmts(bb):
                if 'assign' in s_ and s_['rv']['k'] == 'agg' and (s_['rv'].get('adt') or '').endswith('schema::safe::Decimal'):
                    for nm, dv in optional.items():
                        if nm in (s_['rv'].get('fields') or []):
                            o = origin(x, s_['rv']['ops'][s_['rv']['fields'].index(nm)])
                            uw = [c for c in o.calls if strip_generics(cname(c)).endswith('Option::unwrap_or')]
                            ud = [c for c in o.calls if strip_generics(cname(c)).endswith('Option::unwrap_or_default')]
                            dflt[nm] = nm in o.fields and ((len(uw) == 1 and const_int(uw[0]['args'][1]) == dv) or (len(ud) == 1 and dv == 0) or
                                                           (dv in o.consts() and not o.calls))
    ctx.ob('REJECT', 'optional-attributes-default', not over and all(dflt.get(k) for k in optional), short_loc(rn.span),
           'optional attributes rejected when absent: %s; decimal scale = the attribute or 0: %s' % (over or 'none', dflt.get('scale')))
    # missing name for named types: the `name` closure errs on None
    okn = False
    for x in fam:
        for bb, t in x.calls():
            if any('Missing name' in txt for txt in const_texts(x, t)):
                # in the None arm of name_key
                okn = True
    ctx.ob('REJECT', 'missing-name', okn, short_loc(rn.span), 'a named type without a name is an error: %s' % okn)
    # every Ok of from_str passes check_for_cycles with its error propagated
    cc = [(bb, t) for bb, t in fs.calls() if strip_generics(cname(t)).endswith('check_for_cycles::check_for_cycles') or strip_generics(cname(t)).endswith('SchemaMut::check_for_cycles')]
    ok = len(cc) == 1
    if ok:
        te = try_edges(fs, cc[0][0])
        oks = ok_return_blocks(fs)
        ok = te is not None and bool(oks) and all(fs.dominates(te[0], o) for o in oks) and te[1] is not None and all_paths_err(fs, te[1])
        # and it checks the schema being returned
        so = origin(fs, cc[0][1]['args'][0])
    ctx.ob('REJECT', 'unconditional-cycles', ok, short_loc(fs.span), 'every Ok return of from_str is after check_for_cycles()? succeeded: %s' % ok)
    # root registered with no enclosing namespace
    rr = [(bb, t) for bb, t in fs.calls() if (t.get('resolved') or t.get('callee')) == rn.id]
    ok = len(rr) == 1
    if ok:
        o = origin(fs, rr[0][1]['args'][2])
        ok = {a[2] for a in o.atoms if a[0] == 'agg'} == {'None'} and not o.params()
    ctx.ob('REJECT', 'root-has-no-namespace', ok, short_loc(fs.span), 'the root is registered with enclosing namespace None: %s' % ok)


def preserve(ctx, rn, fam):
    # no reordering / dedup / sort calls on fields or symbols
    bad = []
    for x in fam:
        for bb, t in x.calls():
            c = cname(t)
            if any(k in c for k in ('::sort', '::reverse', '::rev', '::dedup', 'BTreeMap', 'HashSet', '::skip', '::step_by', '::take')):
                bad.append(strip_generics(c)[-50:])
    ctx.ob('PRESERVE', 'no-reordering', not bad, short_loc(rn.span), 'reordering / filtering calls in register_node: %s' % (bad or 'none'))
    # Fixed.size from the `size` attribute; Enum.symbols from `symbols`; Record fields from `fields`
    pairs = {('schema::Fixed', 'size'): 'size', ('schema::safe::Enum', 'symbols'): 'symbols', ('schema::safe::Record', 'fields'): 'fields',
             ('schema::safe::Array', 'items'): 'items', ('schema::safe::Map', 'values'): 'values'}
    found = {}
    for bb in sorted(rn.live_blocks()):
        for s in rn.stmts(bb):
            if 'assign' in s and s['rv']['k'] == 'agg' and s['rv'].get('agg') == 'adt':
                for (adt, fld), src in pairs.items():
                    if s['rv']['adt'] == adt and fld in s['rv']['fields']:
                        names = deep_fields(rn, s['rv']['ops'][s['rv']['fields'].index(fld)], 4)
                        found[(adt, fld)] = src in names
    for (adt, fld), src in pairs.items():
        ctx.ob('PRESERVE', '%s.%s' % (adt.rsplit('::', 1)[1], fld), found.get((adt, fld), False), short_loc(rn.span),
               '%s.%s is built from the raw `%s` attribute: %s' % (adt.rsplit('::', 1)[1], fld, src, found.get((adt, fld), False)))


def table_fields(b):
    """{field name} of the boolean per-node tables held by a state struct that is a parameter of b (`&mut self`)"""
    import re
    out = set()
    for i in range(1, b.nargs + 1):
        ty = re.sub(r"^(&('[a-z_]+ )?(mut )?)+", '', b.local_ty(i) or '')
        ty = re.sub(r'<.*$', '', ty)
        a = b.facts.adts.get(ty)
        if a and len(a.get('variants', [])) == 1:
            for fl in a['variants'][0]['fields']:
                if is_bool_table(fl.get('ty') or ''):
                    out.add(fl['name'])
    return out


def table_ids(b, o, tf=None):
    """identities of the boolean per-node tables an origin reaches: a parameter index (tables passed down as
    parameters) or 'field:<name>' (tables held by the search's state struct)"""
    tf = table_fields(b) if tf is None else tf
    ids = [a[1] for a in o.atoms if a[0] == 'param' and is_bool_table(b.local_ty(a[1]))]
    ids += ['field:' + x for x in sorted(o.fields & tf)]
    return ids


def bool_table_writes(b):
    """[(bb, table id, value)] for `table[idx] = true/false` statements (tables are &mut Vec<bool> parameters, or
    Vec<bool> fields of a state struct parameter)"""
    tf = table_fields(b)
    out = []
    for bb in sorted(b.live_blocks()):
        if b.is_cleanup(bb):
            continue
        for s in b.stmts(bb):
            if 'assign' in s and s['assign'].get('p') and s['rv']['k'] == 'use' and const_int(s['rv']['op']) in (0, 1):
                o = origin(b, s['assign'])
                ps = table_ids(b, o, tf)
                if len(ps) == 1 and 'index' in o.flags:
                    out.append((bb, ps[0], const_int(s['rv']['op'])))
    return out


def cyclecheck(ctx):
    """the zero-size-cycle check is a depth-first search with an on-stack table (set on entry, reset on exit) and a
    done table; a record field whose record is on the stack is an unconditional cycle"""
    f = ctx.f
    inner = fn_by_label(f, 'schema::safe::check_for_cycles::check_no_zero_sized_cycle_inner')
    outer = fn_by_label(f, 'schema::safe::check_for_cycles::check_for_cycles')
    if inner is None or outer is None:
        ctx.ob('CYCLECHECK', 'anchors', False, None, 'check_for_cycles functions not found')
        return
    ctx.touched(inner, len(inner.calls())); ctx.touched(outer, len(outer.calls()))
    pt = positional_truncations(inner) + positional_truncations(outer)
    ctx.ob('CYCLECHECK', 'visits-whole-collections', not pt, short_loc(inner.span), 'positional selections (take / skip / nth / first / sub-range) in the cycle search: %s' % (sorted({x[2] for x in pt}) or 'none'))
    st = [(i, status_table_enum(f, inner.local_ty(i))) for i in range(1, inner.nargs + 1)]
    st = [(i, a) for i, a in st if a is not None]
    if len(st) == 1 and not any(is_bool_table(inner.local_ty(i)) for i in range(1, inner.nargs + 1)):
        return cyclecheck_status(ctx, inner, outer, st[0][0], st[0][1])
    tables = [i for i in range(1, inner.nargs + 1) if is_bool_table(inner.local_ty(i))] + ['field:' + x for x in sorted(table_fields(inner))]
    ctx.ob('CYCLECHECK', 'two-tables', len(tables) == 2, short_loc(inner.span), 'boolean per-node tables passed down the search: %d (on-stack and done)' % len(tables))
    w = bool_table_writes(inner)
    rec = [(bb, t) for bb, t in inner.calls() if (t.get('resolved') or t.get('callee')) == inner.id]
    oks = ok_return_blocks(inner)
    # on-stack table: the one that is set to true before any recursion (the other one, marked at exit, is the done
    # table; a test of the done table before recursing - skip children already checked - is a sound shortcut)
    entry_sets = {x[1] for x in w if x[2] == 1 and rec and all(inner.dominates(x[0], bb) for bb, t in rec)}
    onstack = None
    for bb, t in rec:
        for d, si, taken in dominating_switches(inner, bb):
            if si.get('kind') != 'enum':
                so = origin(inner, si['op'])
                ps = table_ids(inner, so)
                if len(ps) == 1 and 'index' in so.flags and taken == ('val', (0,)) and ps[0] in entry_sets:
                    onstack = ps[0]
                    # the other edge (already on the stack) errs
                    others = [s_ for s_ in inner.succs(d) if not inner.dominates(s_, bb)]
                    ctx.ob('CYCLECHECK', 'on-stack-child-errs', all(all_paths_err(inner, s_) for s_ in others), short_loc(inner.span), 'a record field whose record is on the search stack returns Err')
                    ic = [c for c in so.calls if call_matches(c, ['Index::index', 'Index<I>>::index', 'IndexMut::index_mut', 'IndexMut<I>>::index_mut'])]
                    io = origin(inner, ic[0]['args'][1]) if ic else Origin()
                    if not ic:
                        # a slice table is indexed by a place projection `table[i]`: take the index local from it
                        pl_ = op_place(si['op'])
                        for d_ in inner.defs().get(pl_['l'], []) if pl_ else []:
                            if d_[2] == 'assign' and d_[3]['k'] == 'use' and op_place(d_[3]['op']):
                                for e_ in op_place(d_[3]['op']).get('p', []):
                                    if isinstance(e_, dict) and 'idx' in e_:
                                        io = origin(inner, {'copy': {'l': e_['idx']}})
                    ctx.ob('CYCLECHECK', 'tests-the-child', 'type_' in io.fields and 'idx' in io.fields, short_loc(inner.span), 'the on-stack test is indexed by the field\'s node key: %s' % sorted(io.fields))
    ctx.ob('CYCLECHECK', 'on-stack-table-found', onstack is not None, short_loc(inner.span), 'recursion guarded by a test of a per-node table: %s' % (onstack is not None))
    if onstack is None:
        return
    sets = [x for x in w if x[1] == onstack and x[2] == 1]
    resets = [x for x in w if x[1] == onstack and x[2] == 0]
    entry_ok = len(sets) == 1 and all(inner.dominates(sets[0][0], bb) for bb, t in rec)
    exit_ok = len(resets) == 1 and bool(oks) and all(inner.dominates(resets[0][0], o) for o in oks) and all(resets[0][0] not in inner.reachable_from(bb, avoid=[x for x in oks]) or True for bb, t in rec)
    ctx.ob('CYCLECHECK', 'stack-discipline', entry_ok and exit_ok, short_loc(inner.span),
           'node marked on-stack on entry (before any recursion): %s; unmarked before returning Ok: %s' % (entry_ok, exit_ok))
    done = [t_ for t_ in tables if t_ != onstack]
    dn = [x for x in w if done and x[1] == done[0] and x[2] == 1]
    ctx.ob('CYCLECHECK', 'done-marked-at-exit', len(dn) == 1 and bool(oks) and all(inner.dominates(dn[0][0], o) for o in oks), short_loc(inner.span), 'node marked done before returning Ok: %s' % (len(dn) == 1))
    # recursion only into records, with the same tables and the child's index
    okr = bool(rec)
    for bb, t in rec:
        ia = [a for a, ty in zip(t['args'], t.get('arg_tys', [])) if ty == 'usize'] or t['args'][1:2]
        io = origin(inner, ia[0])
        okr = okr and 'type_' in io.fields and 'idx' in io.fields and not io.has_arith()
        okr = okr and any('Record' in names for names, adt, oo, d_, oth in option_guards(inner, bb))
    # each record is searched once: a child that is already done (searched, no cycle through it) is not searched again.
    # Without that test the search walks every PATH instead of every node: a chain of records with two fields of the
    # next record type (a 6 kB schema text) takes 2^60 steps
    skips = bool(rec) and bool(done)
    for bb, t in rec:
        g = False
        for d, si, taken in dominating_switches(inner, bb):
            if si.get('kind') != 'enum':
                so = origin(inner, si['op'])
                ps = table_ids(inner, so)
                if len(ps) == 1 and ps[0] in done and 'index' in so.flags and taken == ('val', (0,)):
                    g = True
        skips = skips and g
    ctx.ob('CYCLECHECK', 'done-children-skipped', skips, short_loc(inner.span),
           'the recursion into a record field is guarded by a test of the done table (already searched => not searched again): %s' % skips)
    ctx.ob('CYCLECHECK', 'recurse-into-record-fields', okr, short_loc(inner.span), 'recursion follows record -> record field edges with the field\'s key: %s' % okr)
    # outer: every record node not yet done is searched; error propagated
    oc = [(bb, t) for bb, t in outer.calls() if (t.get('resolved') or t.get('callee')) == inner.id]
    ok = len(oc) == 1 and try_edges(outer, oc[0][0]) is not None
    if ok:
        oargs, otys = oc[0][1]['args'], oc[0][1].get('arg_tys', [])
        ia = [a for a, ty in zip(oargs, otys) if ty == 'usize'] or oargs[1:2]
        io = origin(outer, ia[0])
        ok = 'enumerate' in io.flags or any((c.get('callee') or '').endswith('Iterator::next') for c in io.calls)
        # the tables handed to the search (as parameters, or inside its state struct) are allocated here
        ta = [a for a, ty in zip(oargs, otys) if is_bool_table(ty)] or oargs[:1]
        fresh = bool(ta) and all(any('from_elem' in n_ or 'vec' in n_.lower() for n_ in deep_call_names(outer, a, 5)) for a in ta)
        ok = ok and fresh
    ctx.ob('CYCLECHECK', 'outer-visits-every-record', ok, short_loc(outer.span), 'check_for_cycles starts a search (with `?`) from the records enumerated over all nodes, with freshly allocated tables: %s' % ok)


def cyclecheck_status(ctx, inner, outer, tp, enum):
    """the same depth-first search with ONE per-node table of a three-state enum (new / on the stack / done) instead of two
    boolean tables.  The roles of the variants are read from the code: the recursion sits on the `new` edge of a match on
    table[child]; the edge that returns Err is `on the stack`; the remaining one (`done`) recurses nowhere.  Same
    obligations, same keys."""
    f = ctx.f
    names = [v['name'] for v in enum['variants']]
    ctx.ob('CYCLECHECK', 'two-tables', True, short_loc(inner.span), 'one per-node table of the three-state enum %s %s (on-stack and done merged)' % (enum['path'].rsplit('::', 1)[-1], names))
    rec = [(bb, t) for bb, t in inner.calls() if (t.get('resolved') or t.get('callee')) == inner.id and not inner.is_cleanup(bb)]
    oks = ok_return_blocks(inner)

    def is_table(o):
        return tp in o.params() and ('index' in o.flags or any(call_matches(c, ['Index::index', 'Index<I>>::index', 'IndexMut::index_mut', 'IndexMut<I>>::index_mut']) for c in o.calls))
    # writes `table[i] = Status::V`
    writes = []
    for bb in sorted(inner.live_blocks()):
        if inner.is_cleanup(bb):
            continue
        for s_ in inner.stmts(bb):
            vs_ = []
            if 'assign' in s_ and s_['assign'].get('p') and s_['rv']['k'] == 'agg' and s_['rv'].get('adt') == enum['path']:
                vs_ = [s_['rv'].get('variant')]
            elif 'assign' in s_ and s_['assign'].get('p') and s_['rv']['k'] == 'use':
                # (`_4 = Status::V; assert(bounds); (*table)[i] = move _4`)
                vs_ = sorted({a[2] for a in origin(inner, s_['rv']['op']).atoms if a[0] == 'agg' and a[1] == enum['path']})
            if len(vs_) == 1:
                s_ = dict(s_, rv=dict(s_['rv'], variant=vs_[0]))
                if is_table(origin(inner, s_['assign'])):
                    io_ = Origin()
                    for e_ in s_['assign'].get('p', []):
                        if isinstance(e_, dict) and 'idx' in e_:
                            io_ = origin(inner, {'copy': {'l': e_['idx']}})
                    writes.append((bb, s_['rv'].get('variant'), io_))
    new_v = stack_v = None
    child_ok = False
    errs_ok = False
    for bb, t in rec:
        for d, si, taken in dominating_switches(inner, bb):
            if si.get('kind') == 'enum' and si.get('adt') == enum['path'] and is_table(origin(inner, si['place'])) and taken[0] == 'variant' and len(taken[1]) == 1:
                new_v = taken[1][0]
                # which entry is tested: the child's
                io = Origin()
                pl_ = si['place']
                for e_ in pl_.get('p', []):
                    if isinstance(e_, dict) and 'idx' in e_:
                        io = origin(inner, {'copy': {'l': e_['idx']}})
                if not io.fields:
                    ic = [c for c in origin(inner, pl_).calls if call_matches(c, ['Index::index', 'Index<I>>::index', 'IndexMut::index_mut', 'IndexMut<I>>::index_mut'])]
                    io = origin(inner, ic[0]['args'][1]) if ic else io
                child_ok = 'type_' in io.fields and 'idx' in io.fields
                for v_, tb_ in si['variants'].items():
                    if v_ != new_v and all_paths_err(inner, tb_):
                        stack_v = v_
                        errs_ok = True
                others = [v_ for v_ in names if v_ not in (new_v, stack_v)]
                done_v = others[0] if len(others) == 1 else None
                # the done edge recurses nowhere
                tb_done = si['variants'].get(done_v, si.get('otherwise')) if done_v else None
                skip_ok = tb_done is not None and not any(rb in inner.reachable_from(tb_done, avoid=[si['bb']]) and inner.dominates(tb_done, rb) for rb, _ in rec)
    ctx.ob('CYCLECHECK', 'on-stack-table-found', new_v is not None and stack_v is not None, short_loc(inner.span),
           'recursion guarded by a match on the child\'s entry of the status table: recursion on %s, Err on %s' % (new_v, stack_v))
    if new_v is None or stack_v is None:
        return
    done_v = [v_ for v_ in names if v_ not in (new_v, stack_v)][0]
    ctx.ob('CYCLECHECK', 'on-stack-child-errs', errs_ok, short_loc(inner.span), 'a record field whose record is on the search stack (%s) returns Err' % stack_v)
    ctx.ob('CYCLECHECK', 'tests-the-child', child_ok, short_loc(inner.span), 'the status test is indexed by the field\'s node key: %s' % child_ok)
    sets = [w_ for w_ in writes if w_[1] == stack_v]
    entry_ok = len(sets) == 1 and bool(rec) and all(inner.dominates(sets[0][0], bb) for bb, t in rec) and sets[0][2].params() and not sets[0][2].fields
    dn = [w_ for w_ in writes if w_[1] == done_v]
    exit_ok = len(dn) == 1 and bool(oks) and all(inner.dominates(dn[0][0], o) for o in oks) and dn[0][2].atoms == (sets[0][2].atoms if sets else None)
    never_new = not [w_ for w_ in writes if w_[1] == new_v]
    ctx.ob('CYCLECHECK', 'stack-discipline', entry_ok and exit_ok and never_new, short_loc(inner.span),
           'own node marked %s on entry (before any recursion): %s; re-marked (%s) before returning Ok: %s; never reset to %s: %s' % (stack_v, entry_ok, done_v, exit_ok, new_v, never_new))
    ctx.ob('CYCLECHECK', 'done-marked-at-exit', exit_ok, short_loc(inner.span), 'node marked %s before returning Ok: %s' % (done_v, exit_ok))
    ctx.ob('CYCLECHECK', 'done-children-skipped', skip_ok, short_loc(inner.span),
           'a child that is already %s is not searched again: %s' % (done_v, skip_ok))
    okr = bool(rec)
    for bb, t in rec:
        ia = [a for a, ty in zip(t['args'], t.get('arg_tys', [])) if ty == 'usize'] or t['args'][1:2]
        io = origin(inner, ia[0])
        okr = okr and 'type_' in io.fields and 'idx' in io.fields and not io.has_arith()
        okr = okr and any('Record' in nm for nm, adt, oo, d_, oth in option_guards(inner, bb))
        # the table handed down is the one received
        ta = [a for a, ty in zip(t['args'], t.get('arg_tys', [])) if status_table_enum(f, ty) is not None]
        okr = okr and bool(ta) and origin(inner, ta[0]).params() == {tp}
    ctx.ob('CYCLECHECK', 'recurse-into-record-fields', okr, short_loc(inner.span), 'recursion follows record -> record field edges with the field\'s key and the same table: %s' % okr)
    oc = [(bb, t) for bb, t in outer.calls() if (t.get('resolved') or t.get('callee')) == inner.id]
    ok = len(oc) == 1 and try_edges(outer, oc[0][0]) is not None
    if ok:
        oargs, otys = oc[0][1]['args'], oc[0][1].get('arg_tys', [])
        ia = [a for a, ty in zip(oargs, otys) if ty == 'usize'] or oargs[1:2]
        io = origin(outer, ia[0])
        ok = 'enumerate' in io.flags or any((c.get('callee') or '').endswith('Iterator::next') for c in io.calls)
        ta = [a for a, ty in zip(oargs, otys) if status_table_enum(f, ty) is not None]
        fresh = bool(ta) and all(any('from_elem' in n_ or 'vec' in n_.lower() for n_ in deep_call_names(outer, a, 5)) for a in ta)
        # ... filled with the `new` state
        init_new = False
        for bb_, t_ in outer.calls():
            if 'from_elem' in cname(t_):
                init_new = any(a[0] == 'agg' and a[1] == enum['path'] and a[2] == new_v for a in origin(outer, t_['args'][0]).atoms)
        ok = ok and fresh and init_new
    ctx.ob('CYCLECHECK', 'outer-visits-every-record', ok, short_loc(outer.span), 'check_for_cycles starts a search (with `?`) from the records enumerated over all nodes, with a freshly allocated table filled with %s: %s' % (new_v, ok))


def state_rule(ctx, rn):
    f = ctx.f
    a = f.adts.get(PM + 'SchemaConstructionState')
    flds = sorted(x['name'] for x in a['variants'][0]['fields']) if a else None
    ctx.ob('STATE', 'construction-state-fields', flds == ['names', 'nodes', 'unresolved_names'], None,
           'fields of the parser state: %s (reviewed: names, nodes, unresolved_names; any further table keyed by reference text must resolve namespaces first)' % flds)
    # unresolved reference: pushed with index = unresolved_names.len() before the push
    ps = [(bb, t) for bb, t in rn.calls() if call_matches(t, ['Vec::<T, A>::push']) and 'unresolved_names' in origin(rn, t['args'][0]).fields]
    ok = len(ps) == 1
    if ok:
        none_arm = any('None' in names and 'names' in deep_fields(rn, {'copy': {'l': oo_l}}, 2) if False else ('None' in names) for names, adt, oo, d_, oth in option_guards(rn, ps[0][0]) for oo_l in [0])
        ko = origin(rn, ps[0][1]['args'][1])
        ok = none_arm
    # the key handed out for a not-yet-defined name carries the late-lookup marker: idx = unresolved_names.len() | BIT
    marked = False
    for bb in sorted(rn.live_blocks()):
        for s_ in rn.stmts(bb):
            if 'assign' in s_ and s_['rv']['k'] == 'agg' and s_['rv'].get('adt', '').endswith('schema::safe::SchemaKey'):
                io = origin(rn, s_['rv']['ops'][0])
                if 'unresolved_names' in io.fields and 'len' in io.flags:
                    lens = [b2 for b2, t2 in rn.calls() if call_matches(t2, ['Vec::<T, A>::len']) and any(c is t2 for c in io.calls)]
                    before = bool(lens) and bool(ps) and all(rn.dominates(l_, ps[0][0]) for l_ in lens)
                    marked = 'arith:BitOr' in io.flags and any(a[0] == 'const' for a in io.atoms) and before
    ctx.ob('STATE', 'late-key-marked', marked, short_loc(rn.span), 'the key of an unresolved reference is unresolved_names.len() (read before the push) | LATE_NAME_LOOKUP_REMAP_BIT: %s' % marked)
    ctx.ob('STATE', 'unresolved-pushed-once', ok, short_loc(rn.span), 'an unknown reference is pushed to unresolved_names exactly at one site, in the None arm of the name lookup: %s' % ok)
