"""C03 - decoder conformance (structural part).

  WIRE     every (hint x kind) cell of DatumDeserializer reads exactly the wire primitive the spec gives the kind
           (or forwards / delegates to the same node); the value handed to the visitor is the value read
  BOOL     boolean byte: arms 0, 1, other => Err
  UTF8     every &str handed to a visitor from input bytes passed str::from_utf8
  INDEX    union / enum indices go through `.get(i)` with None => Err, i being the decoded discriminant itself; no
           table is indexed directly by a decoded discriminant unless a `.get` on this path already answered Some; an
           enum presented as its raw index (u64 hint) is compared with symbols.len()           (found F18)
  LENGTHS  i64 -> usize conversions of lengths / discriminants are checked (try_into + error), no lossy `as`
  BOUNDS   slice reads are bounded (n > len => Err)
  BLOCKS   block-header protocol of arrays/maps (negative count => byte size read on both paths, no overflowing
           negation, zero count ends, countdown re-enters the header read at zero)
           the only skip in the block header is the one by the advertised byte size (no computed skip), and nothing
           else in the deserializer skips bytes
  BLOCKS   ... and only deserialize_ignored_any asks the block reader to skip size-prefixed blocks (the flag may be a bool or a
           two-variant enum); the count may be Option<NonZeroUsize> or a plain usize with 0 as the end marker
  NEWTYPE  serde's newtype struct is transparent on both sides (serializer forwards the inner value; deserializer answers
           deserialize_newtype_struct with visit_newtype_struct(self)), and so does every other deserializer that hands
           values to user types (map keys, the enum-hinting wrapper: F38)                 (found F17; shared C01, C20)
  SEQEND   every visit_seq over an array access lends the access and reads the array to its end marker afterwards
           (fixed-length visitors stop early)                                                  (found F19)
  SHORTREAD no plain io::Read::read judged by its count outside forwarding Read implementations (shared with C11)
  DURATION  the three duration fields name themselves by their spec word / spec position, and the key that goes with a
            4-byte chunk is decided by what is left of the 12 bytes (12 months, 8 days, 4 milliseconds)
  DECDECODE the unscaled integer is presented as an integer only at scale 0; the sign is the top bit of the first byte
            and an empty mantissa is not negative; a big-decimal with bytes after its scale is refused
It does NOT decide that the produced value is *the* value.
"""
import re
from ..lib import *
from ..dematrix import *
from ..core import short_loc, op_place, const_int

EXPLANATION = ("Decoder conformance, structural part: the deserializer's dispatch matrix (serde hint x schema kind) is rebuilt "
               "from MIR match-arm regions and each cell's input primitives are compared with the Avro binary-encoding "
               "table; malformed-input guards (boolean byte, UTF-8, indices, lengths, slice bounds) and the block-header "
               "protocol are established by provenance and dominance. Value correctness is not decided.")

V32 = [('VARINT', 'i32')]
V64 = [('VARINT', 'i64')]
SPEC = {
    'Null': [[]],
    'Boolean': [[('BOOL',)], [('FIXED', 1)]],
    'Int': [V32, [('VARINT', 'u32')]], 'Date': [V32, [('VARINT', 'u32')]], 'TimeMillis': [V32, [('VARINT', 'u32')]],
    'Long': [V64, [('VARINT', 'u64')]], 'TimeMicros': [V64, [('VARINT', 'u64')]],
    'TimestampMillis': [V64, [('VARINT', 'u64')]], 'TimestampMicros': [V64, [('VARINT', 'u64')]],
    'Float': [[('FIXED', 4)]], 'Double': [[('FIXED', 8)]],
    'Bytes': [[('LENDELIM',)]], 'String': [[('LENDELIM',)]], 'Uuid': [[('LENDELIM',)]],
    'Array': [[('BLOCKS',)]], 'Map': [[('BLOCKS',)]],
    'Union': [[('DISC',)], [('DISCRAW',)]],
    'Record': [[('RECORD',)]],
    'Enum': [[('ENUMSTR',)], V64, [('VARINT', 'u64')]],
    'Fixed': [[('SIZED',)]],
    'Decimal': [[('DECIMAL',)]], 'BigDecimal': [[('DECIMAL',)]],
    'Duration': [[('FIXED', 12)]],
}
# on the ignoring path a decimal may be taken as the bytes it is made of, without conversion: a decimal over bytes and a
# big-decimal are length-delimited, a decimal over a fixed is the fixed's size
IGNORED_RAW = {'Decimal': [[('LENDELIM',)], [('SIZED',)], [('LENDELIM',), ('SIZED',)]], 'BigDecimal': [[('LENDELIM',)]]}   # (which read goes with which representation: C12)
# which visitor method may receive the value of a kind when the cell reads it itself
VISITS = {
    'Null': {'unit', 'none'},
    'Int': {'i32', 'u64', 'unit'}, 'Date': {'i32', 'unit'}, 'TimeMillis': {'i32', 'unit'},
    'Long': {'i64', 'u64', 'unit'}, 'TimeMicros': {'i64', 'unit'}, 'TimestampMillis': {'i64', 'unit'},
    'TimestampMicros': {'i64', 'unit'},
    'Float': {'f32'}, 'Double': {'f64'},
    'Array': {'seq'}, 'Map': {'map'}, 'Record': {'map'}, 'Duration': {'map', 'seq', 'unit'},
    'Enum': {'u64', 'unit', 'enum'}, 'Union': {'none', 'some', 'enum'},
    'Bytes': {'enum'}, 'String': {'enum'}, 'Fixed': {'enum'}, 'Boolean': {'enum'}, 'Uuid': {'enum'},
    'Decimal': {'enum'}, 'BigDecimal': {'enum'},
}
for _k in VISITS:
    VISITS[_k] = VISITS[_k] | {'enum', 'some'}


def norm_wire(tok):
    k = tok[0]
    if k == 'VARINT':
        return ('VARINT', tok[1])
    if k == 'FIXED':
        return ('FIXED', tok[1])
    if k == 'SIZED':
        return ('SIZED',)
    if k == 'LENDELIM':
        return ('LENDELIM',)
    if k == 'BLOCKS':
        return ('BLOCKS',)
    return tok


def self_node_filter(body):
    def flt(place):
        o = origin(body, place)
        return o.fields == {'schema_node'} and o.params() == {1} and not o.call_names() and o.flags <= {'deref'}
    return flt


def de_matrix(f):
    res = {}
    for name, b in datum_deserializer_bodies(f).items():
        regs = enum_regions(b, SCHEMA_NODE, place_filter=self_node_filter(b))
        if not regs:
            # an entry point that only hands over to a private helper which does the match: the helper's arms are its cells
            dh = dispatching_helpers(b, b.live_blocks(), f)
            if len(dh) == 1:
                ht, hb = dh[0]
                outer = region_tokens_de(b, b.live_blocks(), f, skip_calls=[ht])
                hregs = enum_regions(hb, SCHEMA_NODE, place_filter=self_node_filter(hb))
                if hregs and not [x for x in outer if x[0][0] in WIRE_KINDS]:
                    res[name] = (hb, [(hr.variants, hr, outer + region_tokens_de(hb, hr.blocks, f, 1)) for hr in hregs])
            continue
        cells = []
        for r in regs:
            dh = dispatching_helpers(b, r.blocks, f)
            if len(dh) == 1:
                # the arm hands over to a private helper with its own match on the node: one cell per arm of the helper
                ht, hb = dh[0]
                outer = region_tokens_de(b, r.blocks, f, skip_calls=[ht])
                covered = set()
                for hr in enum_regions(hb, SCHEMA_NODE, place_filter=self_node_filter(hb)):
                    vs = frozenset(r.variants) & frozenset(hr.variants)
                    if vs:
                        covered |= vs
                        cells.append((vs, r, outer + region_tokens_de(hb, hr.blocks, f, 1)))
                rest = frozenset(r.variants) - covered
                if rest:
                    cells.append((rest, r, outer))
            else:
                cells.append((r.variants, r, region_tokens_de(b, r.blocks, f)))
        res[name] = (b, cells)
    return res


def run(ctx):
    f = ctx.f
    m = de_matrix(f)
    ctx.floor('WIRE', 'deserializer functions matching on the schema node', len(m), 14)
    ncells = nwire = 0
    for name, (b, cells) in sorted(m.items()):
        ctx.touched(b)
        seen = set()
        ignored = name == 'deserialize_ignored_any'
        for variants, r, toks in cells:
            ctx.analysed['call_sites'] += len(toks)
            wire = [norm_wire(x[0]) for x in toks if x[0][0] in WIRE_KINDS]
            acc = [x[0][1] for x in toks if x[0][0] == 'ACCESS']
            fwd = [x[0][1] for x in toks if x[0][0] == 'FWD']
            visits = [x for x in toks if x[0][0] == 'VISIT']
            if 'RecordMapAccess' in acc:
                wire = wire + [('RECORD',)]
            for kind in sorted(variants):
                seen.add(kind)
                ncells += 1
                loc_ = short_loc(b.term(r.switch_bb).get('span') or b.span)
                arm = ','.join(sorted(variants)) if len(variants) < 8 else '%d kinds' % len(variants)
                if not wire and fwd and not visits:
                    ok = len(fwd) == 1 and not acc
                    ctx.ob('WIRE', '%s/%s' % (name, kind), ok, loc_, 'arm {%s} of %s forwards to %s' % (arm, name, fwd), nontrivial=False)
                    continue
                if not wire and kind != 'Null' and (set(acc) <= {'UnitVariantEnumAccess', 'SchemaTypeNameEnumAccess'} and acc or
                                                    ({v[0][1] for v in visits} == {'some'} and not acc)):
                    # delegation to the same node (the access re-dispatches on it): checked by the same-node rule
                    ok = same_node_delegation(b, r, toks)
                    ctx.ob('WIRE', '%s/%s' % (name, kind), ok, loc_,
                           'arm {%s} of %s delegates to %s on the same schema node: %s' % (arm, name, acc or 'visit_some(self)', ok))
                    continue
                nwire += 1
                alts = SPEC[kind]
                if ignored and kind in IGNORED_RAW:
                    alts = alts + IGNORED_RAW[kind]
                if kind in ('Int', 'Date', 'TimeMillis', 'Long', 'TimeMicros', 'TimestampMillis', 'TimestampMicros', 'Enum') and not ignored:
                    alts = [a for a in alts if not (a and a[0][0] == 'VARINT' and a[0][1].startswith('u'))]
                ok = sorted(wire, key=str) in [sorted(a, key=str) for a in alts]
                ctx.ob('WIRE', '%s/%s' % (name, kind), ok, loc_,
                       'arm {%s} of %s reads %s; spec shape for %s is one of %s' % (arm, name, sorted(wire, key=str), kind, alts))
                # value shape
                allowed_v = set(VISITS.get(kind, set()))
                # hint-specific: raw indices are only presented where the hint asks for a number
                if kind == 'Enum' and name != 'deserialize_u64':
                    allowed_v.discard('u64')
                if kind in ('Int', 'Long') and name != 'deserialize_identifier':
                    allowed_v.discard('u64')
                if not ignored:
                    allowed_v.discard('unit') if kind != 'Null' else None
                badv = [v[0][1] for v in visits if v[0][1] not in allowed_v]
                if visits:
                    ctx.ob('WIRE', '%s/%s/visit' % (name, kind), not badv, loc_,
                           'visitor methods %s for %s under %s (allowed %s)' % (sorted({v[0][1] for v in visits}), kind, name, sorted(allowed_v)))
                # PROV: scalar handed to the visitor is exactly what was read
                for tok, tb, tbb, t in visits:
                    if tok[1] in ('i32', 'i64', 'u64', 'f32', 'f64') and tb is b:
                        o = origin(b, t['args'][1])
                        reads = {a[1] for a in o.atoms if a[0] == 'call'}
                        okp = reads and all(('read_varint' in x or 'read_const_size_buf' in x) for x in reads) and not o.has_arith() \
                            and not [fl for fl in o.flags if fl.startswith('cast:')] and not o.params() and 'try' in o.flags
                        if tok[1] in ('f32', 'f64'):
                            okp = okp and 'from_le' in o.flags and 'from_be' not in o.flags
                        if tok[1] == 'u64':
                            okp = okp and 'try_into' in o.flags
                        ctx.ob('WIRE', '%s/%s/value-is-what-was-read' % (name, kind), okp, short_loc(t.get('span')),
                               'visit_%s receives %s' % (tok[1], o.describe()))
        if name == 'deserialize_any':
            ctx.ob('WIRE', 'deserialize_any/covers-all-kinds', seen >= set(KINDS), short_loc(b.span), '%d of 23 kinds' % len(seen), nontrivial=False)
    ctx.floor('WIRE', 'cells', ncells, 23 * 13)
    ctx.floor('WIRE', 'cells that read input themselves', nwire, 50)
    # entry points that do not match must forward
    dd = datum_deserializer_bodies(f)
    for ep in DE_ENTRY:
        b = dd.get(ep)
        if b is None:
            ctx.ob('WIRE', 'entry/%s' % ep, False, None, 'serde entry point %s of DatumDeserializer not found' % ep)
            continue
        if ep in m:
            continue
        toks = region_tokens_de(b, b.live_blocks(), f)
        kinds = [t[0] for t in toks]
        # (a newtype struct is transparent: visit_newtype_struct(self) hands the same deserializer on - see NEWTYPE)
        ok = len(kinds) == 1 and (kinds[0][0] == 'FWD' or (ep == 'deserialize_newtype_struct' and kinds[0] == ('VISIT', 'newtype_struct')))
        ctx.ob('WIRE', 'entry/%s' % ep, ok, short_loc(b.span), '%s does not match on the node; tokens %s' % (ep, kinds), nontrivial=False)

    helpers_rule(ctx)
    bool_rule(ctx)
    utf8_rule(ctx)
    index_rule(ctx)
    newtype_rule(ctx)
    seqend_rule(ctx)
    lengths_rule(ctx)
    bounds_rule(ctx)
    blocks_rule(ctx)
    # premature end of input on the reader path: exact reads with propagated errors (shared with C11)
    from .c11 import slice_rule, varint_rule, fixedbuf_rule, shortread_rule
    shortread_rule(ctx)
    from .c02 import freezemap_rule
    freezemap_rule(ctx)
    from .c07 import resolution_rules
    resolution_rules(ctx)
    slice_rule(ctx)
    varint_rule(ctx)
    fixedbuf_rule(ctx)
    duration_rule(ctx)
    decimal_decode_rule(ctx)


def decimal_decode_rule(ctx):
    """What the decimal reader hands to the visitor is the number on the wire: the unscaled integer is presented *as an
    integer* only when the scale is zero; an empty mantissa is zero, not minus one (the sign test of a missing first byte
    defaults to "not negative"); a big-decimal whose bytes go on after the scale is refused (any byte left, not two)."""
    f = ctx.f
    b = fn_by_label(f, 'de::deserializer::types::decimal::read_decimal')
    if b is None:
        ctx.ob('DECDECODE', 'anchor', False, None, 'read_decimal not found')
        return
    ctx.touched(b, len(b.calls()))
    ints = [(bb, t) for bb, t in b.calls() if (t.get('callee') or '') in ('serde_core::de::Visitor::visit_u64', 'serde_core::de::Visitor::visit_i64',
                                                                          'serde_core::de::Visitor::visit_u128', 'serde_core::de::Visitor::visit_i128') and not b.is_cleanup(bb)]
    bad = []
    for bb, t in ints:
        good = False
        for g in cmp_guards(b, bb):
            if g['op'] == 'Eq' and g['r'].consts() == {0} and not g['r'].params() and not g['r'].fields and \
                    ('scale' in g['l'].fields or any('read_varint' in cname(c) for c in g['l'].calls)) and not g['l'].has_arith():
                good = True
        if not good:
            bad.append(short_loc(t.get('span')))
    ctx.ob('DECDECODE', 'integers-only-at-scale-zero', bool(ints) and not bad, short_loc(b.span),
           '%d integer presentation(s) of the unscaled value, each under `scale == 0`; not so at: %s' % (len(ints), bad or 'none'))
    ctx.floor('DECDECODE', 'integer presentations of a decimal', len(ints), 4)
    # sign test of the first byte
    mo = [(bb, t) for bb, t in b.calls() if strip_generics(cname(t)).endswith('Option::map_or') and 'get' in origin(b, t['args'][0]).flags]
    ok = len(mo) == 1 and const_int(mo[0][1]['args'][1]) == 0
    ctx.ob('DECDECODE', 'empty-mantissa-is-not-negative', ok, short_loc(mo[0][1].get('span')) if mo else short_loc(b.span),
           'the sign test of the first mantissa byte defaults to false when there is no byte: %s' % ok)
    # ... and the test itself is the top bit of that byte: (v & 0x80) != 0 - not a magnitude comparison, which misses
    # the byte 0x80 itself
    top = False
    if mo:
        for a_ in origin(b, mo[0][1]['args'][2]).atoms if len(mo[0][1]['args']) > 2 else ():
            cb_ = f.bodies.get(a_[1]) if a_[0] == 'closure' else None
            if cb_ is None:
                continue
            bins = [s_['rv'] for bb_ in cb_.live_blocks() for s_ in cb_.stmts(bb_) if 'assign' in s_ and s_['rv']['k'] in ('bin', 'checked_bin')]
            ands = [r_ for r_ in bins if r_['op'] == 'BitAnd' and 128 in (const_int(r_['l']), const_int(r_['r']))]
            cmps = [r_ for r_ in bins if r_['op'] in ('Eq', 'Ne', 'Lt', 'Le', 'Gt', 'Ge')]
            top = len(ands) == 1 and len(cmps) == 1 and cmps[0]['op'] == 'Ne' and 0 in (const_int(cmps[0]['l']), const_int(cmps[0]['r'])) and len(bins) == 2
            # (the same test on a u8 spelled as a magnitude: v >= 0x80, v > 0x7F)
            if not top and not ands and len(cmps) == 1 and len(bins) == 1:
                top = (cmps[0]['op'] == 'Ge' and const_int(cmps[0]['r']) == 128) or (cmps[0]['op'] == 'Gt' and const_int(cmps[0]['r']) == 127) or \
                    (cmps[0]['op'] == 'Le' and const_int(cmps[0]['l']) == 128) or (cmps[0]['op'] == 'Lt' and const_int(cmps[0]['l']) == 127)
    ctx.ob('DECDECODE', 'sign-is-the-top-bit-of-the-first-byte', top, short_loc(mo[0][1].get('span')) if mo else short_loc(b.span),
           'the sign test is (first byte & 0x80) != 0: %s' % top)
    # leftover bytes of a big-decimal
    lim = [(bb, t) for bb, t in b.calls() if strip_generics(cname(t)).endswith('Take::limit') and not b.is_cleanup(bb)]
    ok = False
    for sb in sorted(b.live_blocks()):
        if b.term(sb)['k'] != 'switch' or b.is_cleanup(sb):
            continue
        si = b.switch_info(sb)
        if si.get('kind') == 'enum':
            continue
        cond = switch_condition(b, si)
        neg = False
        while cond[0] == 'not':
            neg, cond = not neg, cond[1]
        if cond[0] != 'cmp':
            continue
        lo, ro = origin(b, cond[2]), origin(b, cond[3])
        if not any(c is t for c in lo.calls for _, t in lim) or ro.consts() != {0} or ro.params():
            continue
        edges = {True: b.term(sb)['otherwise'], False: [x['bb'] for x in b.term(sb)['targets'] if x['v'] == 0][0]}
        from .c19 import _CMP
        if cond[1] not in _CMP:
            continue
        truth = lambda v: _CMP[cond[1]](v, 0) != neg
        # 0 left: goes on; 1 or more left: Err
        ok = (not all_paths_err(b, edges[truth(0)])) and all_paths_err(b, edges[truth(1)]) and all_paths_err(b, edges[truth(2)])
    ctx.ob('DECDECODE', 'big-decimal/no-bytes-after-the-scale', ok and len(lim) == 1, short_loc(b.span),
           'what is left of the length-delimited big-decimal after its scale is compared with 0: nothing left goes on, one byte or more is an error: %s' % ok)


def duration_rule(ctx):
    """A duration is three little-endian u32 in the order months, days, milliseconds (spec).  As a map / struct, the
    key that goes with each 4-byte chunk is decided by what is left of the 12 bytes (12 -> months, 8 -> days, 4 ->
    milliseconds), and each key presents itself as that word - or, to a visitor that asks for an index, as its position
    in the spec's order."""
    f = ctx.f
    D = 'de::deserializer::types::duration::'
    want_str = {'Months': 'months', 'Days': 'days', 'Milliseconds': 'milliseconds'}
    want_idx = {'Months': 0, 'Days': 1, 'Milliseconds': 2}
    n = 0
    for b in f.body_list:
        if b.j['kind'] == 'closure' or not fn_label(b).startswith('<' + D + 'DurationFieldNameDeserializer as '):
            continue
        if b.name not in ('deserialize_any', 'deserialize_u64', 'deserialize_identifier', 'deserialize_str'):
            continue
        ctx.touched(b)
        got = {}
        for r in enum_regions(b, b.local_ty(1)):
            if len(r.variants) != 1:
                continue
            v = list(r.variants)[0]
            for bb in sorted(r.blocks):
                t = b.term(bb)
                if t['k'] == 'call' and (t.get('callee') or '').startswith('serde_core::de::Visitor::visit_') and len(t['args']) > 1 and not b.is_cleanup(bb):
                    o = origin(b, t['args'][1])
                    got.setdefault(v, []).append((t['callee'].rsplit('::', 1)[1], sorted(o.consts(), key=str), bool(o.params())))
        if not got:
            continue      # forwards to another presentation (forward_to_deserialize_any)
        ok = set(got) == set(want_str)
        for v, calls in got.items():
            for meth, cs, par in calls:
                if par or len(cs) != 1:
                    ok = False
                elif meth in ('visit_str', 'visit_borrowed_str', 'visit_string'):
                    ok = ok and cs[0] == want_str.get(v)
                elif meth in ('visit_u64', 'visit_u32', 'visit_u8', 'visit_u16'):
                    ok = ok and cs[0] == want_idx.get(v)
                else:
                    ok = False
        n += 1
        ctx.ob('DURATION', 'field-identifier/%s' % b.name, ok, short_loc(b.span),
               'each duration field names itself by its spec word or spec position: %s' % {v: [(m, c) for m, c, _ in cs_] for v, cs_ in sorted(got.items())})
    ctx.floor('DURATION', 'identifier presentations of the duration fields', n, 2)
    # which key goes with which chunk: the switch on the remaining length
    for b in f.body_list:
        if b.j['kind'] == 'closure' or b.name != 'next_key_seed' or not fn_label(b).startswith('<' + D + 'DurationMapAndSeqAccess as '):
            continue
        ctx.touched(b)
        m = {}
        for bb in sorted(b.live_blocks()):
            if b.term(bb)['k'] != 'switch' or b.is_cleanup(bb):
                continue
            si = b.switch_info(bb)
            so = origin(b, si['op'])
            if 'len' not in so.flags or 'duration_buf' not in so.fields:
                continue
            for val, tgt in si['targets'].items():
                # the key built on that edge
                for x in sorted(b.reachable_from(tgt)):
                    ag = [s_['rv'] for s_ in b.stmts(x) if 'assign' in s_ and s_['rv']['k'] == 'agg' and (s_['rv'].get('adt') or '').endswith('DurationFieldNameDeserializer')]
                    if ag:
                        m[val] = ag[0].get('variant')
                        break
        ok = (m.get(12), m.get(8), m.get(4)) == ('Months', 'Days', 'Milliseconds')
        ctx.ob('DURATION', 'key-by-remaining-length', ok, short_loc(b.span), 'remaining length -> key: %s (spec order: 12 months, 8 days, 4 milliseconds)' % {k: v for k, v in sorted(m.items()) if v})


def same_node_delegation(b, r, toks):
    ok = True
    n = 0
    for tok, tb, tbb, s in toks:
        if tok[0] == 'ACCESS' and tb is b:
            rv = s['rv']
            for fld in ('schema_node', 'variant_schema'):
                if fld in rv['fields']:
                    n += 1
                    o = origin(b, rv['ops'][rv['fields'].index(fld)])
                    if not ('schema_node' in o.fields and o.params() == {1} and not o.call_names()):
                        ok = False
    for tok, tb, tbb, t in toks:
        if tok == ('VISIT', 'some') and tb is b:
            n += 1
            o = origin(b, t['args'][1])
            if not (o.params() == {1} and not o.call_names() and not o.fields):
                ok = False
    return ok and n > 0


def fn_by_label(f, label):
    for b in f.body_list:
        if fn_label(b) == label:
            return b
    # the function may have been moved to a sibling module: same crate area (first path segment), same short name
    want = short_fn(label)
    top = label.lstrip('<').split('::', 1)[0]
    cands = [b for b in f.body_list if b.j['kind'] != 'closure' and short_fn(fn_label(b)) == want and fn_label(b).lstrip('<').split('::', 1)[0] == top]
    if len(cands) == 1:
        return cands[0]
    return None


def helpers_rule(ctx):
    """wire shape of the helper readers used by the cells"""
    f = ctx.f
    T = 'de::deserializer::types::'
    exp = {
        T + 'length_delimited::read_length_delimited': [('LEN',), ('SLICE',)],
        T + 'length_delimited::read_len': [('VARINT', 'i64')],
        T + 'discriminant::read_discriminant': [('VARINT', 'i64')],
        T + 'union::read_union_discriminant': [('DISCRAW',)],
        T + 'enums::read_enum_as_str': [('DISCRAW',)],
        T + 'boolean::read_bool': [('FIXED', 1)],
    }
    for label, want in exp.items():
        b = fn_by_label(f, label)
        if b is None:
            ctx.ob('HELPER', label.rsplit('::', 1)[1], False, None, 'anchor %s not found' % label)
            continue
        ctx.touched(b)
        toks = [x[0] for x in region_tokens_de(b, b.live_blocks(), f) if x[0][0] in WIRE_KINDS]
        got = []
        for t in toks:
            if t[0] == 'SLICE':
                got.append(('SLICE',))
            elif t[0] == 'FIXED':
                got.append(('FIXED', t[1]))
            else:
                got.append(t)
        ctx.ob('HELPER', label.rsplit('::', 1)[1], sorted(got, key=str) == sorted(want, key=str), short_loc(b.span),
               '%s reads %s (expected %s)' % (label.rsplit('::', 1)[1], got, want))
    # read_length_delimited: the slice length is the length just read
    b = fn_by_label(f, T + 'length_delimited::read_length_delimited')
    if b:
        for bb, t in b.calls():
            if classify_de(b, bb, t) and classify_de(b, bb, t)[0] == 'SLICE':
                o = origin(b, t['args'][1])
                ok = o.only_from_calls(['length_delimited::read_len']) and not o.has_arith() and 'try' in o.flags
                ctx.ob('HELPER', 'read_length_delimited/len-prov', ok, short_loc(t.get('span')), 'slice length derives from %s' % o.describe())


def bool_rule(ctx):
    f = ctx.f
    n = 0
    for b in f.body_list:
        if not (b.id.startswith('de::') or b.id.startswith('<de::')):
            continue
        for bb, t in b.calls():
            if (t.get('callee') or '').endswith('serde_core::de::Visitor::visit_bool'):
                n += 1
                ctx.touched(b, 1)
                o = origin(b, t['args'][1])
                # the bool comes from read_slice(1, closure): analyse the closure
                cl = [c for c in o.calls if classify_de(b, 0, c) and classify_de(b, 0, c)[0] == 'FIXED']
                ok = False
                detail = 'value given to visit_bool derives from %s' % o.describe()
                for c in cl:
                    co = origin(b, c['args'][2])
                    for a in co.atoms:
                        if a[0] == 'closure':
                            cb = f.bodies.get(a[1])
                            if cb is None:
                                continue
                            ctx.touched(cb)
                            for sbb in cb.live_blocks():
                                if cb.term(sbb)['k'] != 'switch':
                                    continue
                                si = cb.switch_info(sbb)
                                if si.get('kind') == 'enum':
                                    continue
                                tg = si['targets']
                                if set(tg.keys()) == {0, 1} and si.get('ty') == 'u8':
                                    def okv(blk, want):
                                        reach = cb.reachable_from(blk, avoid=[si['otherwise']] if si['otherwise'] != blk else [])
                                        vals = set()
                                        for x in ok_return_blocks(cb, reach):
                                            for s in cb.stmts(x):
                                                if 'assign' in s and s['assign']['l'] == 0 and s['rv']['k'] == 'agg':
                                                    vals.add(const_int(s['rv']['ops'][0]))
                                        return vals == {want}
                                    z = okv(tg[0], 0)
                                    o1 = okv(tg[1], 1)
                                    e = all_paths_err(cb, si['otherwise'])
                                    # the scrutinee is the first byte of the slice handed to the closure
                                    so = origin(cb, si['op'])
                                    first = so.params() == {2} and 'index' in so.flags and not so.has_arith()
                                    ok = z and o1 and e and first
                                    detail = 'closure %s: byte 0 => false: %s, 1 => true: %s, other => Err: %s, scrutinee is the byte read: %s' % (
                                        fn_label(cb), z, o1, e, first)
                ctx.ob('BOOL', fn_label(b), ok, short_loc(t.get('span')), detail)
    ctx.floor('BOOL', 'visit_bool sites in de::', n, 1)


def utf8_rule(ctx):
    f = ctx.f
    n = 0
    nbytes = 0
    for b in f.body_list:
        if not (b.id.startswith('de::') or b.id.startswith('<de::')):
            continue
        for bb, t in b.calls():
            cal = t.get('callee') or ''
            if cal in ('serde_core::de::Visitor::visit_str', 'serde_core::de::Visitor::visit_borrowed_str', 'serde_core::de::Visitor::visit_string'):
                n += 1
                ctx.touched(b, 1)
                o = origin(b, t['args'][1])
                bad = []
                for a in o.atoms:
                    if a[0] == 'param':
                        ty = b.local_ty(a[1])
                        if '[u8' in ty or 'Vec<u8>' in ty:
                            bad.append('param _%d: %s' % (a[1], ty))
                    if a[0] == 'call' and ('from_utf8_unchecked' in a[1] or 'transmute' in a[1]):
                        bad.append(a[1])
                if [fl for fl in o.flags if 'Transmute' in fl or 'PtrToPtr' in fl]:
                    bad.append('pointer cast')
                validated = any(call_matches(c, ['length_delimited::parse_str', 'str::converts::from_utf8']) for c in o.calls) or \
                    any(('parse_str' in a[1] or a[1].endswith('str::converts::from_utf8')) for a in o.atoms if a[0] == 'call')
                if validated:
                    nbytes += 1
                    bad = [x for x in bad if not x.startswith('param')] if 'try' in o.flags else bad
                ordn = sum(1 for bb2, t2 in b.calls() if bb2 < bb and (t2.get('callee') or '') == cal)
                ctx.ob('UTF8', '%s/%s#%d' % (fn_label(b), cal.rsplit('::', 1)[1], ordn), not bad, short_loc(t.get('span')),
                       '&str given to the visitor derives from %s%s' % (o.describe(), '; unvalidated bytes: %s' % bad if bad else ''))
    ctx.floor('UTF8', 'visit_str/visit_borrowed_str sites in de::', n, 8)
    ctx.floor('UTF8', 'sites fed from input bytes through from_utf8', nbytes, 2)
    # parse_str itself: from_utf8 + map_err, returned
    b = fn_by_label(f, 'de::deserializer::types::length_delimited::parse_str')
    if b is None:
        ctx.ob('UTF8', 'parse_str', False, None, 'anchor parse_str not found')
    else:
        o = Origin()
        for d in b.defs().get(0, []):
            if d[2] == 'call':
                oo = origin(b, d[3]['args'][0])
                o.atoms |= oo.atoms
                o.calls += oo.calls + [d[3]]
        ok = any(call_matches(c, ['str::converts::from_utf8']) for c in o.calls) and not any('unchecked' in cname(c) for c in o.calls) \
            and not any('unchecked' in cname(t_) or 'transmute' in cname(t_) for bb_, t_ in b.calls())
        ctx.ob('UTF8', 'parse_str', ok, short_loc(b.span), 'parse_str returns from_utf8(..).map_err(..): %s' % ok)


def seqend_rule(ctx):
    """An Avro array ends with a zero-count block.  A visitor of a fixed-length type (tuple, [T; N], tuple struct) stops
    asking for elements once it has enough, so whoever hands the array to `visit_seq` has to read the array to its end
    afterwards (consume the end marker, refuse extra elements) - otherwise the rest of the array is decoded as whatever
    follows it and a valid encoding yields a different value.  Every `visit_seq` over the array access: the access is
    lent (`&mut`), and on the Ok edge every return passes through a call that reads the next block header."""
    f = ctx.f
    n = 0

    def reaches_block_header(cb, depth=0):
        for bb, t in cb.calls():
            c = strip_generics(cname(t))
            if short_fn(c) == 'read_block_len':
                return True
            nb = f.bodies.get(cname(t))
            if nb is not None and depth < 2 and (nb.id.startswith('de::') or nb.id.startswith('<de::')) and nb is not cb and reaches_block_header(nb, depth + 1):
                return True
        return False
    for b in f.body_list:
        if not (b.id.startswith('de::') or b.id.startswith('<de::')):
            continue
        for bb, t in b.calls():
            if b.is_cleanup(bb) or (t.get('callee') or '') != 'serde_core::de::Visitor::visit_seq':
                continue
            aty = (t.get('arg_tys') or ['', ''])[1] if len(t.get('arg_tys') or []) > 1 else ''
            if 'ArraySeqAccess' not in aty:
                continue
            n += 1
            ctx.touched(b, 1)
            lent = aty.startswith('&mut ')
            ended = False
            te = try_edges(b, bb)
            if lent and te is not None and te[0] is not None:
                enders = [x for x, t2 in b.calls() if not b.is_cleanup(x) and f.bodies.get(cname(t2)) is not None and reaches_block_header(f.bodies[cname(t2)]) and
                          any('BlockReader' in ty for ty in t2.get('arg_tys', [])[:1])]
                reach = b.reachable_from(te[0])
                # (in a body with spliced helpers the Ok value is built for the helper's own return place: fall back to
                # "every way out")
                oks = ok_return_blocks(b, reach) or [x for x in b.exits() if x in reach and not b.is_cleanup(x)]
                ended = bool(enders) and bool(oks) and must_pass(b, te[0], oks, enders)
            ctx.ob('SEQEND', fn_label(b), lent and ended, short_loc(t.get('span')),
                   'array access lent to the visitor (not moved into it): %s; the array is read to its end marker after the visitor returns, on every Ok path: %s' % (lent, ended))
    ctx.floor('SEQEND', 'visit_seq over array accesses', n, 1)


def newtype_rule(ctx):
    """serde's newtype struct is a transparent wrapper on both sides of this codec or on neither: the serializer writes
    `struct Meters(i32)` as its inner value (serialize_newtype_struct forwards the value to the same serializer), and a
    derived `Deserialize` for a newtype only accepts `visit_newtype_struct` (or a sequence) - so the deserializer has to
    answer `deserialize_newtype_struct` with `visitor.visit_newtype_struct(self)`.  Answering it like `deserialize_any`
    hands the visitor an integer / string / map it rejects: valid bytes, written by this very crate, yield Err."""
    f = ctx.f
    from ..sermatrix import matrix as ser_matrix
    ser_transparent = None
    for b in f.body_list:
        if b.name == 'serialize_newtype_struct' and b.j['kind'] != 'closure' and 'DatumSerializer' in (b.j.get('self_ty') or ''):
            fam = [b] + f.closures_of(b)
            fw = [(x, t) for x in fam for bb, t in x.calls() if (t.get('callee') or '').endswith('serde_core::ser::Serialize::serialize') and not x.is_cleanup(bb)]
            # the inner value goes to a DatumSerializer (directly, or after the by-name union lookup picked the branch)
            ser_transparent = len(fw) == 1 and 'DatumSerializer' in ' '.join(fw[0][1].get('arg_tys', [])[1:] + fw[0][1].get('substs', []))
    b = datum_deserializer_bodies(f).get('deserialize_newtype_struct')
    if b is None:
        ctx.ob('NEWTYPE', 'anchor', False, None, 'DatumDeserializer::deserialize_newtype_struct not found')
        return
    ctx.touched(b)
    vn = [t for bb, t in b.calls() if (t.get('callee') or '') == 'serde_core::de::Visitor::visit_newtype_struct' and not b.is_cleanup(bb)]
    de_transparent = len(vn) == 1 and origin(b, vn[0]['args'][1]).params() == {1} and \
        not [t for bb, t in b.calls() if classify_de(b, bb, t) and classify_de(b, bb, t)[0] in WIRE_KINDS]
    ctx.ob('NEWTYPE', 'transparent-on-both-sides', ser_transparent is not None and ser_transparent == de_transparent, short_loc(b.span),
           'serializer writes a newtype struct as its inner value: %s; deserializer answers deserialize_newtype_struct with visit_newtype_struct(self): %s' % (ser_transparent, de_transparent))
    # ... and so is every other deserializer of this crate that hands VALUES to user types (map keys, the enum-hinting
    # wrapper): `visit_newtype_struct(self)` keeps whatever that deserializer knows (forwarding to the inner deserializer's
    # deserialize_newtype_struct would drop the wrapper and its hint).  Identifier-only deserializers are exempt.
    IDENT_ONLY = {'DurationFieldNameDeserializer': 'record-field identifiers of a duration only', 'SchemaTypeNameDeserializer': 'variant identifiers only'}
    n_sib = 0
    for x in f.body_list:
        if x.name != 'deserialize_newtype_struct' or x.j['kind'] == 'closure' or x is b or x.j.get('impl_trait') != 'serde_core::de::Deserializer':
            continue
        if not (x.id.startswith('de::') or x.id.startswith('<de::')):
            continue
        short = short_fn(fn_label(x)).split('::')[0].lstrip('<').split(' ')[0]
        n_sib += 1
        if any(k in fn_label(x) for k in IDENT_ONLY):
            continue
        vn_ = [t for bb, t in x.calls() if (t.get('callee') or '') == 'serde_core::de::Visitor::visit_newtype_struct' and not x.is_cleanup(bb)]
        okx = len(vn_) == 1 and origin(x, vn_[0]['args'][1]).params() == {1}
        ctx.ob('NEWTYPE', 'sibling/%s' % fn_label(x).split(' as ')[0].lstrip('<').rsplit('::', 1)[-1], okx, short_loc(x.span),
               '%s answers deserialize_newtype_struct with visit_newtype_struct(self): %s' % (fn_label(x).split(' as ')[0].lstrip('<').rsplit('::', 1)[-1], okx))


def index_rule(ctx):
    f = ctx.f
    n = 0
    for b in f.body_list:
        if not (b.id.startswith('de::') or b.id.startswith('<de::')) or b.j['kind'] == 'closure':
            continue
        for bb, t in b.calls():
            if call_matches(t, ['Index::index', 'Index<I>>::index']) and not b.is_cleanup(bb) and len(t.get('args', [])) >= 2:
                # direct indexing by a decoded discriminant: an index outside the schema must be Err, not a panic
                io_ = origin(b, t['args'][1])
                # (fine once a `.get(discriminant)` on the table has answered Some on this path)
                checked = any('Some' in names and any(call_matches(c, ['slice::<impl [T]>::get']) for c in oo.calls)
                              for names, adt, oo, d_, oth in option_guards(b, bb))
                if any('read_discriminant' in a[1] for a in io_.atoms if a[0] == 'call') and not checked:
                    ctx.ob('INDEX', '%s/direct-index' % fn_label(b), False, short_loc(t.get('span')),
                           'a table is indexed directly by the decoded discriminant (%s): an index outside the schema panics instead of returning Err' % io_.describe()[:100])
                continue
            if not call_matches(t, ['slice::<impl [T]>::get']):
                continue
            recv = origin(b, t['args'][0])
            io = origin(b, t['args'][1])
            if not ({'variants', 'symbols'} & recv.fields) and not any('read_discriminant' in a[1] for a in io.atoms if a[0] == 'call'):
                continue
            n += 1
            ctx.touched(b, 1)
            idx_ok = io.only_from_calls(['discriminant::read_discriminant']) and not io.has_arith() and 'try' in io.flags \
                and not [fl for fl in io.flags if fl.startswith('cast:')]
            # None => Err on every path
            none_ok = False
            tgt = t.get('target')
            res = t['dest']['l']
            for sbb in sorted(b.live_blocks()):
                if b.term(sbb)['k'] != 'switch':
                    continue
                si = b.switch_info(sbb)
                if si.get('kind') == 'enum' and si.get('adt') == 'core::option::Option':
                    so = origin(b, si['place'])
                    if any(c is t for c in so.calls):
                        none_bb = si['variants'].get('None')
                        if none_bb is None and si.get('otherwise_variants') and 'None' in si['otherwise_variants']:
                            none_bb = si['otherwise']
                        if none_bb is not None and all_paths_err(b, none_bb):
                            none_ok = True
            if not none_ok:
                # `.get(i).ok_or(..)` / `.ok_or_else(..)`: None becomes the error value
                for bb2, t2 in b.calls():
                    if call_matches(t2, ['option::Option::<T>::ok_or_else', 'option::Option::<T>::ok_or']) and any(c is t for c in origin(b, t2['args'][0]).calls + [None]) or \
                            (call_matches(t2, ['option::Option::<T>::ok_or_else', 'option::Option::<T>::ok_or']) and op_place(t2['args'][0]) and op_place(t2['args'][0])['l'] == t['dest']['l']):
                        ro = return_origin(b)
                        if any(c is t2 for c in ro.calls) or try_edges(b, bb2) is not None:
                            none_ok = True
            which = 'variants' if 'variants' in recv.fields else 'symbols' if 'symbols' in recv.fields else \
                (b.local_name(list(recv.params())[0]) if len(recv.params()) == 1 else 'slice')
            ctx.ob('INDEX', '%s/%s.get' % (fn_label(b), which), idx_ok and none_ok, short_loc(t.get('span')),
                   'index derives from %s (must be the decoded discriminant, unmodified): %s; None => Err on every path: %s' % (io.describe(), idx_ok, none_ok))
    ctx.floor('INDEX', 'union/enum index lookups', n, 3)
    # an enum presented as its raw index (the u64 hint) is still an index INTO the schema: the value handed to the visitor
    # is compared with the number of symbols (index < symbols.len(), else Err) or comes out of a `.get(index)`
    dd = datum_deserializer_bodies(f)
    for name, b in sorted(dd.items()):
        for r in enum_regions(b, SCHEMA_NODE):
            if 'Enum' not in r.variants:
                continue
            for bb in sorted(r.blocks):
                t = b.term(bb)
                if t['k'] != 'call' or b.is_cleanup(bb) or (t.get('callee') or '') != 'serde_core::de::Visitor::visit_u64':
                    continue
                vo = origin(b, t['args'][1])
                if not any('read_varint' in a[1] or 'read_discriminant' in a[1] for a in vo.atoms if a[0] == 'call'):
                    continue
                bounded = False
                for g in cmp_guards(b, bb):
                    if g['op'] == 'Lt' and 'symbols' in g['r'].fields and 'len' in g['r'].flags and \
                            any('read_varint' in a[1] or 'read_discriminant' in a[1] for a in g['l'].atoms if a[0] == 'call') and \
                            all(all_paths_err(b, o_) for o_ in g['other']):
                        bounded = True
                for names, adt, oo, d_, oth in option_guards(b, bb):
                    if 'Some' in names and 'symbols' in oo.fields and any(call_matches(c, ['slice::<impl [T]>::get']) for c in oo.calls):
                        bounded = True
                ctx.ob('INDEX', '%s/Enum/raw-index-in-range' % name, bounded, short_loc(t.get('span')),
                       'the enum index handed to visit_u64 is checked against symbols.len() (else Err): %s' % bounded)


# reviewed lossy casts in de:: (function label -> (max count, reason)); guarded ones are accepted automatically
CAST_REVIEWED = {}

_INT_BITS = {'i8': 8, 'i16': 16, 'i32': 32, 'i64': 64, 'i128': 128, 'isize': 64, 'u8': 8, 'u16': 16, 'u32': 32, 'u64': 64,
             'u128': 128, 'usize': 64}


def lossy_int_cast(fr, to):
    if fr not in _INT_BITS or to not in _INT_BITS:
        return fr not in ('bool', 'char')  # bool/char -> int is lossless; anything else unknown => treat as lossy
    fs, ts = fr.startswith('i'), to.startswith('i')
    fb, tb = _INT_BITS[fr], _INT_BITS[to]
    if fs == ts:
        return tb < fb
    if not fs and ts:
        return tb <= fb
    return True  # signed -> unsigned changes negative values


def lengths_rule(ctx):
    f = ctx.f
    n = 0
    for b in f.body_list:
        if not (b.id.startswith('de::') or b.id.startswith('<de::')):
            continue
        if b.j.get('from_expansion'):
            continue
        for bb in sorted(b.live_blocks()):
            if b.is_cleanup(bb):
                continue
            for s in b.stmts(bb):
                if 'assign' not in s or s['rv']['k'] != 'cast':
                    continue
                rv = s['rv']
                if rv['cast'] not in ('IntToInt', 'FloatToInt'):
                    continue
                if const_int(rv['op']) is not None:
                    continue
                if (s.get('span') or {}).get('exp') and 'Derive' in (s.get('span') or {}).get('macro', ''):
                    continue
                if not lossy_int_cast(rv['from'], rv['to']):
                    continue
                n += 1
                ctx.touched(b)
                vo = origin(b, rv['op'])
                ok = False
                why = 'no dominating range guard'
                if rv['from'].startswith('i') and not rv['to'].startswith('i') and _INT_BITS.get(rv['to'], 0) >= _INT_BITS.get(rv['from'], 999):
                    for g in cmp_guards(b, bb):
                        if g['op'] == 'Ge' and g['r'].consts() == {0} and g['l'].atoms == vo.atoms:
                            ok = True
                            why = 'dominated by `value >= 0`'
                        if g['op'] == 'Le' and g['l'].consts() == {0} and g['r'].atoms == vo.atoms:
                            ok = True
                            why = 'dominated by `0 <= value`'
                ctx.ob('LENGTHS', 'cast/%s/%s->%s' % (fn_label(b), rv['from'], rv['to']), ok, short_loc(s.get('span')),
                       'lossy `as` cast of %s on the decode path: %s' % (vo.describe(), why))
    ctx.counts['LENGTHS:lossy casts on the decode path'] = {'actual': n, 'floor': 0}
    # the two conversion helpers: i64 -> usize through try_into, error returned
    for label in ('de::deserializer::types::length_delimited::read_len', 'de::deserializer::types::discriminant::read_discriminant'):
        b = fn_by_label(f, label)
        if b is None:
            ctx.ob('LENGTHS', label.rsplit('::', 1)[1], False, None, 'anchor %s not found' % label)
            continue
        ctx.touched(b)
        o = return_origin(b)
        # the Ok payload: only the decoded varint through a checked conversion; error constructors are the Err payload
        vals = [a for a in o.atoms if a[0] == 'call' and not ('Error' in a[1] or 'from_residual' in a[1])]
        ok = 'try_into' in o.flags and bool(vals) and all('read_varint' in a[1] for a in vals) and not o.has_arith() \
            and not [x for x in o.flags if x.startswith('cast:')] and not o.params() - {1}
        ctx.ob('LENGTHS', label.rsplit('::', 1)[1], ok, short_loc(b.span), 'returned usize derives from %s' % o.describe())
    # every usize argument of read_slice / skip in de::deserializer derives from a checked conversion, a constant or a schema size
    m = 0
    for b in f.body_list:
        if not (b.id.startswith('de::deserializer') or b.id.startswith('<de::deserializer')):
            continue
        for bb, t in b.calls():
            tok = classify_de(b, bb, t)
            if tok and tok[0] in ('SLICE', 'SKIP'):
                m += 1
                o = origin(b, t['args'][1])
                ok = ('try_into' in o.flags or o.only_from_calls(['length_delimited::read_len'])) and not o.has_arith() and not [x for x in o.flags if x.startswith('cast:')]
                ctx.ob('LENGTHS', 'len-arg/%s/%s' % (fn_label(b), tok[0]), ok, short_loc(t.get('span')), 'length argument derives from %s' % o.describe())
    ctx.floor('LENGTHS', 'dynamic length arguments', m, 2)


def bounds_rule(ctx):
    f = ctx.f
    # SliceRead::read_slice: split_at(n) dominated by !(n > len)
    b = fn_by_label(f, '<de::read::SliceRead as de::read::ReadSlice>::read_slice')
    if b is None:
        ctx.ob('BOUNDS', 'SliceRead::read_slice', False, None, 'anchor not found')
    else:
        ctx.touched(b)
        sp = [(bb, t) for bb, t in b.calls() if call_matches(t, SPLIT_AT)]
        ok = bool(sp)
        for bb, t in sp:
            no = origin(b, t['args'][1])
            g_ok = split_is_bounded(b, bb, t, need_slice_field=True) and 'slice' in origin(b, t['args'][0]).fields
            ok = ok and g_ok and no.params() == {2} and not no.has_arith()
        ctx.ob('BOUNDS', 'SliceRead::read_slice', ok, short_loc(b.span), 'split_at(n) dominated by n <= slice.len(), other edge returns Err: %s' % ok)
    b = fn_by_label(f, '<de::read::SliceRead as de::read::Read>::skip_bytes')
    if b is None:
        ctx.ob('BOUNDS', 'SliceRead::skip_bytes', False, None, 'anchor not found')
    else:
        ctx.touched(b)
        sh = slice_advance_shape(b)
        ok = sh is not None
        ctx.ob('BOUNDS', 'SliceRead::skip_bytes', ok, short_loc(b.span), 'advance by slice.get(n..) with None => Err, or by &slice[n..] under n <= len: %s' % ok)
    b = fn_by_label(f, '<de::read::take::SliceRead as de::read::take::Take>::take') or fn_by_label(f, '<de::read::SliceRead as de::read::take::Take>::take')
    if b is None:
        ctx.ob('BOUNDS', 'SliceRead::take', False, None, 'anchor not found')
    else:
        ctx.touched(b)
        sp = [(bb, t) for bb, t in b.calls() if call_matches(t, SPLIT_AT)]
        ok = bool(sp)
        for bb, t in sp:
            ok = ok and split_is_bounded(b, bb, t)
        ctx.ob('BOUNDS', 'SliceRead::take', ok, short_loc(b.span), 'split_at(block_size) dominated by block_size <= len: %s' % ok)


def blocks_rule(ctx):
    f = ctx.f
    b = fn_by_label(f, 'de::deserializer::types::blocks::read_block_len')
    if b is None:
        ctx.ob('BLOCKS', 'read_block_len', False, None, 'anchor read_block_len not found')
        return
    ctx.touched(b)
    reads = [(bb, t, classify_de(b, bb, t)) for bb, t in b.calls() if classify_de(b, bb, t) and classify_de(b, bb, t)[0] == 'VARINT']
    skips = [(bb, t) for bb, t in b.calls() if classify_de(b, bb, t) == ('SKIP',)]
    # the count read
    cnt = None
    for x in reads:
        if all(b.dominates(x[0], y[0]) for y in reads):
            cnt = x
    ctx.ob('BLOCKS', 'read_block_len/count-is-long', cnt is not None and cnt[2] == ('VARINT', 'i64'), short_loc(b.span),
           'block count read first as %s' % ((cnt[2] if cnt else None),))
    if cnt is None:
        return
    # find the `count < 0` switch
    neg_bb = None
    for sbb in sorted(b.live_blocks()):
        if b.term(sbb)['k'] != 'switch':
            continue
        si = b.switch_info(sbb)
        cond = switch_condition(b, si)
        if cond[0] == 'cmp' and cond[1] in ('Lt', 'Ge'):
            lo = origin(b, cond[2]); ro = origin(b, cond[3])
            if ro.consts() == {0} and any(c is cnt[1] for c in lo.calls):
                t0 = [x['bb'] for x in b.term(sbb)['targets'] if x['v'] == 0][0]
                oth = b.term(sbb)['otherwise']
                neg_bb, nonneg_bb = (oth, t0) if cond[1] == 'Lt' else (t0, oth)
    ctx.ob('BLOCKS', 'read_block_len/negative-test', neg_bb is not None, short_loc(b.span), 'found `count < 0` branch: %s' % (neg_bb is not None))
    if neg_bb is None:
        return
    neg_region = b.dominated_by(neg_bb)
    # inside the negative region: switch on `ignored` param
    ign = None
    ign_value = 1
    for sbb in sorted(neg_region):
        if b.term(sbb)['k'] == 'switch':
            si = b.switch_info(sbb)
            so = origin(b, si['op'])
            if so.params() == {2} and si.get('kind') != 'enum':
                t0 = [x['bb'] for x in b.term(sbb)['targets'] if x['v'] == 0]
                if t0:
                    ign = (si['otherwise'], t0[0])
    if ign is None:
        # the flag as a two-variant field-less enum (`BlockContents::{Deserialized, Ignored}`): the ignoring arm is the one
        # that skips
        for sbb in sorted(neg_region):
            if b.term(sbb)['k'] == 'switch':
                si = b.switch_info(sbb)
                if si.get('kind') != 'enum' or origin(b, si['place']).params() != {2}:
                    continue
                a_ = f.adts.get(si.get('adt') or '')
                if not a_ or len(a_.get('variants', [])) != 2 or any(v.get('fields') for v in a_['variants']):
                    continue
                tg = dict(si['variants'])
                for v_ in (si.get('otherwise_variants') or []):
                    tg.setdefault(v_, si['otherwise'])
                if len(tg) == 2:
                    (v1, b1), (v2, b2) = sorted(tg.items())
                    s1 = any(x[0] in b.dominated_by(b1) for x in skips)
                    s2 = any(x[0] in b.dominated_by(b2) for x in skips)
                    if s1 != s2:
                        ign = (b1, b2) if s1 else (b2, b1)
                        ign_value = v1 if s1 else v2
    ctx.ob('BLOCKS', 'read_block_len/ignored-split', ign is not None, short_loc(b.span), 'negative branch splits on `ignored`: %s' % (ign is not None))
    if ign is None:
        return
    ign_reg, keep_reg = b.dominated_by(ign[0]), b.dominated_by(ign[1])
    # who asks for the skipping: only the entry point that was told the value is ignored.  Anywhere else the elements of a
    # size-prefixed block would be jumped over and the visitor handed an empty (or shorter) collection, under an Ok
    sites, wrong = 0, []
    for x in f.body_list:
        if not x.id.startswith(('de::deserializer::', '<de::deserializer::')):
            continue
        for xb, xt in x.calls():
            if x.is_cleanup(xb) or not strip_generics(cname(xt)).endswith('types::blocks::BlockReader::new') or len(xt.get('args', [])) < 2:
                continue
            sites += 1
            v_ = const_int(xt['args'][1])
            if v_ is None:
                # (through the parameter of a spliced constructor helper: one definition per spliced copy)
                o_ = origin(x, xt['args'][1])
                ints_ = [c_ for c_ in o_.consts() if isinstance(c_, int)]
                vs_ = sorted({a[2] for a in o_.atoms if a[0] == 'agg'})
                if len(ints_) == 1 and len(o_.atoms) == 1:
                    v_ = ints_[0]
                elif len(vs_) == 1 and len(o_.atoms) == 1:
                    v_ = vs_[0]
            asks = (v_ == ign_value)
            in_ignored = fn_label(x).split('::{closure')[0].endswith('::deserialize_ignored_any')
            if v_ is None or asks != in_ignored:
                wrong.append('%s passes %s at %s' % (short_fn(fn_label(x)), v_, short_loc(xt.get('span'))))
    ctx.ob('BLOCKS', 'skipping-asked-only-by-ignored_any', sites >= 2 and not wrong, short_loc(b.span),
           '%d BlockReader::new call sites; the skipping value (%s) passed outside deserialize_ignored_any, or not passed inside it: %s' % (sites, ign_value, wrong or 'none'))
    r_ign = [x for x in reads if x[0] in ign_reg]
    r_keep = [x for x in reads if x[0] in keep_reg]
    ctx.ob('BLOCKS', 'read_block_len/size-read-when-ignoring', len(r_ign) == 1 and r_ign[0][2] == ('VARINT', 'i64'), short_loc(b.span),
           'byte size read on the ignoring path: %s' % [x[2] for x in r_ign])
    ctx.ob('BLOCKS', 'read_block_len/size-read-when-not-ignoring', len(r_keep) == 1 and r_keep[0][2][1] in ('i64', 'u64'), short_loc(b.span),
           'byte size read (and dropped) on the non-ignoring path: %s' % [x[2] for x in r_keep])
    # the size is a hint for skipping only: when the block is going to be read, the value is dropped - nothing is decided
    # on it (items may be zero bytes long: array<null>, empty records, fixed(0))
    judged = []
    for r_ in r_keep:
        for sbb in sorted(b.live_blocks()):
            if b.term(sbb)['k'] != 'switch':
                continue
            si = b.switch_info(sbb)
            if si.get('kind') == 'enum':
                continue
            from .c20gen import slice_back
            sl = slice_back(b, si['op'])
            if any(c[2] is r_[1] for c in sl.calls):
                judged.append(sbb)
    ctx.ob('BLOCKS', 'read_block_len/size-hint-not-judged', not judged, short_loc(b.span),
           'comparisons on the byte size of a block that is going to be read: %d (the size is only a skipping hint)' % len(judged))
    # skip uses the size just read, converted with try_into
    sk = [x for x in skips if x[0] in ign_reg]
    ok = len(sk) == 1 and len(r_ign) == 1
    if ok:
        o = origin(b, sk[0][1]['args'][1])
        ok = any(c is r_ign[0][1] for c in o.calls) and not any(c is cnt[1] for c in o.calls) and 'try_into' in o.flags and not o.has_arith() \
            and not [x for x in o.flags if x.startswith('cast:')]
        d = 'skip_bytes argument derives from %s' % o.describe()
    else:
        d = '%d skip_bytes call(s) on the ignoring path' % len(sk)
    ctx.ob('BLOCKS', 'read_block_len/skip-by-advertised-size', ok, short_loc(b.span), d)
    # ... and nothing else is skipped there: a block without an advertised byte size is decoded item by item (the
    # encoded size of an item is not a constant of its schema: varints grow with the value)
    other = [short_loc(x[1].get('span')) for x in skips if x[0] not in ign_reg and not b.is_cleanup(x[0])]
    ctx.ob('BLOCKS', 'read_block_len/no-computed-skip', not other, short_loc(b.span),
           'skip_bytes calls outside the advertised-size branch of the block header: %s' % (other or 'none'))
    # ... nor anywhere else in the deserializer proper: the advertised byte size is the only number of bytes that may be
    # skipped without decoding (a skip by count x "size of an item" lives wherever the block count is at hand)
    elsewhere = []
    for x in f.body_list:
        if x is b or not x.id.startswith(('de::deserializer::', '<de::deserializer::')):
            continue
        for xb, xt in x.calls():
            if not x.is_cleanup(xb) and classify_de(x, xb, xt) == ('SKIP',):
                elsewhere.append('%s at %s' % (short_fn(fn_label(x)), short_loc(xt.get('span'))))
    ctx.ob('BLOCKS', 'no-skip-outside-the-block-header', not elsewhere, short_loc(b.span),
           'skip_bytes calls in the deserializer outside read_block_len: %s' % (elsewhere or 'none'))
    # after skipping, the loop continues with the next header: the skip's success edge reaches the count read again
    if sk:
        te = try_edges(b, sk[0][0])
        back = te is not None and te[0] is not None and cnt[0] in b.reachable_from(te[0], avoid=[bb for bb in b.exits()])
        ctx.ob('BLOCKS', 'read_block_len/continue-after-skip', bool(back), short_loc(b.span), 'success edge of skip_bytes loops back to the header read: %s' % bool(back))
    # negation without overflow
    negs = []
    for bb in sorted(b.live_blocks()):
        for s in b.stmts(bb):
            if 'assign' in s and s['rv']['k'] == 'un' and s['rv']['op'] == 'Neg':
                negs.append(bb)
        t = b.term(bb)
        if t['k'] == 'assert' and t['kind'] == 'neg_overflow':
            negs.append(bb)
    wn = [bb for bb, t in b.calls() if call_matches(t, ['::wrapping_neg', '::unsigned_abs', '::wrapping_abs']) and bb in keep_reg]
    ctx.ob('BLOCKS', 'read_block_len/overflow-free-negation', not negs and bool(wn), short_loc(b.span),
           'no plain negation of the count (found %d), wrapping/unsigned negation used: %s' % (len(negs), bool(wn)))
    # result: try_into + map(NonZero::new): zero => None
    o = Origin()
    nz = False
    for d in b.defs().get(0, []):
        if d[2] == 'call' and d[0] in b.live_blocks() and not b.is_cleanup(d[0]):
            for a in d[3]['args']:
                oo = origin(b, a)
                o.atoms |= oo.atoms; o.flags |= oo.flags; o.calls += oo.calls
                if any('NonZero' in str(x) and 'new' in str(x) for x in oo.consts()):
                    nz = True
    # (or the count itself, 0 standing for "no more blocks": then has_more's zero arm is what ends the sequence)
    plain_count = not nz and 'try_into' in o.flags and re.match(r'core::result::Result<usize,', b.local_ty(0) or '') is not None and not o.has_arith()
    ctx.ob('BLOCKS', 'read_block_len/zero-ends', (nz or plain_count) and 'try_into' in o.flags, short_loc(b.span),
           'result is try_into(count).map(NonZero::new): zero count => None: %s; or the checked count itself with 0 as the end marker: %s' % (nz and 'try_into' in o.flags, plain_count))
    # has_more
    hm = fn_by_label(f, 'de::deserializer::types::blocks::BlockReader::has_more')
    if hm is None:
        ctx.ob('BLOCKS', 'has_more', False, None, 'anchor BlockReader::has_more not found')
        return
    ctx.touched(hm)
    cs = [(bb, t) for bb, t in hm.calls() if call_matches(t, ['::checked_sub'])]
    ok = False
    cd_field = None
    for bb, t in cs:
        o0 = origin(hm, t['args'][0]); o1 = origin(hm, t['args'][1])
        if len(o0.fields) == 1 and o0.params() == {1} and not o0.call_names() and o1.consts() == {1}:
            ok = True
            cd_field = list(o0.fields)[0]
    # the explicit spelling: `if self.F > 0 { self.F -= 1; return Ok(true) }` - a decrement of a field of self by the
    # constant 1 at a point where F > 0 (or F != 0, F >= 1) is known to hold
    explicit = []
    if not ok:
        for bb in sorted(hm.live_blocks()):
            if hm.is_cleanup(bb):
                continue
            for s_ in hm.stmts(bb):
                if 'assign' in s_ and s_['rv']['k'] in ('bin', 'checked_bin') and s_['rv']['op'] in ('Sub', 'SubWithOverflow'):
                    lo_, ro_ = origin(hm, s_['rv']['l']), origin(hm, s_['rv']['r'])
                    if len(lo_.fields) == 1 and lo_.params() == {1} and not lo_.call_names() and not lo_.has_arith() and ro_.consts() == {1} and not ro_.params():
                        fld_ = list(lo_.fields)[0]
                        pos = False
                        for g_ in cmp_guards(hm, bb):
                            if g_['l'].fields == {fld_} and not g_['l'].call_names() and not g_['r'].params() and not g_['r'].fields and \
                                    ((g_['op'] in ('Gt', 'Ne') and g_['r'].consts() == {0}) or (g_['op'] == 'Ge' and g_['r'].consts() == {1})):
                                pos = True
                        if pos:
                            explicit.append((bb, fld_))
        if len({x[1] for x in explicit}) == 1:
            ok = True
            cd_field = explicit[0][1]
    ctx.ob('BLOCKS', 'has_more/countdown', ok, short_loc(hm.span), 'per-element countdown is checked_sub(self.%s, 1), or self.%s - 1 under a positivity test of it: %s' % (cd_field, cd_field, ok))
    rb = [(bb, t) for bb, t in hm.calls() if 'read_block_len' in cname(t)]
    ok = len(rb) == 1
    if ok and explicit:
        # ... then the header is read only where the countdown is known to be exhausted (F <= 0 / F == 0 / F < 1)
        ok = False
        for g_ in cmp_guards(hm, rb[0][0]):
            if g_['l'].fields == {cd_field} and not g_['l'].call_names() and not g_['r'].params() and not g_['r'].fields and \
                    ((g_['op'] in ('Le', 'Eq') and g_['r'].consts() == {0}) or (g_['op'] == 'Lt' and g_['r'].consts() == {1})):
                ok = True
    elif ok:
        og = option_guards(hm, rb[0][0])
        ok = any('None' in names and any(call_matches(c, ['::checked_sub']) for c in oo.calls) for names, adt, oo, d_, oth in og)
    ctx.ob('BLOCKS', 'has_more/header-read-exactly-at-zero', ok, short_loc(hm.span), 'read_block_len is called only in the None arm of the countdown: %s' % ok)
    # Ok(false) only when read_block_len returned None
    fal = []
    for bb in ok_return_blocks(hm):
        for s in hm.stmts(bb):
            if 'assign' in s and s['assign']['l'] == 0 and s['rv']['k'] == 'agg' and const_int(s['rv']['ops'][0]) == 0:
                fal.append(bb)
    ok = bool(fal)

    def in_none_arm(bb):
        if any('None' in names and any('read_block_len' in cname(c) for c in oo.calls) for names, adt, oo, d_, oth in option_guards(hm, bb)):
            return True
        # the zero arm of a match on the count read_block_len returned (0 as the end marker)
        for d_, si_, taken_ in dominating_switches(hm, bb):
            if si_.get('kind') not in ('enum', 'bool') and taken_[0] == 'val' and tuple(taken_[1]) == (0,):
                so_ = origin(hm, si_['op'])
                if any('read_block_len' in cname(c) for c in so_.calls) and not so_.has_arith():
                    return True
        return False
    # ... or where a flag says that this very thing already happened: a bool field of the block reader that is set
    # (to true) only in that None arm, anywhere in de::
    def end_flag_fields():
        flds = {}
        for b2 in f.body_list:
            if not (b2.id.startswith('de::') or b2.id.startswith('<de::')):
                continue
            for bb2 in sorted(b2.live_blocks()):
                if b2.is_cleanup(bb2):
                    continue
                for s2 in b2.stmts(bb2):
                    if 'assign' in s2 and s2['assign'].get('p') and s2['rv']['k'] == 'use' and const_int(s2['rv']['op']) == 1:
                        fs = [e.get('f') for e in s2['assign']['p'] if isinstance(e, dict) and e.get('of', '').endswith('BlockReader')]
                        for fl in fs:
                            flds.setdefault(fl, []).append(b2 is hm and in_none_arm(bb2))
        return {fl for fl, v in flds.items() if v and all(v)}
    flags = end_flag_fields()
    for bb in fal:
        if in_none_arm(bb):
            continue
        by_flag = False
        for d, si, taken in dominating_switches(hm, bb):
            if si.get('kind') == 'enum':
                continue
            so = origin(hm, si['op'])
            if so.fields and so.fields <= flags and so.params() == {1} and taken[0] == 'not' and 0 in taken[1]:
                by_flag = True
        if not by_flag:
            ok = False
    ctx.ob('BLOCKS', 'has_more/ends-only-on-zero-count', ok, short_loc(hm.span), 'Ok(false) only in the None arm of read_block_len: %s' % ok)
    # the stored remaining count is l - 1 where l is the header's count
    # (one merged assignment `field = match countdown { Some(n) => n, None => header - 1 }`, or one assignment per case)
    st = False
    seen_hdr = seen_cd = False
    other = False
    for bb in hm.live_blocks():
        if hm.is_cleanup(bb):
            continue
        for s in hm.stmts(bb):
            if 'assign' in s and cd_field and any(isinstance(e, dict) and e.get('f') == cd_field for e in s['assign'].get('p', [])):
                o = origin(hm, s['rv']['op']) if s['rv']['k'] == 'use' else (origin(hm, s['assign']) if s['rv']['k'] == 'bin' else None)
                if s['rv']['k'] == 'bin':
                    o = Origin()
                    for side in ('l', 'r'):
                        so_ = origin(hm, s['rv'][side])
                        o.atoms |= so_.atoms; o.flags |= so_.flags; o.fields |= so_.fields; o.calls += so_.calls
                    o.flags.add('arith:' + s['rv']['op'])
                if o is None:
                    other = True
                    continue
                from_hdr = any('read_block_len' in cname(c) for c in o.calls)
                from_cd = any(call_matches(c, ['::checked_sub']) for c in o.calls)
                explicit_cd = bool(explicit) and not from_hdr and o.fields == {cd_field} and 1 in o.consts() and not o.call_names() and \
                    bool({x for x in o.flags if x.startswith('arith:')}) and {x for x in o.flags if x.startswith('arith:')} <= {'arith:SubWithOverflow', 'arith:Sub'}
                ar = {x for x in o.flags if x.startswith('arith:')}
                if from_hdr and ar <= {'arith:SubWithOverflow', 'arith:Sub'} and 1 in o.consts() and ar:
                    seen_hdr = True
                if (from_cd and (not ar or from_hdr)) or explicit_cd:
                    seen_cd = True
                if not from_hdr and not from_cd and not explicit_cd:
                    other = True
    st = seen_hdr and seen_cd and not other
    ctx.ob('BLOCKS', 'has_more/stores-count-minus-one', st, short_loc(hm.span), 'self.%s = countdown | header count - 1: %s' % (cd_field, st))
